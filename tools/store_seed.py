#!/usr/bin/env python3
"""tools/store_seed.py <id> <letter> : copies a confirmed seeded change from /tmp/wt_out/<id>/ to /verif/seeded/<id>_<letter>/
(patch.diff, demo.py, meta.json).  The description table is maintained by hand in tools/seed_descriptions.json."""
import json, os, shutil, sys
VERIF = os.path.dirname(os.path.dirname(os.path.abspath(__file__)))
pid, L = sys.argv[1], sys.argv[2]
src = "/tmp/wt_out/%s" % pid
dst = os.path.join(VERIF, "seeded", "%s_%s" % (pid, L))
os.makedirs(dst, exist_ok=True)
shutil.copy(os.path.join(src, "patch_%s.diff" % L), os.path.join(dst, "patch.diff"))
shutil.copy(os.path.join(src, "demo_%s.py" % L), os.path.join(dst, "demo.py"))
desc = json.load(open(os.path.join(VERIF, "tools", "seed_descriptions.json"))).get("%s_%s" % (pid, L), {})
conf = open(os.path.join(src, "confirm_%s.txt" % L)).read() if os.path.exists(os.path.join(src, "confirm_%s.txt" % L)) else ""
meta = {"property": pid, "seed": L, "breaks": desc.get("breaks", ""), "needs_to_manifest": desc.get("needs", ""),
        "written_by": "independent sub-agent given only the property text and a scratch worktree",
        "confirmed_by_me": {"command": "tools/confirm_seed.sh %s %s (scratch worktree of /repo HEAD: demo without the change, "
                                       "demo with the change, stable test suite with the change vs. a clean-worktree run)" % (pid, L),
                            "output": conf[-1500:]},
        "detected_by": desc.get("detected_by", "")}
json.dump(meta, open(os.path.join(dst, "meta.json"), "w"), indent=1)
print("stored", dst)
