#!/usr/bin/env python3
"""Compares a junit xml of the repository suite with /root/.vp/BASELINE.json stable_pass (guard off)."""
import json, sys, xml.etree.ElementTree as ET
base = set(json.load(open("/root/.vp/BASELINE.json"))["stable_pass"])
t = ET.parse(sys.argv[1])
passed = set()
for tc in t.iter("testcase"):
    if not any(c.tag in ("failure", "error", "skipped") for c in tc):
        passed.add("%s::%s" % (tc.get("classname"), tc.get("name")))
missing = sorted(base - passed)
print("stable baseline tests: %d, passing now: %d, missing: %d" % (len(base), len(base & passed), len(missing)))
for m in missing: print("  MISSING", m)
sys.exit(1 if missing else 0)
