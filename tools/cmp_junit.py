#!/usr/bin/env python3
"""tools/cmp_junit.py <baseline junit> <junit>: every test passing in the baseline run must pass in the second run"""
import sys, xml.etree.ElementTree as ET
def passed(p):
    out = set()
    for tc in ET.parse(p).iter("testcase"):
        if not any(c.tag in ("failure", "error", "skipped") for c in tc):
            out.add("%s::%s" % (tc.get("classname"), tc.get("name")))
    return out
a, b = passed(sys.argv[1]), passed(sys.argv[2])
missing = sorted(a - b)
print("baseline passing: %d, now passing: %d, regressions: %d" % (len(a), len(b), len(missing)))
for m in missing: print("  REGRESSION", m)
sys.exit(1 if missing else 0)
