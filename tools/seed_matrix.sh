#!/bin/sh
# tools/seed_matrix.sh [ids...] : applies every stored seeded change to a scratch worktree of /repo HEAD (never to /repo),
# runs the quick check of its property against that worktree and records the outcome in seeded/detection/<seed>.txt
cd "$(dirname "$0")/.."
VERIF=$(pwd)
mkdir -p seeded/detection
IDS="$@"
[ -z "$IDS" ] && IDS=$(ls seeded | grep -E '^C[0-9]+_[A-D]$')
for S in $IDS; do
  P=${S%_*}
  OUT=seeded/detection/$S.txt
  [ -f props/$P.py ] || { echo "no check for $P" > $OUT; continue; }
  WT=/tmp/wt/seed_$S
  rm -rf $WT; git -C /repo worktree prune; git -C /repo worktree add -q --detach $WT HEAD || { echo "worktree failed" > $OUT; continue; }
  if ! git -C $WT apply $VERIF/seeded/$S/patch.diff 2>/tmp/wt/apply_$S.err; then
    echo "patch does not apply to the repaired tree: $(head -2 /tmp/wt/apply_$S.err | tr '\n' ' ')" > $OUT
  else
    ( cd $VERIF && QVC_REPO=$WT QVC_REPLAY_DIR=/tmp/wt/replays_$S timeout 2400 ./check $P --tier quick > /tmp/wt/run_$S.log 2>&1; echo "rc=$?" > $OUT
      grep -E "^(VIOLATION|UNDECIDED|CHECKER-ERROR|KNOWN)" /tmp/wt/run_$S.log | cut -c1-300 | head -4 >> $OUT
      tail -1 /tmp/wt/run_$S.log | cut -c1-200 >> $OUT )
    # does the change still break the property on the repaired tree?  (its own demonstration)
    ( cd /tmp && PYTHONPATH=$WT timeout 900 /venv/bin/python -W ignore $VERIF/seeded/$S/demo.py > /tmp/wt/demo_$S.log 2>&1; echo "demo_exit=$?" >> $VERIF/$OUT )
  fi
  git -C /repo worktree remove --force $WT
done
