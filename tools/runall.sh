#!/bin/sh
# tools/runall.sh [tier] : runs every registered check, one line each with its exit code
TIER=${1:-quick}
cd "$(dirname "$0")/.."
for id in $(python3 -c "import json;print(' '.join(c['property_id'] for c in json.load(open('MANIFEST.json'))['checks']))"); do
  out=$(./check $id --tier $TIER 2>&1); rc=$?
  echo "rc=$rc $(echo "$out" | tail -1 | cut -c1-220)"
  if [ $rc -ne 0 ]; then echo "$out" | grep -E "^(VIOLATION|UNDECIDED|CHECKER-ERROR)" | cut -c1-400 | head -5; fi
done
