#!/bin/sh
# tools/confirm_seed.sh <property id> <A|B> : confirms a seeded change in a scratch worktree (never in /repo):
#   demo passes without the change, fails with it; the stable baseline tests still pass with it.
# Results are written to /tmp/wt_out/<id>/confirm_<letter>.txt
ID=$1; L=$2
WT=/tmp/wt/confirm_${ID}_$L
OUT=/tmp/wt_out/$ID/confirm_$L.txt
rm -rf $WT; git -C /repo worktree prune; git -C /repo worktree add -q --detach $WT HEAD || exit 2
cd $WT || exit 2
{
echo "base commit: $(git rev-parse --short HEAD)"
echo "== demo without the change"
PYTHONPATH=$WT /venv/bin/python -W ignore /tmp/wt_out/$ID/demo_$L.py > /tmp/wt_out/$ID/confirm_${L}_demo_clean.log 2>&1; echo "exit=$?"; tail -3 /tmp/wt_out/$ID/confirm_${L}_demo_clean.log
git apply /tmp/wt_out/$ID/patch_$L.diff || { echo "PATCH DOES NOT APPLY"; exit 3; }
echo "== demo with the change"
PYTHONPATH=$WT /venv/bin/python -W ignore /tmp/wt_out/$ID/demo_$L.py > /tmp/wt_out/$ID/confirm_${L}_demo_patched.log 2>&1; echo "exit=$?"; tail -5 /tmp/wt_out/$ID/confirm_${L}_demo_patched.log
echo "== test suite with the change"
PYTHONPATH=$WT /venv/bin/python -m pytest -q -p no:cacheprovider --timeout=900 --continue-on-collection-errors --ignore=tests/matplotlib --junitxml=/tmp/wt_out/$ID/confirm_${L}_junit.xml tests > /tmp/wt_out/$ID/confirm_${L}_pytest.log 2>&1
tail -1 /tmp/wt_out/$ID/confirm_${L}_pytest.log
python3 /verif/tools/cmp_junit.py /tmp/wt_out/base_junit.xml /tmp/wt_out/$ID/confirm_${L}_junit.xml
} > $OUT 2>&1
cd /; git -C /repo worktree remove --force $WT
