#!/usr/bin/env python3
"""tools/detection_table.py : rewrites the seeded-change table of DESIGN.md (between the DETECTION-TABLE markers) from
seeded/<id>/meta.json and seeded/detection/<id>.txt (written by tools/seed_matrix.sh)."""
import json, os, re, glob
VERIF = os.path.dirname(os.path.dirname(os.path.abspath(__file__)))
NOTES = json.load(open(os.path.join(VERIF, "tools", "detection_notes.json"))) if os.path.exists(os.path.join(VERIF, "tools", "detection_notes.json")) else {}
rows = []
counts = {"caught": 0, "missed": 0, "undecided": 0, "n/a": 0, "moot": 0}
for d in sorted(glob.glob(os.path.join(VERIF, "seeded", "C*_[A-D]"))):
    sid = os.path.basename(d)
    meta = json.load(open(os.path.join(d, "meta.json")))
    det = os.path.join(VERIF, "seeded", "detection", sid + ".txt")
    txt = open(det).read() if os.path.exists(det) else ""
    breaks = re.sub(r"\s+", " ", meta.get("breaks", ""))[:150]
    rc = re.search(r"^rc=(\d+)", txt, re.M)
    demo = re.search(r"demo_exit=(\d+)", txt)
    viol = re.search(r"^VIOLATION .*obligation=(\S+)(.*)$", txt, re.M)
    if sid in NOTES.get("__moot__", {}):
        out, key = NOTES["__moot__"][sid], "moot"
    elif "no check for" in txt:
        out, key = "no check (property not applicable)", "n/a"
    elif "does not apply" in txt:
        out, key = "patch no longer applies to the repaired tree", "moot"
    elif demo and demo.group(1) == "0" and (not rc or rc.group(1) == "0"):
        out, key = "no longer breaks the property on the repaired tree (its own demonstration passes); check silent", "moot"
    elif rc and rc.group(1) == "1" and viol:
        via = "native oracle as replay" if "oracle_" in txt.split("obligation=")[0] else "replayed counter-model"
        nf = " (no native failing input)" if "no-failing-input-found" in viol.group(2) else ""
        out, key = "**caught**: `%s`, %s%s" % (viol.group(1)[:90], via, nf), "caught"
    elif rc and rc.group(1) == "2":
        out, key = "UNDECIDED (exit 2): not silent, not a detection", "undecided"
    elif rc and rc.group(1) == "124":
        out, key = "check did not finish within 40 min on the changed tree", "undecided"
    else:
        out, key = "missed by the quick check", "missed"
    counts[key] += 1
    note = NOTES.get(sid, "")
    rows.append("| %s | %s | %s%s |" % (sid, breaks, out, (" — " + note) if note else ""))
table = ["| seed | what the change breaks | outcome of `./check <id> --tier quick` on the changed tree |", "|---|---|---|"] + rows
table.append("")
table.append("Totals: %(caught)d caught, %(missed)d missed, %(undecided)d undecided, %(moot)d moot on the repaired tree, "
             "%(n/a)d without a check." % counts)
p = os.path.join(VERIF, "DESIGN.md")
s = open(p).read()
a, b = s.index("<!-- DETECTION-TABLE-BEGIN -->"), s.index("<!-- DETECTION-TABLE-END -->")
s = s[:a] + "<!-- DETECTION-TABLE-BEGIN -->\n" + "\n".join(table) + "\n" + s[b:]
open(p, "w").write(s)
print(counts)
