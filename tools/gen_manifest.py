#!/usr/bin/env python3
"""Regenerates /verif/MANIFEST.json from the META blocks of the property modules (props/Cxx.py).
Properties without a module are listed under not_applicable with the reason given in NOT_CLAIMED below."""
import importlib
import json
import os
import sys

VERIF = os.path.dirname(os.path.dirname(os.path.abspath(__file__)))
sys.path.insert(0, VERIF)

BASELINE_CMD = ("cd /repo && /venv/bin/python -m pytest -ra -q -p no:cacheprovider --timeout=900 "
                "--continue-on-collection-errors")

NOT_CLAIMED = {}

COMMON_NOTE = ("Trusted: the qvc VC generator; floats as exact reals / complex as pairs of reals (IEEE rounding not "
               "modelled); Python ints mathematical; arrays as total functions, no aliasing between distinct "
               "parameters; assumed contracts of builtins/NumPy listed per run in evidence.coverage.trusted_base; "
               "z3 5.1 / cvc5 / Lean 4.33+Mathlib as checkers.")


def main():
    props = [json.loads(l) for l in open(os.path.join(VERIF, "properties.jsonl"))]
    checks, na = [], []
    for p in props:
        pid = p["id"]
        path = os.path.join(VERIF, "props", pid + ".py")
        if not os.path.exists(path):
            na.append({"property_id": pid,
                       "reason": NOT_CLAIMED.get(pid, "no check registered yet: contracts for this property are "
                                                 "planned (DESIGN.md section 8) but not built at this commit")})
            continue
        mod = importlib.import_module("props." + pid)
        meta = getattr(mod, "META", None)
        if meta is None or meta.get("not_applicable"):
            na.append({"property_id": pid, "reason": (meta or {}).get("not_applicable", "no META block")})
            continue
        checks.append({
            "property_id": pid,
            "quick_cmd": "./check %s --tier quick" % pid,
            "thorough_cmd": "./check %s --tier thorough" % pid,
            "evidence_file": "evidence/%s.json" % pid,
            "replay_cmd_template": "./check %s --replay {path}" % pid,
            "engine": "qvc",
            "level_claimed": {"category": meta["category"], "text": meta["text"],
                              "design_ref": meta.get("design_ref", "DESIGN.md section 8, " + pid)},
            "level_note": meta.get("note", "") + " " + COMMON_NOTE,
            "technique": meta.get("technique", "contract-based deductive verification: VCs generated from the "
                                               "real AST by qvc, discharged by z3/cvc5 and Lean 4"),
        })
    man = {
        "version": 1,
        "setup_cmd": "./setup.sh",
        "hooks": {
            "guard": "QUANTARHEI_VERIF",
            "enable": "no source hooks were needed: contracts are sidecar files under /verif/props read against the "
                      "unmodified source, replays and oracles drive the public API of the code in QVC_REPO (default "
                      "/repo); the guard variable is reserved and switches nothing on in /repo",
            "baseline_off_cmd": BASELINE_CMD,
            "source_commits": [],
            "add_only": True,
        },
        "engines": [{"name": "qvc", "path": "qvc/", "serves_properties": [c["property_id"] for c in checks],
                     "kind_free_text": "VC generator / symbolic executor over the real Python AST (sidecar "
                                       "contracts) + z3/cvc5 + Lean 4 bridge lemmas"}],
        "checks": checks,
        "not_applicable": na,
        "notes": "Exit codes of ./check: 0 held, 1 VIOLATION, 2 UNDECIDED (solver unknown / construct outside the "
                 "modelled subset), 3 checker malfunction. Fix commits in /repo are recorded in known_findings.json.",
    }
    with open(os.path.join(VERIF, "MANIFEST.json"), "w") as f:
        json.dump(man, f, indent=1)
    try:
        import jsonschema
        jsonschema.validate(man, json.load(open("/root/.vp/MANIFEST.schema.json")))
        print("MANIFEST.json valid: %d checks, %d not_applicable" % (len(checks), len(na)))
    except ImportError:
        print("written (jsonschema not importable here)")


if __name__ == "__main__":
    main()
