"""./check <id> --tier quick|thorough [--replay <file>]

exit 0  every obligation generated from the current source was discharged (and every bounded stand-in passed)
exit 1  an obligation was refuted: VIOLATION property=<id> replay=<path>  (native replay of the counter-model;
        `no-failing-input-found` appended when the native run does not reproduce it)
exit 2  UNDECIDED (solver unknown/timeout, construct outside the modelled subset, Lean script failure)
exit 3  checker malfunction (function not found, zero obligations, vacuous hypotheses, tool missing, traceback)
"""
import argparse
import importlib
import json
import os
import subprocess
import sys
import time
import traceback

VERIF = os.path.dirname(os.path.dirname(os.path.abspath(__file__)))
sys.path.insert(0, VERIF)

import z3                                            # noqa: E402
from qvc import source, spec, numpy_model, smt, report, replay, lean      # noqa: E402
from qvc.values import Unsupported                   # noqa: E402


class Plan:
    """what a property module hands to the driver"""

    def __init__(self, pid):
        self.pid = pid
        self.functions = []          # qualnames proved against their contracts
        self.lemmas = []             # callables(ctx) -> [Obligation]  (property-level, over contracts)
        self.lean = []               # lean.LeanJob
        self.bounded = []            # callables(ctx) -> dict(what, bound, passed, detail, cases)
        self.replayers = []          # callables(ob, model) -> script text | None
        self.not_decided = []
        self.trusted = []
        self.assumptions = []
        self.extra_axioms = []
        self.thorough_only = []      # callables(ctx) -> dict for the thorough tier
        self.oracles = []            # native property-level scripts (under native/) used as replay of last resort
        self.level = "proof"
        self.api_preconditions = []


class Ctx:
    def __init__(self, pid, tier, seed):
        self.pid = pid
        self.tier = tier
        self.seed = seed
        self.repo = source.Repo()
        self.models = numpy_model.Models()
        self.registry = spec.Registry(self.repo, self.models)
        self.reports = {}


def load_known_findings():
    p = os.path.join(VERIF, "known_findings.json")
    if not os.path.exists(p):
        return []
    with open(p) as f:
        return json.load(f).get("findings", [])


def finding_for(pid, ob, findings):
    """an *open* finding matches by property, obligation family and (where given) call site / input predicate"""
    for f in findings:
        if f.get("property") != pid or f.get("status") != "open":
            continue
        if f.get("obligation") and not ob.name.startswith(f["obligation"]):
            continue
        if f.get("where") and f["where"] not in ob.where:
            continue
        return f
    return None


def bounded_contract(q, size_sets, note=""):
    """plan.bounded entry: the contract of q checked by full unrolling at the given fixed sizes with all values symbolic
    (complete for those sizes, silent beyond).  Reported under coverage.bounded, never counted as proved."""
    def run_(ctx):
        out = []
        plan_axioms = list(getattr(ctx, "plan_axioms", ()))
        for sizes in size_sets:
            t0 = time.time()
            try:
                rep = spec.verify_function(ctx.repo, ctx.registry, q, fixed=dict(sizes), max_paths=200)
            except KeyError:
                out.append({"what": "bounded:%s" % q, "bound": sizes, "passed": False, "error": True,
                            "detail": "function not found"})
                continue
            ctx.reports.setdefault("bounded:" + q, rep)
            obs = list(rep.obligations)
            res = {"what": "bounded:%s" % q.split("::")[1], "bound": dict(sizes), "obligations": len(obs),
                   "function_sha256": rep.sha256, "note": note}
            if rep.unsupported or not obs:
                res.update(passed=False, undecided=True, detail="; ".join(rep.unsupported) or "no obligations")
                out.append(res)
                continue
            # concretise: sums and range-bounded quantifiers are unrolled (sizes are numerals now)
            bad, und = [], []
            span = max([v for v in sizes.values() if isinstance(v, int)] + [3]) + 1
            for ob in obs:
                cache, table, keep = {}, {}, []
                asserts = []
                for h in list(ob.hyps) + plan_axioms:
                    asserts.append(smt.abstract_lambdas(smt.expand_concrete(z3.simplify(h), cache, True, span), table, keep)
                                   if smt._has_quantifier(h) or smt._mentions_decl([h], "u_sum") else h)
                g = smt.expand_concrete(z3.simplify(ob.goal), cache, True, span)
                asserts.append(z3.Not(g))
                # in a child process with the budget counted in its CPU time (like every other solver call)
                # (heavy-tailed running times: a few restarts with other seeds instead of one long attempt)
                for seed_ in (0, 7, 13, 21):
                    r, model_, _why = smt._hard_check(asserts, 15000, seed_, rep.leaves)
                    if r != "unknown":
                        break
                if r == "sat" and ob.kind == "model-limit":
                    und.append(ob.name + " (limit of the array model: possibly negative index)")
                elif r == "sat":
                    ob.verdict, ob.model = "refuted", model_
                    bad.append(ob)
                elif r != "unsat":
                    und.append(ob.name)
            res["seconds"] = round(time.time() - t0, 2)
            if bad:
                path, reproduced, outp = replay.write_and_run(ctx.pid, bad[0], ctx.plan, ctx)
                res.update(passed=False, detail="refuted at sizes %s: %s" % (sizes, bad[0].name), native=reproduced,
                           replay_script=open(path).read())
            elif und:
                res.update(passed=False, undecided=True, detail="solver undecided: " + ", ".join(und[:4]))
            else:
                res.update(passed=True, detail="all %d obligations hold for every value at these sizes" % len(obs))
            out.append(res)
        return out
    return run_


def bounded_refutation(ctx, plan, pid, q, axioms_plain=()):
    """bounded stand-in used only to look for a failing input (never counted as proof)"""
    rep0 = ctx.reports[q]
    names = [str(s_) for s_ in smt.size_symbols(rep0.leaves)]
    if not names:
        return None
    for n in (2, 3):
        try:
            rep = spec.verify_function(ctx.repo, ctx.registry, q, fixed={nm: n for nm in names}, max_paths=60)
        except Exception:      # noqa
            return None
        obs = [ob for ob in rep.obligations if ob.kind in ("postcondition", "exceptional-postcondition")]
        if not obs or rep.unsupported:
            continue
        smt.discharge(obs, extra_axioms=(list(axioms_plain), []), leaves=rep.leaves)
        for ob in obs:
            if ob.verdict in ("refuted", "candidate"):
                ob.name = ob.name + "[sizes=%d]" % n
                path, reproduced, out = replay.write_and_run(pid, ob, plan, ctx)
                if reproduced:
                    return path, ob
    return None


def run(pid, tier, seed, do_replay=None):
    t0 = time.time()
    ctx = Ctx(pid, tier, seed)
    mod = importlib.import_module("props." + pid)
    plan = mod.plan(ctx)
    ctx.plan = plan
    ctx.plan_axioms = list(plan.extra_axioms)
    findings = load_known_findings()
    status = {"violations": [], "undecided": [], "errors": [], "known": []}
    all_obs = []
    leaves_per_ob = []

    # 1. function contracts ------------------------------------------------------------------------
    for q in plan.functions:
        try:
            rep = spec.verify_function(ctx.repo, ctx.registry, q)
        except KeyError:
            status["errors"].append("function not found: %s" % q)
            continue
        except Exception as e:      # noqa
            status["errors"].append("executor crashed on %s: %s" % (q, traceback.format_exc(limit=6)))
            continue
        ctx.reports[q] = rep
        for u in rep.unsupported:
            status["undecided"].append("%s: outside the modelled subset: %s" % (q, u))
        if not rep.obligations and not rep.unsupported:
            status["errors"].append("zero obligations for %s" % q)
        for ob in rep.obligations:
            all_obs.append(ob)
            leaves_per_ob.append(rep.leaves)

    # 2. property-level lemmas over the contracts ---------------------------------------------------
    for lem in plan.lemmas:
        try:
            obs = lem(ctx)
        except Unsupported as u:
            status["undecided"].append("lemma %s: %s" % (getattr(lem, "__name__", "?"), u))
            ctx.unsupported_lemmas = getattr(ctx, "unsupported_lemmas", []) + [(getattr(lem, "__name__", "?"), str(u))]
            continue
        except Exception:      # noqa
            status["errors"].append("lemma generator crashed: %s" % traceback.format_exc(limit=6))
            continue
        for ob in obs:
            all_obs.append(ob)
            leaves_per_ob.append(ob.meta.get("leaves", {}))

    # 3. discharge -----------------------------------------------------------------------------------
    from qvc import sums, lemmalib
    axioms = list(plan.extra_axioms)
    sum_ax = []
    ctx.used_lemmas = set(getattr(ctx, "used_lemmas", ()))
    if sums.uses_sums():
        sum_ax = sums.sum_axioms()
        ctx.used_lemmas |= set(lemmalib.SUM_AXIOM_LEMMAS)
    smt.discharge(all_obs, extra_axioms=(axioms, sum_ax), leaves=leaves_per_ob)
    axioms = axioms + sum_ax

    # 4. vacuity: hypotheses of (a sample of) obligations must be satisfiable ------------------------
    vac = []
    seen_fn = {}
    items = []
    for ob in all_obs:
        if ob.kind != "postcondition" and ob.kind != "lemma":
            continue
        key = ob.where
        if seen_fn.get(key, 0) >= 2:
            continue
        seen_fn[key] = seen_fn.get(key, 0) + 1
        items.append(ob)
    res = smt.vacuity([(ob.hyps, ob.goal) for ob in items], full=(tier == "thorough"), extra=axioms)
    for ob, (r, r2) in zip(items, res):
        vac.append({"obligation": ob.name, "where": ob.where, "hypotheses": r, "hypotheses_and_goal": r2,
                    "scope": "all hypotheses" if tier == "thorough" else "quantifier-free hypotheses"})
        if r == "unsat":
            status["errors"].append("vacuous hypotheses for %s" % ob.name)

    # 5. Lean lemmas ---------------------------------------------------------------------------------
    used = set()
    for rep in ctx.reports.values():
        used |= rep.used_lemmas
    used |= set(getattr(ctx, "used_lemmas", ()))
    used |= set(getattr(ctx.registry, "auto_lemmas", ()))      # identities the array models rely on (numpy.diag products)
    jobs = list(plan.lean) + [lemmalib.job(n) for n in sorted(used)]
    lean_results = lean.run_jobs(jobs, ctx) if jobs else []
    for lr in lean_results:
        if not lr["ok"]:
            status["undecided"].append("lean lemma %s failed: %s" % (lr["name"], lr["output"][:400]))

    # 6. bounded stand-ins ---------------------------------------------------------------------------
    bounded = []
    for b in plan.bounded:
        try:
            r = b(ctx)
        except Exception:      # noqa
            status["errors"].append("bounded check crashed: %s" % traceback.format_exc(limit=6))
            continue
        rs = r if isinstance(r, list) else [r]
        for r1 in rs:
            bounded.append(r1)
            if not r1.get("passed", False):
                if r1.get("undecided"):
                    status["undecided"].append("bounded %s: %s" % (r1.get("what"), r1.get("detail")))
                else:
                    status["violations"].append(("bounded", r1))
    thorough = []
    if tier == "thorough":
        for tchk in plan.thorough_only:
            try:
                r = tchk(ctx)
            except Exception:      # noqa
                status["errors"].append("thorough check crashed: %s" % traceback.format_exc(limit=6))
                continue
            rs = r if isinstance(r, list) else [r]
            for r1 in rs:
                thorough.append(r1)
                if not r1.get("passed", False):
                    if r1.get("undecided"):
                        status["undecided"].append("thorough %s: %s" % (r1.get("what"), r1.get("detail")))
                    elif r1.get("error"):
                        status["errors"].append("thorough %s: %s" % (r1.get("what"), r1.get("detail")))
                    else:
                        status["violations"].append(("bounded", r1))

    # 7. verdicts ------------------------------------------------------------------------------------
    lines = []
    n_viol = 0
    for ob in all_obs:
        if ob.verdict == "proved":
            continue
        if ob.verdict == "undecided":
            f = finding_for(pid, ob, findings)
            if f is not None:
                # the obligation of a recorded open finding: whether the solver exhibits its counter-model again or only
                # fails to prove it depends on solver luck; the finding is identified by the obligation either way
                status["known"].append((ob, f))
                continue
            status["undecided"].append("%s (%s): %s" % (ob.name, ob.where, getattr(ob, "reason", "")))
            continue
        if ob.verdict == "candidate":
            # not a verdict of the solver: only a native reproduction makes it a violation
            f = finding_for(pid, ob, findings)
            if f is not None:
                status["known"].append((ob, f))
                continue
            path, reproduced, out = replay.write_and_run(pid, ob, plan, ctx)
            if reproduced:
                n_viol += 1
                lines.append("VIOLATION property=%s replay=%s obligation=%s" % (pid, path, ob.name))
            else:
                status["undecided"].append("%s (%s): %s; candidate not reproduced natively"
                                           % (ob.name, ob.where, getattr(ob, "reason", "")))
            continue
        # refuted
        if ob.kind == "model-limit":
            status["undecided"].append("%s (%s): outside the modelled semantics (e.g. negative index wrap-around); "
                                       "model %s" % (ob.name, ob.where, str({k: v for k, v in (ob.model or {}).items()
                                                                             if not k.startswith("__")})[:200]))
            continue
        f = finding_for(pid, ob, findings)
        if f is not None:
            status["known"].append((ob, f))
            continue
        path, reproduced, out = replay.write_and_run(pid, ob, plan, ctx)
        ob._not_reproduced = not reproduced
        n_viol += 1
        tail = "" if reproduced else " no-failing-input-found"
        lines.append("VIOLATION property=%s replay=%s obligation=%s%s" % (pid, path, ob.name, tail))
    # replay of last resort: obligations that are refuted/undecided without a native failing input -> run the
    # property-level native oracle on small concrete systems; a failing input found there is a real violation
    doubtful = [ob for ob in all_obs if ob.verdict in ("undecided", "candidate")
                or (ob.verdict == "refuted" and getattr(ob, "_not_reproduced", False))]
    # bounded refutation search: obligations of a function that are refuted/undecided without a native failing input
    # -> re-run the function with every size symbol fixed to 2, 3 (loops unrolled, all values symbolic); a refuted
    # postcondition there comes with real inputs that are replayed on the real function
    if doubtful:
        fns = []
        for ob in doubtful:
            q = (ob.meta or {}).get("function")
            if q and q in ctx.reports and q not in fns:
                fns.append(q)
        for q in fns[:4]:
            hit = bounded_refutation(ctx, plan, pid, q, axioms_plain=list(plan.extra_axioms))
            if hit is not None:
                path, ob_b = hit
                names = set(o.name for o in doubtful if (o.meta or {}).get("function") == q)
                status["undecided"] = [u for u in status["undecided"] if not any(u.startswith(n) for n in names)]
                lines = [ln for ln in lines if not any(("obligation=" + n) in ln for n in names)]
                lines.append("VIOLATION property=%s replay=%s obligation=%s" % (pid, path, sorted(names)[0]))
                n_viol = sum(1 for ln in lines if ln.startswith("VIOLATION"))
                doubtful = [o for o in doubtful if (o.meta or {}).get("function") != q]
    # obligations that are listed open findings are reported as such; they do not ask for a replay of their own
    doubtful = [ob for ob in doubtful if not (hasattr(ob, "where") and finding_for(pid, ob, findings))]
    unsupported_fns = [q for q, rep in ctx.reports.items() if rep.unsupported]
    if not doubtful and getattr(ctx, "unsupported_lemmas", None) and plan.oracles:
        # a composed run (lemma over the real code) left the modelled subset: undecided by proof; the oracle may still
        # exhibit a failing input
        class _UL:
            pass
        for nm, why in ctx.unsupported_lemmas:
            u = _UL()
            u.name, u.verdict, u.reason = "outside-modelled-subset:lemma:" + nm, "undecided", why[:200]
            doubtful.append(u)
        unsupported_lemma_names = ["lemma %s:" % nm for nm, _ in ctx.unsupported_lemmas]
    else:
        unsupported_lemma_names = []
    if not doubtful and unsupported_fns and plan.oracles:
        # code the executor cannot follow any more (construct outside the modelled subset): undecided by proof; the
        # native oracle may still exhibit a failing input
        class _U:
            pass
        for q in unsupported_fns:
            u = _U()
            u.name, u.verdict, u.reason = "outside-modelled-subset:" + q.split("::")[1], "undecided", \
                "; ".join(ctx.reports[q].unsupported)[:200]
            doubtful.append(u)
    if doubtful and plan.oracles:
        for script in plan.oracles:
            path, reproduced, out = replay.run_oracle(pid, script, doubtful)
            if reproduced:
                ob0 = doubtful[0]
                # the undecided/candidate entries of these obligations are superseded by the demonstrated violation
                names = set(o.name for o in doubtful)
                status["undecided"] = [u for u in status["undecided"] if not any(u.startswith(n) for n in names)
                                       and not any(u.startswith(q + ": outside the modelled subset") for q in unsupported_fns)
                                       and not any(u.startswith(n) for n in unsupported_lemma_names)]
                lines = [ln for ln in lines if not any(("obligation=" + n) in ln for n in names)]
                n_viol = sum(1 for ln in lines if ln.startswith("VIOLATION"))
                n_viol += 1
                lines.append("VIOLATION property=%s replay=%s obligation=%s" % (pid, path, ob0.name))
                break
    for kind, r1 in status["violations"]:
        f = None
        for fd in findings:
            if fd.get("property") == pid and fd.get("status") == "open" and fd.get("bounded") \
                    and fd["bounded"] in str(r1.get("what")):
                f = fd
        if f is not None:
            status["known"].append((r1, f))
            continue
        path = replay.write_bounded(pid, r1)
        n_viol += 1
        tail = "" if r1.get("native", True) else " no-failing-input-found"
        lines.append("VIOLATION property=%s replay=%s obligation=%s%s" % (pid, path, r1.get("what"), tail))
    # violations still without a failing input of their own: the property-level oracle is the replay of last resort
    oracle_runs = {}
    if plan.oracles and any(ln.startswith("VIOLATION") and ln.endswith("no-failing-input-found") for ln in lines):
        for script in plan.oracles:
            path, reproduced, out = replay.run_oracle(pid, script, [])
            oracle_runs[script] = (path, reproduced)
            if reproduced:
                new_lines = []
                for ln in lines:
                    if ln.startswith("VIOLATION") and ln.endswith("no-failing-input-found"):
                        ob_name = ln.split(" obligation=", 1)[1].rsplit(" no-failing-input-found", 1)[0]
                        ln = "VIOLATION property=%s replay=%s obligation=%s" % (pid, path, ob_name)
                    new_lines.append(ln)
                lines = new_lines
                break
    # thorough tier: the oracles are also run unconditionally, as a cross-check of the contracts themselves.  A failing
    # input found there while every obligation holds is a genuine violation of the property on the real code that no
    # contract covers; it is reported as such (the only decision that does not come from an obligation; thorough only)
    if tier == "thorough" and plan.oracles and n_viol == 0:
        for script in plan.oracles:
            path, reproduced = oracle_runs.get(script) or replay.run_oracle(pid, script, [])[:2]
            thorough_note = {"what": "native-cross-check:" + script, "passed": not reproduced}
            ctx.oracle_cross_checks = getattr(ctx, "oracle_cross_checks", []) + [thorough_note]
            if reproduced:
                n_viol += 1
                lines.append("VIOLATION property=%s replay=%s obligation=native-cross-check:%s" % (pid, path, script))
    printed = set()
    for obj, f in status["known"]:
        key = f.get("id", f.get("what"))
        if key in printed:
            continue
        printed.add(key)
        print("KNOWN-FINDING: property=%s %s" % (pid, f.get("what")))
    for ln in lines:
        print(ln)
    for u in status["undecided"]:
        print("UNDECIDED property=%s %s" % (pid, u))
    for e in status["errors"]:
        print("CHECKER-ERROR property=%s %s" % (pid, e))

    wall = time.time() - t0
    ev = report.evidence(ctx, plan, all_obs, vac, lean_results, bounded, thorough, status, n_viol, wall)
    report.write(pid, ev)
    n_ob = ev["coverage"].get("obligations", 0)
    print("%s %s: %d obligations, %d discharged, %d lean lemmas, %d bounded, %d violations, %d undecided, "
          "%d known findings, %.1fs" % (pid, tier, n_ob, ev["coverage"].get("discharged", 0), len(lean_results),
                                        len(bounded), n_viol, len(status["undecided"]), len(printed), wall))
    if n_viol:
        return 1
    if status["errors"]:
        return 3
    if status["undecided"]:
        return 2
    return 0


def main():
    ap = argparse.ArgumentParser()
    ap.add_argument("pid")
    ap.add_argument("--tier", default=os.environ.get("VERIF_TIER", "quick"))
    ap.add_argument("--replay", default=None)
    a = ap.parse_args()
    seed = int(os.environ.get("VERIF_SEED", "0") or 0)
    if a.replay:
        sys.exit(replay.run_file(a.replay))
    try:
        rc = run(a.pid, a.tier, seed)
    except Exception:      # noqa
        traceback.print_exc()
        print("CHECKER-ERROR property=%s driver crashed" % a.pid)
        rc = 3
    sys.exit(rc)


if __name__ == "__main__":
    main()
