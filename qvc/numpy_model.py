"""Assumed contracts of builtins / NumPy / SciPy as executable symbolic models.

Every model used by a run is recorded in `Exec.used_models` and reported in the evidence's trusted base.
The models state *documented* behaviour over exact reals (DESIGN section 4)."""
import z3

from . import values as V
from .values import (Unsupported, SymArr, SymList, Obj, Range, Cx, Builtin, Opaque, ModRef, FuncRef, ClassRef,
                     is_z3, arith, compare, band, bor, bnot, ite, fresh, lam_array, join_dtype)
from .symex import RaiseSignal, MergeAbort, _MISSING


def _shape_eq(s1, s2):
    return band(*[compare("==", a, b) for a, b in zip(s1, s2)])


class Models:
    def __init__(self):
        self.table = {}
        self.hooks_getattr = []
        self.hooks_setattr = []
        self.hooks_call = []
        self.hooks_instantiate = []
        # decorators defined in the repository whose wrapper code is executed (not modelled): context guards
        self.executable_decorators = {"prevent_basis_context", "enforce_basis_context", "prevent_energy_units_context",
                                      "enforce_energy_units_context"}
        self.key_universes = []
        # "relpath::NAME" -> value standing for a module-level constant
        self.const_overrides = {"quantarhei/__init__.py::COMPLEX": ModRef("numpy.complex128"),
                                "quantarhei/__init__.py::REAL": ModRef("numpy.float64")}
        self.ufun_axioms_used = set()
        _install(self)
        self.hooks_instantiate.append(singleton_hook)

    # ---- registry --------------------------------------------------------------------------------
    def reg(self, name):
        def deco(fn):
            self.table[name] = Builtin(name, fn)
            return fn
        return deco

    def builtin(self, name):
        return self.table.get(name)

    def key_universe(self, key):
        out = []
        for ku in self.key_universes:
            out.extend(ku(key))
        return out

    def getattr_hook(self, ex, obj, name, line):
        for h in self.hooks_getattr:
            r = h(ex, obj, name, line)
            if r is not None:
                return r
        return None

    def setattr_hook(self, ex, obj, name, v, line):
        for h in self.hooks_setattr:
            if h(ex, obj, name, v, line):
                return True
        return False

    def call_hook(self, ex, finfo, args, kwargs, bound, line):
        for h in self.hooks_call:
            r = h(ex, finfo, args, kwargs, bound, line)
            if r is not None:
                return r
        return None

    def instantiate_hook(self, ex, cinfo, args, kwargs, line):
        for h in self.hooks_instantiate:
            r = h(ex, cinfo, args, kwargs, line)
            if r is not None:
                return r
        return None

    # ---- arrays ----------------------------------------------------------------------------------
    def arr_getitem(self, ex, arr, idx, line):
        if isinstance(idx, SymArr):
            if idx.dtype == "bool":
                return MaskedRef(arr, idx)
            raise Unsupported("fancy indexing @%s" % line)
        if not isinstance(idx, tuple):
            idx = (idx,)
        if any(x is Ellipsis for x in idx):
            k = [i for i, x in enumerate(idx) if x is Ellipsis][0]
            fill = arr.rank - (len(idx) - 1)
            idx = idx[:k] + (slice(None),) * fill + idx[k + 1:]
        if len(idx) > arr.rank:
            raise RaiseSignal("IndexError", line=line)
        idx = tuple(idx) + (slice(None),) * (arr.rank - len(idx))
        if all(not isinstance(x, slice) for x in idx):
            idx = self._norm_index(ex, arr, idx, line)
            return _resolve_ite(ex, arr.get(idx))
        # view
        fixed = {}
        axes = []
        shape = []
        offs = {}
        for k, x in enumerate(idx):
            if isinstance(x, slice):
                if x.step not in (None, 1):
                    raise Unsupported("strided slice @%s" % line)
                lo, hi = _clamp_slice(x, arr.shape[k], ex)
                axes.append(k)
                offs[k] = lo
                shape.append(arith("-", hi, lo))
            else:
                fixed[k] = self._norm_index(ex, arr, idx, line, only=k)

        def imap(sub, fixed=fixed, axes=axes, offs=offs, rank=arr.rank):
            out = [None] * rank
            for k, v in fixed.items():
                out[k] = v
            for a, s in zip(axes, sub):
                out[a] = arith("+", offs[a], s)
            return tuple(out)
        return SymArr(shape, arr.dtype, base=arr, imap=imap, name=(arr.name or "arr") + "[view]")

    def _norm_index(self, ex, arr, idx, line, only=None):
        out = []
        for k, (x, n) in enumerate(zip(idx, arr.shape)):
            if only is not None and k != only:
                out.append(x)
                continue
            if isinstance(x, slice):
                out.append(x)
                continue
            if V.sort_of(x) not in ("int", "bool"):
                raise Unsupported("non-integer array index %r @%s" % (x, line))
            if is_z3(x) and not z3.is_int_value(x):
                xs_ = z3.simplify(x)
                if z3.is_int_value(xs_):
                    x = xs_         # e.g. a cell of a concrete integer table read at concrete positions
            if is_z3(x) and z3.is_int_value(x):
                x = x.as_long()
            if not is_z3(x) and x < 0:
                x = arith("+", n, x)
            if is_z3(x) or is_z3(n):
                # NumPy raises IndexError outside [-n, n); negative indices wrap around, which the array model does
                # not follow: a possibly negative index is a limit of the model (UNDECIDED), not a violation
                ex.oblige("index-in-bounds", band(compare("<=", arith("-", 0, n), x), compare("<", x, n)), "bounds", line)
                ex.oblige("index-non-negative", compare("<=", 0, x), "model-limit", line)
            else:
                ex.oblige("index-in-bounds", band(compare("<=", 0, x), compare("<", x, n)), "bounds", line)
            out.append(x)
        if only is not None:
            return out[only]
        return tuple(out)

    def arr_setitem(self, ex, arr, idx, v, line):
        if isinstance(idx, SymArr) and idx.dtype == "bool":
            mask = idx
            if isinstance(v, MaskedRef):
                # x[m1] = y[m2]: cell-wise when both masks select the same cells (side obligation)
                xs = [fresh("x", z3.IntSort()) for _ in range(arr.rank)]
                same = z3.ForAll(xs, z3.Implies(V.z3bool(arr.inbounds(xs)),
                                                V.z3bool(mask.get(xs)) == V.z3bool(v.mask.get(xs))))
                ex.oblige("masks-select-same-cells", same, "bounds", line)
                src = v.arr.snapshot()
                ex.arr_bulk(arr, lambda xs_: src.get(xs_), region=lambda xs_: V.z3bool(mask.get(xs_)))
                return
            if isinstance(v, SymArr):
                raise Unsupported("masked assignment of array @%s" % line)
            root = arr
            ex.arr_bulk(root, lambda xs: v, region=lambda xs: V.z3bool(mask.get(xs)))
            return
        if not isinstance(idx, tuple):
            idx = (idx,)
        idx = tuple(idx) + (slice(None),) * (arr.rank - len(idx))
        if all(not isinstance(x, slice) for x in idx):
            idx = self._norm_index(ex, arr, idx, line)
            if isinstance(v, SymArr):
                raise Unsupported("array stored into a cell @%s" % line)
            ex.arr_store(arr, idx, v)
            return
        view = self.arr_getitem(ex, arr, idx, line)
        # slice assignment: simultaneous update of the addressed cells of the root
        root, chain = view, []
        imap_total = lambda sub: sub
        cur = view
        maps = []
        while cur.base is not None:
            maps.append(cur.imap)
            cur = cur.base
        root = cur
        if root.base is not None:
            raise Unsupported("nested view")
        # invert: cell x of root is addressed iff fixed coords match and sliced coords lie in range
        # build by composing with the original (arr, idx) only one level: materialise arr if it is a view
        if arr.base is not None:
            raise Unsupported("slice assignment through a view @%s" % line)
        fixedc = {}
        rng = {}
        k2 = 0
        order = []
        full = set()       # `:` addresses the whole axis; cells outside the box are never read
        for k, x in enumerate(idx):
            if isinstance(x, slice):
                if x.start is None and x.stop is None:
                    full.add(k)
                lo, hi = _clamp_slice(x, arr.shape[k], ex)
                rng[k] = (lo, hi)
                order.append(k)
            else:
                fixedc[k] = self._norm_index(ex, arr, idx, line, only=k)
        if isinstance(v, SymArr) and v.rank != len(order):
            if v.rank > len(order):
                raise Unsupported("broadcast in slice assignment @%s" % line)
        vsnap = v.snapshot() if isinstance(v, SymArr) else v

        def region(xs):
            cs = [compare("==", xs[k], f) for k, f in fixedc.items()]
            cs += [band(compare("<=", lo, xs[k]), compare("<", xs[k], hi)) for k, (lo, hi) in rng.items()
                   if k not in full]
            return band(*cs)

        def newval(xs):
            if isinstance(vsnap, SymArr):
                sub = [arith("-", xs[k], rng[k][0]) for k in order]
                sub = sub[len(sub) - vsnap.rank:]
                return vsnap.get(sub)
            return vsnap
        ex.arr_bulk(arr, newval, region=region, pattern=[fixedc.get(k) for k in range(arr.rank)])

    def array_binop(self, ex, op, a, b):
        if op == "@":
            return _dot(ex, a, b)
        if isinstance(a, MaskedRef) or isinstance(b, MaskedRef):
            # elementwise arithmetic commutes with selecting the same cells
            m = a if isinstance(a, MaskedRef) else b
            if isinstance(a, MaskedRef) and isinstance(b, MaskedRef):
                raise Unsupported("arithmetic between two masked selections")
            fa = a.arr if isinstance(a, MaskedRef) else a
            fb = b.arr if isinstance(b, MaskedRef) else b
            return MaskedRef(self.array_binop(ex, op, fa, fb), m.mask)
        arrs = [x for x in (a, b) if isinstance(x, SymArr)]
        shape = arrs[0].shape
        rank = max(x.rank for x in arrs)
        for x in arrs:
            if x.rank == rank:
                shape = x.shape
        dt = "bool"
        for x in (a, b):
            dt = join_dtype(dt, x.dtype if isinstance(x, SymArr) else V.dtype_of_scalar(x))
        if op == "/":
            dt = join_dtype(dt, "real")
        if dt == "bool":
            dt = "int"
        sa = a.snapshot() if isinstance(a, SymArr) else a
        sb = b.snapshot() if isinstance(b, SymArr) else b

        def cell(xs):
            x = sa.get(xs[len(xs) - sa.rank:]) if isinstance(sa, SymArr) else sa
            y = sb.get(xs[len(xs) - sb.rank:]) if isinstance(sb, SymArr) else sb
            return arith(op, x, y)
        return lam_array(shape, dt, cell)

    def array_compare(self, ex, sym, a, b):
        arrs = [x for x in (a, b) if isinstance(x, SymArr)]
        shape = arrs[0].shape
        sa = a.snapshot() if isinstance(a, SymArr) else a
        sb = b.snapshot() if isinstance(b, SymArr) else b

        def cell(xs):
            x = sa.get(xs) if isinstance(sa, SymArr) else sa
            y = sb.get(xs) if isinstance(sb, SymArr) else sb
            c = compare(sym, x, y)
            return c if is_z3(c) else z3.BoolVal(bool(c))
        return lam_array(shape, "bool", cell)

    def list_repeat(self, ex, lst, n):
        if not is_z3(n):
            return lst * n
        if len(lst) == 1 and lst[0] is None:
            l = SymList(n, None, "int")
            l.untyped = True
            return l
        if len(lst) == 1 and V.sort_of(lst[0]) in ("int", "real"):
            dt = V.sort_of(lst[0])
            l = SymList(n, None, dt)
            c = V.z3int(lst[0]) if dt == "int" else V.z3real(lst[0])
            l.comps = [z3.K(z3.IntSort(), c)]
            return l
        raise Unsupported("list repetition with symbolic count")

    def symlist_slice(self, ex, lst, sl, line):
        if sl.step not in (None, 1):
            raise Unsupported("strided slice of a list")
        lo_c, hi_c = _clamp_slice(sl, lst.length, ex)
        n = arith("-", hi_c, lo_c)
        k = fresh("k", z3.IntSort())
        comps = [V.canon_lambda([k], V.select(c, [k + V.z3int(lo_c)])) for c in lst.comps]
        return SymList(n, lst.width, lst.dtype, comps=comps)

    def value_attr(self, ex, obj, name, line):
        if isinstance(obj, SymArr):
            if name == "shape":
                return tuple(obj.shape)
            if name == "T":
                return _transpose(ex, obj)
            if name == "real":
                return _real_part(obj)
            if name == "imag":
                return _imag_part(obj)
            if name == "ndim":
                return obj.rank
            if name == "dtype":
                return Opaque("dtype:" + obj.dtype)
            if name == "size":
                n = 1
                for s in obj.shape:
                    n = arith("*", n, s)
                return n
            if name == "data":
                # ndarray.data is a buffer view of the same cells; numpy functions accept it as the array
                return obj
            if name == "copy":
                return Builtin("ndarray.copy", lambda ex_, a, k, l: obj.snapshot())
            if name == "conj" or name == "conjugate":
                return Builtin("ndarray.conj", lambda ex_, a, k, l: _conj(obj))
            if name == "transpose":
                return Builtin("ndarray.transpose", lambda ex_, a, k, l: _transpose(ex_, obj))
            if name == "fill":
                def fill(ex_, a, k, l):
                    ex_.arr_bulk(obj, lambda xs: a[0])
                return Builtin("ndarray.fill", fill)
        if isinstance(obj, list):
            if name == "append":
                def append(ex_, a, k, l):
                    ex_.py_mutate_list(obj)
                    obj.append(a[0])
                return Builtin("list.append", append)
            if name == "extend":
                def extend(ex_, a, k, l):
                    ex_.py_mutate_list(obj)
                    obj.extend(a[0])
                return Builtin("list.extend", extend)
            if name == "copy":
                return Builtin("list.copy", lambda ex_, a, k, l: list(obj))
            if name == "count":
                def count(ex_, a, k, l):
                    tot = 0
                    for x in obj:
                        c = ex_.compare_op(__import__("ast").Eq(), x, a[0])
                        tot = arith("+", tot, ite(c, 1, 0)) if is_z3(c) else tot + (1 if c else 0)
                    return tot
                return Builtin("list.count", count)
            if name == "index":
                def index(ex_, a, k, l):
                    for i, x in enumerate(obj):
                        c = ex_.compare_op(__import__("ast").Eq(), x, a[0])
                        if ex_.branch(c):
                            return i
                    raise RaiseSignal("ValueError", line=l)
                return Builtin("list.index", index)
            if name == "pop":
                def pop(ex_, a, k, l):
                    ex_.py_mutate_list(obj)
                    if not obj:
                        raise RaiseSignal("IndexError", line=l)
                    return obj.pop(*a)
                return Builtin("list.pop", pop)
            if name == "remove":
                def remove(ex_, a, k, l):
                    ex_.py_mutate_list(obj)
                    for i, x in enumerate(obj):
                        c = ex_.compare_op(__import__("ast").Eq(), x, a[0])
                        if ex_.branch(c):
                            del obj[i]
                            return None
                    raise RaiseSignal("ValueError", line=l)
                return Builtin("list.remove", remove)
        if isinstance(obj, dict):
            if name == "keys" and getattr(obj, "maybe", None):
                # a keys view of a dict with possibly-absent keys behaves like the dict itself in `for` and `in`
                return Builtin("dict.keys", lambda ex_, a, k, l: obj)
            if name in ("get", "pop", "setdefault"):
                pass        # resolved per key below
            else:
                ex.resolve_opt(obj)
            if name == "keys":
                return Builtin("dict.keys", lambda ex_, a, k, l: list(obj.keys()))
            if name == "values":
                return Builtin("dict.values", lambda ex_, a, k, l: list(obj.values()))
            if name == "items":
                return Builtin("dict.items", lambda ex_, a, k, l: [(x, y) for x, y in obj.items()])
            if name == "copy":
                return Builtin("dict.copy", lambda ex_, a, k, l: dict(obj))
            if name == "get":
                def get(ex_, a, k, l):
                    ex_.resolve_opt(obj, a[0])
                    key = ex_.concrete_key(obj, a[0]) if is_z3(a[0]) else a[0]
                    return obj.get(key, a[1] if len(a) > 1 else None)
                return Builtin("dict.get", get)
            if name == "pop":
                def dpop(ex_, a, k, l):
                    ex_.resolve_opt(obj, a[0])
                    ex_.py_mutate_dict(obj)
                    key = ex_.concrete_key(obj, a[0]) if is_z3(a[0]) else a[0]
                    if key in obj:
                        return obj.pop(key)
                    if len(a) > 1:
                        return a[1]
                    raise RaiseSignal("KeyError", line=l)
                return Builtin("dict.pop", dpop)
            if name == "update":
                def dupdate(ex_, a, k, l):
                    ex_.py_mutate_dict(obj)
                    obj.update(a[0])
                return Builtin("dict.update", dupdate)
        if isinstance(obj, Range):
            if name == "start":
                return obj.lo
            if name == "stop":
                return obj.hi
        if isinstance(obj, SymList):
            if name == "append":
                raise Unsupported("append on a list of symbolic length")
        if isinstance(obj, Cx):
            if name == "real":
                return obj.re
            if name == "imag":
                return obj.im
            if name == "conjugate":
                return Builtin("complex.conjugate", lambda ex_, a, k, l: Cx(obj.re, arith("-", 0, obj.im)))
        if V.sort_of(obj) in ("int", "real"):
            if name == "real":
                return obj
            if name == "imag":
                return 0
        if isinstance(obj, str):
            if name in ("format", "upper", "lower", "strip", "join", "split", "startswith", "endswith"):
                import builtins
                def smeth(ex_, a, k, l, name=name):
                    if any(is_z3(x) for x in a):
                        return Opaque("str." + name)
                    try:
                        return getattr(obj, name)(*a)
                    except Exception:
                        return Opaque("str." + name)
                return Builtin("str." + name, smeth)
        if isinstance(obj, Opaque) and obj.what.startswith("dtype:") and name == "kind":
            return {"real": "f", "int": "i", "cx": "c", "bool": "b"}.get(obj.what.split(":")[1], "f")
        if V.sort_of(obj) is not None or obj is None:
            # python scalars / None have no such attribute (e.g. `val.shape` in the scalar branch of a try)
            raise RaiseSignal("AttributeError", line=line)
        if isinstance(obj, (list, tuple, dict, str, int, float)) and not hasattr(type(obj), name):
            # duck-typing probes such as `try: params.keys()` on a list
            raise RaiseSignal("AttributeError", line=line)
        raise Unsupported("attribute %s of %r @%s" % (name, type(obj).__name__, line))


def _resolve_ite(ex, v, depth=0):
    """cells of arrays written by slice assignments read  ite(x0 == t and .., new, old) ; when the path condition decides
    the guard (e.g. row 1 of an array whose row t >= 2 was just written) the read is resolved here, so that the solver
    does not have to rewrite under a summation binder"""
    if isinstance(v, Cx):
        return Cx(_resolve_ite(ex, v.re, depth), _resolve_ite(ex, v.im, depth))
    if depth > 4 or not is_z3(v) or not z3.is_app(v) or v.decl().kind() != z3.Z3_OP_ITE:
        return v
    c = v.arg(0)
    if not _has_int_eq(c):
        return v
    cache = ex.__dict__.setdefault("_ite_cache", {})
    key = (c.get_id(), len(ex.pc))
    if key not in cache:
        t = ex.feasible(c)
        f = ex.feasible(z3.Not(c))
        cache[key] = (c, True if (t and not f) else False if (f and not t) else None)
    verdict = cache[key][1]
    if verdict is True:
        return _resolve_ite(ex, v.arg(1), depth + 1)
    if verdict is False:
        return _resolve_ite(ex, v.arg(2), depth + 1)
    return v


def _has_int_eq(c, depth=0):
    if depth > 3 or not z3.is_app(c):
        return False
    k = c.decl().kind()
    if k == z3.Z3_OP_EQ and c.arg(0).sort() == z3.IntSort():
        return z3.is_int_value(c.arg(0)) or z3.is_int_value(c.arg(1)) or True
    if k in (z3.Z3_OP_AND, z3.Z3_OP_OR, z3.Z3_OP_NOT):
        return any(_has_int_eq(x, depth + 1) for x in c.children())
    return False


def _clamp_slice(x, n, ex=None):
    """NumPy/Python slice bounds: negative literals count from the end, then both are clamped to [0, n] and
    an empty slice results when stop < start.  Case distinctions that the path condition already decides are
    resolved here (the clamped bound is then the plain expression instead of a nest of conditionals)."""
    if x.start is None and x.stop is None:
        return 0, n
    lo = 0 if x.start is None else x.start
    hi = n if x.stop is None else x.stop

    def ite(c, a, b):       # noqa: F811  (path-condition aware)
        if ex is not None and is_z3(c):
            cz = V.z3bool(c)
            if ex.entails_quick(cz):
                return a
            if ex.entails_quick(z3.Not(cz)):
                return b
        return V.ite(c, a, b)

    def norm(b):
        if not is_z3(b):
            if b < 0:
                b = arith("+", n, b)
            if not is_z3(b) and not is_z3(n):
                return max(0, min(b, n))
            return ite(compare("<", b, 0), 0, ite(compare(">", b, n), n, b))
        b2 = ite(compare("<", b, 0), arith("+", n, b), b)
        return ite(compare("<", b2, 0), 0, ite(compare(">", b2, n), n, b2))
    lo, hi = norm(lo), norm(hi)
    if not is_z3(lo) and not is_z3(hi):
        return lo, max(lo, hi)
    return lo, ite(compare("<", hi, lo), lo, hi)


class MaskedRef:
    """arr[mask] on the right-hand side (only supported in `x[mask] = f(y[mask])` idioms)"""

    def __init__(self, arr, mask):
        self.arr = arr
        self.mask = mask


def _transpose(ex, a):
    if a.rank != 2:
        if a.rank == 1:
            return a
        snap = a.snapshot()
        return lam_array(tuple(reversed(a.shape)), a.dtype, lambda xs: snap.get(list(reversed(xs))))
    snap = a.snapshot()
    return lam_array((a.shape[1], a.shape[0]), a.dtype, lambda xs: snap.get([xs[1], xs[0]]))


def _conj(a):
    if not isinstance(a, SymArr):
        if isinstance(a, Cx):
            return Cx(a.re, arith("-", 0, a.im))
        return a
    if a.dtype != "cx":
        return a.snapshot()
    snap = a.snapshot()
    r = lam_array(a.shape, "cx", lambda xs: Cx(snap.get(xs).re, arith("-", 0, snap.get(xs).im)))
    d = getattr(a, "diag_of", None)
    if d is not None and a.rank == 2 and a.base is None and a.re is not None and a.re.eq(d[0]):
        # the conjugate of a diagonal matrix is the diagonal matrix of the conjugated entries
        f = d[1]
        r.diag_of = (r.re, lambda i: _conj(f(i)))
    return r


def _real_part(a):
    if not isinstance(a, SymArr):
        return a.re if isinstance(a, Cx) else a
    snap = a.snapshot()
    if a.dtype != "cx":
        return snap
    return lam_array(a.shape, "real", lambda xs: snap.get(xs).re)


def _imag_part(a):
    if not isinstance(a, SymArr):
        return a.im if isinstance(a, Cx) else 0
    snap = a.snapshot()
    if a.dtype != "cx":
        return lam_array(a.shape, "real", lambda xs: 0)
    return lam_array(a.shape, "real", lambda xs: snap.get(xs).im)


def _dot(ex, a, b):
    """numpy.dot / @ for rank-1/2 operands, cell-wise by its defining sum  sum_k A[..,k]*B[k,..]"""
    from . import sums
    if not isinstance(a, SymArr) or not isinstance(b, SymArr):
        if isinstance(a, SymArr) or isinstance(b, SymArr):
            return ex.registry.models.array_binop(ex, "*", a, b)
        return arith("*", a, b)
    if a.rank not in (1, 2) or b.rank not in (1, 2):
        raise Unsupported("numpy.dot on rank %d x %d" % (a.rank, b.rank))
    n = a.shape[-1]
    sa, sb = a.snapshot(), b.snapshot()
    shape = tuple(a.shape[:-1]) + tuple(b.shape[1:] if b.rank == 2 else ())
    dt = "cx" if "cx" in (a.dtype, b.dtype) else "real"

    def _diag(x):
        # a matrix made by numpy.diag(v) / numpy.eye(n) and not written to since
        d = getattr(x, "diag_of", None)
        return d[1] if (d is not None and x.rank == 2 and x.base is None and x.re is not None and x.re.eq(d[0])) else None
    da, db = _diag(a), _diag(b)
    if da is not None or db is not None:
        # sum_k delta(i,k) v[i] B[k,..] = v[i] B[i,..]   and   sum_k A[..,k] delta(k,j) v[j] = A[..,j] v[j]
        # (Lean lemma sum_kronecker; the index is in range because the cell is)
        ex.used_models.add("lemma:sum_kronecker (product with a matrix made by numpy.diag / numpy.eye)")
        ul = getattr(ex.registry, "auto_lemmas", None)
        if ul is None:
            ul = ex.registry.auto_lemmas = set()
        ul.add("sum_kronecker")

        def dcell(xs):
            ia = list(xs[:a.rank - 1])
            ib = list(xs[a.rank - 1:])
            if da is not None:
                return arith("*", da(ia[0]), sb.get([ia[0]] + ib))
            return arith("*", sa.get(ia + [ib[0]]), db(ib[0]))
        return lam_array(shape, dt, dcell, name="dot")

    def cell(xs):
        ia = list(xs[:a.rank - 1])
        ib = list(xs[a.rank - 1:])
        if isinstance(n, int) and n <= 4:
            # a contraction over a small fixed number of components (3-vectors): written out
            tot = 0
            for k in range(n):
                tot = arith("+", tot, arith("*", sa.get(ia + [k]), sb.get([k] + ib)))
            return tot
        return sums.mk_sum(ex, n, lambda k: arith("*", sa.get(ia + [k]), sb.get([k] + ib)))
    if not shape:
        return cell([])
    return lam_array(shape, dt, cell, name="dot")


def _install(M):
    reg = M.reg

    @reg("len")
    def _len(ex, a, k, l):
        x = a[0]
        if isinstance(x, (list, tuple, dict, str, set)):
            return len(x)
        if isinstance(x, SymList):
            return x.length
        if isinstance(x, SymArr):
            return x.shape[0]
        if isinstance(x, Range):
            return ite(compare("<", x.hi, x.lo), 0, arith("-", x.hi, x.lo))
        if isinstance(x, Obj):
            return ex.call_method(x, "__len__", [], {}, l)
        raise Unsupported("len of %r" % (x,))

    @reg("range")
    def _range(ex, a, k, l):
        def num_(x):
            # a bound that simplifies to a numeral (e.g. a cell of a concrete integer table) is that integer
            if is_z3(x) and not z3.is_int_value(x):
                y = z3.simplify(x)
                if z3.is_int_value(y):
                    return y.as_long()
            if is_z3(x) and z3.is_int_value(x):
                return x.as_long()
            return x
        a = [num_(x) for x in a]
        if len(a) == 1:
            return Range(0, a[0])
        if len(a) == 2:
            return Range(a[0], a[1])
        raise Unsupported("range with step")

    @reg("abs")
    def _abs(ex, a, k, l):
        return _absval(a[0])

    @reg("numpy.abs")
    def _nabs(ex, a, k, l):
        return _absval(a[0])
    M.table["numpy.absolute"] = M.table["numpy.abs"]

    def _absval(x):
        if isinstance(x, SymArr):
            snap = x.snapshot()
            return lam_array(x.shape, "real" if x.dtype != "int" else "int", lambda xs: _absval(snap.get(xs)))
        if isinstance(x, Cx):
            return V.ufun("sqrt", arith("+", arith("*", x.re, x.re), arith("*", x.im, x.im)))
        if is_z3(x):
            return z3.If(x >= 0, x, -x)
        return abs(x)

    @reg("list")
    def _list(ex, a, k, l):
        if not a:
            o = []
        elif isinstance(a[0], (list, tuple)):
            o = list(a[0])
        elif isinstance(a[0], dict):
            ex.resolve_opt(a[0])
            o = list(a[0].keys())
        elif isinstance(a[0], Range) and a[0].concrete():
            o = list(range(a[0].lo, a[0].hi))
        else:
            raise Unsupported("list(%r)" % (a[0],))
        if getattr(ex, "body_fresh", None) is not None:
            ex.body_fresh.append(o)
        return o

    @reg("tuple")
    def _tuple(ex, a, k, l):
        if not a:
            return ()
        if isinstance(a[0], (list, tuple)):
            return tuple(a[0])
        raise Unsupported("tuple(%r)" % (a[0],))

    @reg("dict")
    def _dict(ex, a, k, l):
        o = dict(a[0]) if a else {}
        o.update(k)
        if getattr(ex, "body_fresh", None) is not None:
            ex.body_fresh.append(o)
        return o

    @reg("int")
    def _int(ex, a, k, l):
        x = a[0]
        if V.sort_of(x) in ("int", "bool"):
            return V.z3int(x) if is_z3(x) else int(x)
        if not is_z3(x):
            return int(x)
        # truncation toward zero
        x = V.z3real(x)
        # int(n / d) with an integer n and a positive integer literal d: the same value in integer arithmetic
        # (n >= 0: n div d;  n < 0: -((-n) div d)), which the solver handles far better than to_int(to_real(n)/d)
        if z3.is_app(x) and x.decl().kind() == z3.Z3_OP_DIV and z3.is_rational_value(x.arg(1)):
            num, den = x.arg(0), x.arg(1)
            if den.denominator_as_long() == 1 and den.numerator_as_long() > 0 and z3.is_app(num) \
                    and num.decl().kind() == z3.Z3_OP_TO_REAL:
                n_, d_ = num.arg(0), den.numerator_as_long()
                return z3.If(n_ >= 0, n_ / d_, -((-n_) / d_))
        return z3.If(x >= 0, z3.ToInt(x), -z3.ToInt(-x))

    @reg("round")
    def _round(ex, a, k, l):
        """round(x) without ndigits: an integer r with |x - r| <= 1/2 (which of the two at an exact tie is left open:
        Python rounds ties to even; every consequence proved holds for either choice)"""
        x = a[0]
        if len(a) > 1 or k:
            raise Unsupported("round with ndigits @%s" % l)
        if V.sort_of(x) in ("int", "bool"):
            return V.z3int(x) if is_z3(x) else int(x)
        if not is_z3(x):
            return round(x)
        x = V.z3real(x)
        r = fresh("round", z3.IntSort())
        ex.assume(z3.And(2 * z3.ToReal(r) - 1 <= 2 * x, 2 * x <= 2 * z3.ToReal(r) + 1))
        return r

    @reg("float")
    def _float(ex, a, k, l):
        x = a[0]
        if is_z3(x):
            return V.z3real(x)
        return V._num(float(x)) if not isinstance(x, V.Fraction) else x

    @reg("complex")
    def _complex(ex, a, k, l):
        return Cx(a[0], a[1] if len(a) > 1 else 0)

    @reg("bool")
    def _bool(ex, a, k, l):
        return ex.truth(a[0])

    @reg("str")
    def _str(ex, a, k, l):
        if a and isinstance(a[0], str):
            return a[0]
        return Opaque("str()")

    @reg("isinstance")
    def _isinstance(ex, a, k, l):
        x, t = a
        ts = t if isinstance(t, tuple) else (t,)
        for tt in ts:
            if isinstance(tt, ClassRef) and isinstance(x, Obj) and hasattr(x.cls, "is_subclass_of"):
                if any(c is tt.info for c in x.cls.mro()):
                    return True
            if isinstance(tt, Builtin):
                nm = tt.name
                if nm == "int" and V.sort_of(x) == "int":
                    return True
                if nm == "float" and V.sort_of(x) == "real":
                    return True
                if nm == "complex" and V.sort_of(x) == "cx":
                    return True
                if nm == "str" and V.sort_of(x) == "str":
                    return True
                if nm == "list" and isinstance(x, (list, SymList)):
                    return True
                if nm == "tuple" and isinstance(x, tuple):
                    return True
                if nm == "dict" and isinstance(x, dict):
                    return True
                if nm == "bool" and V.sort_of(x) == "bool":
                    return True
                if nm == "numpy.ndarray" and isinstance(x, SymArr):
                    return True
            if isinstance(tt, ModRef) and tt.dotted in ("numpy.ndarray",) and isinstance(x, SymArr):
                return True
            if isinstance(tt, ModRef) and tt.dotted in ("numbers.Real", "numbers.Number", "numbers.Complex") \
                    and V.sort_of(x) in ("int", "real"):
                return True
            if isinstance(tt, ModRef) and tt.dotted == "numbers.Integral" and V.sort_of(x) == "int":
                return True
            if isinstance(tt, ModRef) and tt.dotted in ("numbers.Number", "numbers.Complex") and V.sort_of(x) == "cx":
                return True
        return False

    @reg("min")
    def _min(ex, a, k, l):
        xs = a[0] if len(a) == 1 else a
        r = xs[0]
        for x in xs[1:]:
            r = ite(compare("<", x, r), x, r)
        return r

    @reg("max")
    def _max(ex, a, k, l):
        xs = a[0] if len(a) == 1 else a
        r = xs[0]
        for x in xs[1:]:
            r = ite(compare(">", x, r), x, r)
        return r

    @reg("enumerate")
    def _enumerate(ex, a, k, l):
        if (isinstance(a[0], SymArr) and is_z3(a[0].shape[0])) or (isinstance(a[0], SymList) and is_z3(a[0].length)):
            from .loops import Enumerated
            return Enumerated(a[0])
        items = ex.iterate_concrete(a[0], l)
        return [(i, x) for i, x in enumerate(items)]

    @reg("zip")
    def _zip(ex, a, k, l):
        return list(zip(*[ex.iterate_concrete(x, l) for x in a]))

    @reg("reversed")
    def _reversed(ex, a, k, l):
        return list(reversed(ex.iterate_concrete(a[0], l)))

    @reg("sorted")
    def _sorted(ex, a, k, l):
        items = ex.iterate_concrete(a[0], l)
        if any(is_z3(x) for x in items):
            raise Unsupported("sorted on symbolic values")
        return sorted(items)

    @reg("sum")
    def _sum(ex, a, k, l):
        r = a[1] if len(a) > 1 else 0
        for x in ex.iterate_concrete(a[0], l):
            r = ex.binop("+", r, x)
        return r

    @reg("hasattr")
    def _hasattr(ex, a, k, l):
        o, n = a
        if isinstance(o, Obj):
            if n in o.fields:
                return True
            return hasattr(o.cls, "lookup") and o.cls.lookup(n) is not None
        raise Unsupported("hasattr on %r" % (o,))

    @reg("getattr")
    def _getattr(ex, a, k, l):
        return ex.getattr(a[0], a[1], l)

    @reg("setattr")
    def _setattr(ex, a, k, l):
        return ex.setattr(a[0], a[1], a[2], l)

    @reg("id")
    def _id(ex, a, k, l):
        return id(a[0])

    @reg("functools.partial")
    def _partial(ex, a, k, l):
        f, pa, pk = a[0], list(a[1:]), dict(k)

        def call(ex_, a2, k2, l2):
            kw = dict(pk)
            kw.update(k2)
            return ex_.call(f, pa + list(a2), kw, l2)
        return Builtin("partial", call)

    @reg("functools.wraps")
    def _wraps(ex, a, k, l):
        return Builtin("wraps(identity)", lambda ex_, a_, k_, l_: a_[0])

    @reg("copy.copy")
    def _copy(ex, a, k, l):
        """shallow copy: a new object sharing the field values"""
        x = a[0]
        if isinstance(x, Obj) and hasattr(x.cls, "lookup"):
            r = x.cls.lookup("__copy__")
            if r is not None and r[0] == "method":      # the class customises copying: run its real code
                o = ex.call_function(r[2], [], {}, bound=x, line=l)
                ex.last_copy = (x, o)
                return o
        if isinstance(x, Obj):
            o = Obj(x.cls, dict(x.fields), label=(x.label or "") + "(copy)")
            ex.last_copy = (x, o)
            return o
        if isinstance(x, SymArr):
            return x.snapshot()
        if isinstance(x, (list, dict)):
            return type(x)(x)
        return x

    @reg("copy.deepcopy")
    def _deepcopy(ex, a, k, l):
        """deep copy of the modelled value kinds (arrays by value, objects through __deepcopy__ when defined)"""
        x = a[0]
        memo = a[1] if len(a) > 1 else k.get("memo", {})

        def dc(v):
            if isinstance(v, Obj) and id(v) in memo:
                return memo[id(v)]
            if isinstance(v, Obj) and hasattr(v.cls, "lookup"):
                r = v.cls.lookup("__deepcopy__")
                if r is not None and r[0] == "method":
                    return ex.call_function(r[2], [memo], {}, bound=v, line=l)
            if isinstance(v, Obj):
                if v.fields.get("__singleton__"):
                    return v
                o = Obj(v.cls, {}, label=(v.label or "") + "(deepcopy)")
                memo[id(v)] = o
                for key, val in v.fields.items():
                    o.fields[key] = dc(val)
                return o
            if isinstance(v, SymArr):
                return v.snapshot()
            if isinstance(v, list):
                return [dc(e) for e in v]
            if isinstance(v, tuple):
                return tuple(dc(e) for e in v)
            if isinstance(v, dict):
                return {kk: dc(vv) for kk, vv in v.items()}
            return v
        return dc(x)

    M.table["id"] = Builtin("id", lambda ex, a, k, l: id(a[0]))

    for nm in ("Exception", "ValueError", "TypeError", "KeyError", "IndexError", "NotImplementedError",
               "AttributeError", "RuntimeError"):
        M.table[nm] = Builtin(nm, lambda ex, a, k, l, nm=nm: Opaque("exception " + nm))
    M.table["True"] = True
    M.table["False"] = False
    M.table["None"] = None

    # ---- numpy -----------------------------------------------------------------------------------
    def _dtype_arg(k, a, default="real"):
        d = k.get("dtype", a[1] if len(a) > 1 else None)
        if d is None:
            return default
        if isinstance(d, Builtin):
            return {"int": "int", "float": "real", "complex": "cx", "bool": "bool"}.get(d.name, "real")
        if isinstance(d, ModRef):
            nm = d.dotted.split(".")[-1]
            if nm.startswith("int") or nm.startswith("uint"):
                return "int"
            if nm.startswith("complex"):
                return "cx"
            if nm.startswith("bool"):
                return "bool"
            return "real"
        if isinstance(d, str):
            return {"int": "int", "float": "real", "complex": "cx"}.get(d, "real")
        if isinstance(d, Opaque) and d.what.startswith("dtype:"):
            return d.what.split(":")[1]
        return default

    def _shape_arg(s):
        if isinstance(s, (tuple, list)):
            return tuple(s)
        return (s,)

    @reg("numpy.zeros")
    def _zeros(ex, a, k, l):
        shape = _shape_arg(a[0])
        dt = _dtype_arg(k, a)
        z = 0
        return lam_array(shape, dt, lambda xs: z, name="zeros")
    @reg("numpy.empty")
    def _empty(ex, a, k, l):
        shape = _shape_arg(a[0])
        dt = _dtype_arg(k, a)
        return SymArr(shape, dt, name="empty")           # arbitrary contents

    @reg("numpy.ones")
    def _ones(ex, a, k, l):
        shape = _shape_arg(a[0])
        dt = _dtype_arg(k, a)
        return lam_array(shape, dt, lambda xs: 1, name="ones")

    @reg("numpy.zeros_like")
    def _zeros_like(ex, a, k, l):
        return lam_array(a[0].shape, a[0].dtype, lambda xs: 0, name="zeros")

    @reg("numpy.eye")
    def _eye(ex, a, k, l):
        n = a[0]
        dt = _dtype_arg(k, (None, None))
        r = lam_array((n, n), dt, lambda xs: ite(compare("==", xs[0], xs[1]), 1, 0), name="eye")
        r.diag_of = (r.re, lambda i: 1)
        return r
    M.table["numpy.identity"] = M.table["numpy.eye"]

    @reg("numpy.array")
    def _array(ex, a, k, l):
        x = a[0]
        if isinstance(x, SymArr):
            return x.snapshot()
        if isinstance(x, (list, tuple)):
            return _from_nested(x, _dtype_arg(k, (None, None), default=None))
        raise Unsupported("numpy.array(%r)" % (x,))

    def _from_nested(x, dt=None):
        def shape_of(y):
            if isinstance(y, (list, tuple)):
                return (len(y),) + (shape_of(y[0]) if y else ())
            if isinstance(y, SymArr):
                return tuple(y.shape)
            return ()
        shape = shape_of(x)

        def leaves(y):
            if isinstance(y, (list, tuple)):
                for z_ in y:
                    yield from leaves(z_)
            else:
                yield y
        if dt is None:
            dt = "int"
            for v in leaves(x):
                dt = join_dtype(dt, v.dtype if isinstance(v, SymArr) else V.dtype_of_scalar(v))
        depth = 0
        y = x
        while isinstance(y, (list, tuple)):
            depth += 1
            y = y[0] if y else None

        def cell(xs):
            def pick(y, d):
                if d == depth:
                    if isinstance(y, SymArr):
                        return y.get(xs[d:])
                    return y
                r = pick(y[-1], d + 1)
                for i in range(len(y) - 2, -1, -1):
                    r = ite(compare("==", xs[d], i), pick(y[i], d + 1), r)
                return r
            return pick(x, 0)
        return lam_array(shape, dt, cell, name="array")
    M.from_nested = _from_nested

    @reg("numpy.dot")
    def _ndot(ex, a, k, l):
        return _dot(ex, a[0], a[1])
    M.table["numpy.matmul"] = M.table["numpy.dot"]

    @reg("numpy.tensordot")
    def _tensordot(ex, a, k, l):
        """numpy.tensordot(A, B) with the default axes=2: contraction of the last two axes of A with the first two of B"""
        from . import sums
        A, B = a[0], a[1]
        axes = k.get("axes", a[2] if len(a) > 2 else 2)
        if axes != 2 or B.rank < 2 or A.rank < 2:
            raise Unsupported("numpy.tensordot with axes=%r" % (axes,))
        sa, sb = A.snapshot(), B.snapshot()
        shape = tuple(A.shape[:-2]) + tuple(B.shape[2:])
        dt = "cx" if "cx" in (A.dtype, B.dtype) else "real"
        na = A.rank - 2

        def cell(xs):
            ia, ib = list(xs[:na]), list(xs[na:])
            return sums.mk_sum(ex, A.shape[-2], lambda c: sums.mk_sum(
                ex, A.shape[-1], lambda d: arith("*", sa.get(ia + [c, d]), sb.get([c, d] + ib))))
        if not shape:
            return cell([])
        return lam_array(shape, dt, cell, name="tensordot")

    @reg("numpy.ndim")
    def _ndim(ex, a, k, l):
        x = a[0]
        if isinstance(x, SymArr):
            return len(x.shape)
        if isinstance(x, (list, tuple)):
            d, y = 0, x
            while isinstance(y, (list, tuple)):
                d += 1
                if not y:
                    break
                y = y[0]
            return d
        if isinstance(x, Cx) or is_z3(x) or isinstance(x, (int, float, complex)):
            return 0
        raise Unsupported("numpy.ndim of %r @%s" % (x, l))

    @reg("numpy.shape")
    def _shape(ex, a, k, l):
        x = a[0]
        if isinstance(x, SymArr):
            return tuple(x.shape)
        raise Unsupported("numpy.shape of %r @%s" % (x, l))

    @reg("numpy.linspace")
    def _linspace(ex, a, k, l):
        """numpy.linspace(start, stop, num)[i] = start + i*(stop-start)/(num-1)  (num = 1: [start]); endpoint=True"""
        start, stop = a[0], a[1]
        num = a[2] if len(a) > 2 else k.get("num", 50)
        if k.get("endpoint", True) is not True:
            raise Unsupported("numpy.linspace(endpoint=False) @%s" % l)
        ex.oblige("linspace-length-nonnegative", compare(">=", num, 0), "precondition", l)
        one = compare("==", num, 1)

        def cell(idx):
            i = idx[0]
            den = ite(one, 1, arith("-", num, 1))
            return arith("+", start, arith("/", arith("*", i, arith("-", stop, start)), den))
        return lam_array((num,), "real", cell)

    def _wroot(kk, n):
        """W(k, n) = exp(2 pi i k / n): an uninterpreted pair of real functions of two integers"""
        fre = V._ufuns.setdefault("W_re/2i", z3.Function("u_W_re", z3.IntSort(), z3.IntSort(), z3.RealSort()))
        fim = V._ufuns.setdefault("W_im/2i", z3.Function("u_W_im", z3.IntSort(), z3.IntSort(), z3.RealSort()))
        return Cx(fre(V.z3int(kk), V.z3int(n)), fim(V.z3int(kk), V.z3int(n)))
    M.table["Wroot"] = Builtin("spec:Wroot", lambda ex, a, k, l: _wroot(a[0], a[1]))

    def _fft_like(x, sign, scaled, l):
        if not (isinstance(x, SymArr) and len(x.shape) == 1):
            raise Unsupported("numpy.fft of %r @%s" % (x, l))
        n = x.shape[0]
        from .sums import mk_sum

        def cell(idx):
            m = idx[0]
            tot = mk_sum(None, n, lambda j: arith("*", Cx.of(x.get([j])), _wroot(arith("*", sign, arith("*", j, m)), n)))
            return arith("/", tot, n) if scaled else tot
        return lam_array((n,), "cx", cell)

    @reg("numpy.fft.ifft")
    def _ifft(ex, a, k, l):
        """numpy.fft.ifft(x)[m] = (1/n) sum_j x[j] exp(+2 pi i j m / n)"""
        return _fft_like(a[0], 1, True, l)

    @reg("numpy.fft.fft")
    def _fft(ex, a, k, l):
        """numpy.fft.fft(x)[m] = sum_j x[j] exp(-2 pi i j m / n)"""
        return _fft_like(a[0], -1, False, l)

    @reg("numpy.fft.hfft")
    def _hfft(ex, a, k, l):
        """numpy.fft.hfft(a, n): real transform of the Hermitian-symmetric signal whose non-negative-time half is a:
        out[j] = Re a[0] + 2 sum_{m=1}^{n/2-1} Re(a[m] W(-j m, n)) + Re(a[n/2] W(-j n/2, n)),  n even (default 2(len(a)-1)),
        a padded with zeros / cut to n/2+1 points"""
        x = a[0]
        if not (isinstance(x, SymArr) and x.rank == 1):
            raise Unsupported("numpy.fft.hfft of %r @%s" % (x, l))
        N = x.shape[0]
        n = a[1] if len(a) > 1 else k.get("n")
        if n is None:
            n = arith("*", 2, arith("-", N, 1))
        half = arith("//", n, 2)
        snap = x.snapshot()
        from .sums import mk_sum

        def term(m, j):
            am = Cx.of(snap.get([m]))
            w = _wroot(arith("-", 0, arith("*", j, m)), n)
            inside = compare("<", m, N)
            re_ = arith("-", arith("*", am.re, w.re), arith("*", am.im, w.im))
            return ite(inside, re_, 0)

        def cell(idx):
            j = idx[0]
            a0 = Cx.of(snap.get([0])).re
            mid = mk_sum(None, half, lambda m: arith("*", 2, term(m, j)), lo=1)
            return arith("+", arith("+", a0, mid), term(half, j))
        return lam_array((n,), "real", cell)

    @reg("numpy.flipud")
    def _flipud(ex, a, k, l):
        x = a[0]
        if not isinstance(x, SymArr):
            raise Unsupported("numpy.flipud of %r @%s" % (x, l))
        snap = x.snapshot()
        n0 = x.shape[0]
        return lam_array(x.shape, x.dtype, lambda idx: snap.get([arith("-", arith("-", n0, 1), idx[0])] + list(idx[1:])))

    def _roll(x, shift_of_n, l):
        if not (isinstance(x, SymArr) and len(x.shape) == 1):
            raise Unsupported("numpy.fft shift of %r @%s" % (x, l))
        n = x.shape[0]
        s_ = shift_of_n(n)

        def cell(idx):
            # x[(i - s) mod n]  for 0 <= i, s < n, written without mod
            i = idx[0]
            src = ite(compare(">=", i, s_), arith("-", i, s_), arith("+", arith("-", i, s_), n))
            return x.get([src])
        return lam_array((n,), x.dtype, cell)

    @reg("numpy.fft.fftshift")
    def _fftshift(ex, a, k, l):
        """numpy.fft.fftshift(x) = roll(x, n//2):  out[i] = x[(i - n//2) mod n]"""
        return _roll(a[0], lambda n: arith("//", n, 2), l)

    @reg("numpy.fft.ifftshift")
    def _ifftshift(ex, a, k, l):
        """numpy.fft.ifftshift(x) = roll(x, -(n//2)):  out[i] = x[(i + n//2) mod n] = x[(i - (n - n//2)) mod n]"""
        return _roll(a[0], lambda n: arith("-", n, arith("//", n, 2)), l)

    @reg("numpy.fft.fftfreq")
    def _fftfreq(ex, a, k, l):
        """numpy.fft.fftfreq(n, d)[i] = (i if i <= (n-1)//2 else i - n) / (n d)"""
        n = a[0]
        d = a[1] if len(a) > 1 else k.get("d", 1.0)

        def cell(idx):
            i = idx[0]
            num = ite(compare("<=", i, arith("//", arith("-", n, 1), 2)), i, arith("-", i, n))
            return arith("/", num, arith("*", n, d))
        return lam_array((n,), "real", cell)

    @reg("numpy.transpose")
    def _ntr(ex, a, k, l):
        return _transpose(ex, a[0])

    @reg("numpy.conj")
    def _nconj(ex, a, k, l):
        return _conj(a[0])
    M.table["numpy.conjugate"] = M.table["numpy.conj"]
    M.table["conj"] = M.table["numpy.conj"]           # spec-language alias

    @reg("numpy.real")
    def _nreal(ex, a, k, l):
        return _real_part(a[0])

    @reg("numpy.imag")
    def _nimag(ex, a, k, l):
        return _imag_part(a[0])

    def _elementwise(name, fn):
        def model(ex, a, k, l):
            x = a[0]
            if isinstance(x, SymArr):
                snap = x.snapshot()
                probe = fn(snap.get([0] * snap.rank))
                return lam_array(x.shape, "cx" if isinstance(probe, Cx) else "real", lambda xs: fn(snap.get(xs)))
            return fn(x)
        M.table[name] = Builtin(name, model)

    def _exp(x):
        if isinstance(x, Cx):
            re0 = x.re
            if is_z3(re0):
                sre = z3.simplify(re0)
                if z3.is_rational_value(sre) and sre.numerator_as_long() == 0:
                    re0 = 0
            if not is_z3(re0) and re0 == 0:
                return Cx(V.ufun("cos", x.im), V.ufun("sin", x.im))
            e = V.ufun("exp", x.re)
            return Cx(arith("*", e, V.ufun("cos", x.im)), arith("*", e, V.ufun("sin", x.im)))
        if not is_z3(x) and x == 0:
            return 1
        return V.ufun("exp", x)

    def _sqrt(x):
        if isinstance(x, Cx):
            raise Unsupported("complex sqrt")
        if not is_z3(x) and x >= 0:
            import math
            r = math.isqrt(int(x)) if x == int(x) else None
            if r is not None and r * r == x:
                return r
        return V.ufun("sqrt", x)
    _elementwise("numpy.exp", _exp)
    _elementwise("numpy.sqrt", _sqrt)
    _elementwise("math.sqrt", _sqrt)
    _elementwise("math.exp", _exp)
    _elementwise("numpy.sin", lambda x: V.ufun("sin", x))
    _elementwise("numpy.cos", lambda x: V.ufun("cos", x))
    _elementwise("numpy.tanh", lambda x: V.ufun("tanh", x))
    _elementwise("numpy.tan", lambda x: V.ufun("tan", x))
    _elementwise("numpy.arctan", lambda x: V.ufun("arctan", x))
    _elementwise("numpy.sinh", lambda x: V.ufun("sinh", x))
    _elementwise("numpy.cosh", lambda x: V.ufun("cosh", x))
    _elementwise("numpy.log", lambda x: V.ufun("log", x))
    _elementwise("numpy.sign", lambda x: ite(compare(">", x, 0), 1, ite(compare("<", x, 0), -1, 0)))

    def _minmax(name, op):
        def model(ex, a, k, l):
            x, y = a[0], a[1]
            pick = lambda u, v: ite(compare(op, u, v), u, v)      # noqa: E731
            if isinstance(x, SymArr) and isinstance(y, SymArr):
                if x.rank != y.rank:
                    raise Unsupported("%s with broadcasting @%s" % (name, l))
                sx, sy = x.snapshot(), y.snapshot()
                return lam_array(x.shape, join_dtype(x.dtype, y.dtype), lambda xs: pick(sx.get(xs), sy.get(xs)))
            if isinstance(x, SymArr) or isinstance(y, SymArr):
                arr, sc, first = (x, y, True) if isinstance(x, SymArr) else (y, x, False)
                if isinstance(sc, Cx) or arr.dtype == "cx":
                    raise Unsupported("%s of complex values @%s" % (name, l))
                sa = arr.snapshot()
                return lam_array(arr.shape, "real" if arr.dtype != "int" or V.sort_of(sc) != "int" else "int",
                                 lambda xs: pick(sa.get(xs), sc) if first else pick(sc, sa.get(xs)))
            return pick(x, y)
        M.table[name] = Builtin(name, model)
    _minmax("numpy.minimum", "<=")
    _minmax("numpy.maximum", ">=")

    @reg("numpy.array_equal")
    def _array_equal(ex, a, k, l):
        """numpy.array_equal(x, y): same shape and all cells equal (a quantified formula for symbolic sizes)"""
        x, y = a[0], a[1]
        if not (isinstance(x, SymArr) and isinstance(y, SymArr)):
            raise Unsupported("numpy.array_equal of %r, %r @%s" % (x, y, l))
        if x.rank != y.rank:
            return False
        shp = band(*[compare("==", p_, q_) for p_, q_ in zip(x.shape, y.shape)])
        if all(isinstance(n_, int) for n_ in x.shape) and all(isinstance(n_, int) for n_ in y.shape):
            if tuple(x.shape) != tuple(y.shape):
                return False
            import itertools
            if int(numpy_size(x.shape)) <= 64:
                return band(*[ex.compare_op(__import__("ast").Eq(), x.get(list(i)), y.get(list(i)))
                              for i in itertools.product(*[range(n_) for n_ in x.shape])])
        xs = [fresh("q", z3.IntSort()) for _ in x.shape]
        rng = z3.And(*[z3.And(0 <= v_, v_ < V.z3int(n_)) for v_, n_ in zip(xs, x.shape)])
        cx_, cy_ = Cx.of(x.get(xs)), Cx.of(y.get(xs))
        eq = z3.And(V.z3real(cx_.re) == V.z3real(cy_.re), V.z3real(cx_.im) == V.z3real(cy_.im))
        return band(shp, V.canon_quant(xs, z3.Implies(rng, eq)))

    def numpy_size(shape):
        r = 1
        for n_ in shape:
            r *= n_
        return r

    def _extremum(which):
        def model(ex, a, k, l):
            """numpy.amin / amax of a one-dimensional real array: a fresh value m with m <= (>=) every cell and m equal
            to some cell (the array must be non-empty: obligation)"""
            x = a[0]
            if isinstance(x, (list, tuple)):
                r = x[0]
                for y in x[1:]:
                    r = ite(compare("<" if which == "min" else ">", y, r), y, r)
                return r
            if not (isinstance(x, SymArr) and x.rank == 1 and x.dtype in ("real", "int")):
                raise Unsupported("numpy.a%s of %r @%s" % (which, x, l))
            n = x.shape[0]
            ex.oblige("extremum-of-non-empty-array", compare(">=", n, 1), "precondition", l)
            m = fresh("a" + which, z3.RealSort() if x.dtype == "real" else z3.IntSort())
            i = fresh("i", z3.IntSort())
            w = fresh("arg" + which, z3.IntSort())
            snap = x.snapshot()
            cell = snap.get([i])
            rel = (m <= cell) if which == "min" else (m >= cell)
            ex.assume(V.canon_quant([i], z3.Implies(z3.And(0 <= i, i < V.z3int(n)), rel)))
            ex.assume(z3.And(0 <= w, w < V.z3int(n), snap.get([w]) == m))
            return m
        return model
    for nm_ in ("numpy.amin", "numpy.min"):
        M.table[nm_] = Builtin(nm_, _extremum("min"))
    for nm_ in ("numpy.amax", "numpy.max"):
        M.table[nm_] = Builtin(nm_, _extremum("max"))

    @reg("numpy.prod")
    def _nprod(ex, a, k, l):
        """product of the elements of a (small, concretely shaped) one-dimensional array or sequence"""
        x = a[0]
        if isinstance(x, SymArr) and x.rank == 1 and not is_z3(x.shape[0]):
            items = [x.get([i]) for i in range(x.shape[0])]
        elif isinstance(x, (list, tuple)):
            items = list(x)
        else:
            raise Unsupported("numpy.prod of %r @%s" % (x, l))
        r = 1
        for it in items:
            r = arith("*", r, it)
        return r

    @reg("numpy.sum")
    def _nsum(ex, a, k, l):
        from . import sums
        return sums.numpy_sum(ex, a[0], k.get("axis", a[1] if len(a) > 1 else None))

    @reg("numpy.trace")
    def _ntrace(ex, a, k, l):
        from . import sums
        x = a[0].snapshot()
        ax1, ax2 = k.get("axis1", 0), k.get("axis2", 1)
        if x.rank == 2:
            return sums.mk_sum(ex, x.shape[0], lambda i: x.get([i, i]))
        rest = [d for d in range(x.rank) if d not in (ax1, ax2)]
        shape = tuple(x.shape[d] for d in rest)

        def cell(xs):
            def at(i):
                idx = [None] * x.rank
                for d, v in zip(rest, xs):
                    idx[d] = v
                idx[ax1] = i
                idx[ax2] = i
                return x.get(idx)
            return sums.mk_sum(ex, x.shape[ax1], at)
        return lam_array(shape, x.dtype, cell, name="trace")

    @reg("numpy.diag")
    def _ndiag(ex, a, k, l):
        x = a[0]
        snap = x.snapshot()
        if x.rank == 2:
            return lam_array((x.shape[0],), x.dtype, lambda xs: snap.get([xs[0], xs[0]]))
        r = lam_array((x.shape[0], x.shape[0]), x.dtype,
                      lambda xs: ite(compare("==", xs[0], xs[1]), snap.get([xs[0]]), 0))
        r.diag_of = (r.re, lambda i: snap.get([i]))
        return r

    @reg("numpy.linalg.eigh")
    def _eigh(ex, a, k, l):
        """assumed contract: for a real symmetric argument returns real eigenvalues in ascending order and a real
        matrix of eigenvectors (orthogonality / diagonalisation facts are added by the plans that need them)"""
        h = a[0]
        n = h.shape[0]
        w = SymArr((n,), "real", name="eigvals")
        S = SymArr((n, n), h.dtype if h.dtype == "cx" else "real", name="eigvecs")
        i, j = fresh("i", z3.IntSort()), fresh("j", z3.IntSort())
        ex.assume(V.canon_quant([i, j], z3.Implies(z3.And(0 <= i, i <= j, j < V.z3int(n)),
                                                    w.get([i]) <= w.get([j]))))
        ex.last_eigh = (h, w, S)
        return (w, S)

    @reg("numpy.linalg.eig")
    def _eig(ex, a, k, l):
        h = a[0]
        n = h.shape[0]
        return (SymArr((n,), "cx", name="eigvals"), SymArr((n, n), "cx", name="eigvecs"))

    def _inv(ex, a, k, l):
        """assumed contract: returns the inverse (of the same dtype); algebraic facts are added where needed"""
        x = a[0]
        # the inverse is a deterministic function of the argument: u_inv(term) (re / im for complex arguments)
        xr, xi = x.terms()
        if x.dtype == "cx":
            fr = _inv_fun("u_inv_cre", [xr.sort(), xi.sort()], xr.sort())
            fi = _inv_fun("u_inv_cim", [xr.sort(), xi.sort()], xr.sort())
            r = SymArr(x.shape, "cx", re=fr(xr, xi), im=fi(xr, xi), name="inv")
        else:
            fr = _inv_fun("u_inv", [xr.sort()], xr.sort())
            r = SymArr(x.shape, "real", re=fr(xr), name="inv")
        r.inverse_of = x
        le = getattr(ex, "last_eigh", None)
        if le is not None and le[2] is x and x.dtype != "cx":
            # eigenvectors of a real symmetric matrix are orthonormal: the inverse is the transpose
            ex.used_models.add("assume:inverse of eigh's eigenvector matrix (real symmetric argument) is its transpose")
            i, kk = fresh("i", z3.IntSort()), fresh("k", z3.IntSort())
            n = V.z3int(x.shape[0])
            ex.assume(V.canon_quant([i, kk], z3.Implies(z3.And(0 <= i, i < n, 0 <= kk, kk < n),
                                                         r.get([i, kk]) == x.get([kk, i]))))
        return r
    M.table["numpy.linalg.inv"] = Builtin("numpy.linalg.inv", _inv)
    M.table["inv"] = M.table["numpy.linalg.inv"]          # spec-language alias
    M.table["scipy.linalg.inv"] = Builtin("scipy.linalg.inv", _inv)

    _prim = z3.Function("u_prim", z3.ArraySort(z3.IntSort(), z3.RealSort()), z3.ArraySort(z3.IntSort(), z3.RealSort()),
                        z3.ArraySort(z3.IntSort(), z3.RealSort()))

    @reg("scipy.interpolate.UnivariateSpline")
    def _spline(ex, a, k, l):
        """assumed contract: UnivariateSpline(t, y, s=0).antiderivative()(t) is a deterministic function prim(t, y) of
        the two arrays with prim(t, y)[0] == 0 (integral from t[0])"""
        t, y = a[0], a[1]
        tre, _ = t.terms()
        yre, _ = y.terms()

        def antiderivative(ex_, a_, k_, l_):
            def evaluate(ex__, a2, k2, l2):
                if a2[0] is not t and not (a2[0].terms()[0].eq(tre)):
                    raise Unsupported("spline antiderivative evaluated on a different grid")
                res = SymArr(t.shape, "real", re=_prim(tre, yre), name="prim")
                ex__.assume(res.get([0]) == 0)
                return res
            return Builtin("spline.antiderivative()", evaluate)
        def integral(ex_, a_, k_, l_):
            """assumed contract: spline.integral(a, b) is a deterministic function of the two arrays and the two limits"""
            f = z3.Function("u_splint", tre.sort(), yre.sort(), z3.RealSort(), z3.RealSort(), z3.RealSort())
            return f(tre, yre, V.z3real(a_[0]), V.z3real(a_[1]))
        return Obj("UnivariateSpline(model)", {"antiderivative": Builtin("spline.antiderivative", antiderivative),
                                                "integral": Builtin("spline.integral", integral)})
    M.table["scipy.interpolate.interpolate.UnivariateSpline"] = M.table["scipy.interpolate.UnivariateSpline"]

    def _spec_prim(ex, a, k, l):
        """spec-language name of the same function: spline_primitive(t, y)"""
        t, y = a[0], a[1]
        return SymArr(t.shape, "real", re=_prim(t.terms()[0], y.terms()[0]), name="prim")
    M.table["spline_primitive"] = Builtin("spec:spline_primitive", _spec_prim)

    M.table["numpy.float64"] = ModRef("numpy.float64")
    for cname in ("pi", "c", "e", "hbar", "k", "h", "epsilon_0", "N_A"):
        M.table["scipy.constants." + cname] = z3.Real("c_" + cname)
    M.table["scipy.constants.physical_constants"] = Opaque("physical_constants")
    M.table["numpy.pi"] = V.const_pi()
    M.table["math.pi"] = V.const_pi()


_INVF = {}


def _inv_fun(name, dom, rng):
    key = (name, tuple(d.sexpr() for d in dom))
    if key not in _INVF:
        _INVF[key] = z3.Function("%s_%d" % (name, len(_INVF)), *dom, rng)
    return _INVF[key]


def singleton_hook(ex, cinfo, args, kwargs, line):
    """classes with metaclass=Singleton: the one instance lives in ex.globals_heap (set up by the contract)"""
    for kw in cinfo.node.keywords:
        if kw.arg == "metaclass" and getattr(kw.value, "id", None) == "Singleton":
            inst = ex.globals_heap.get(cinfo.name)
            if inst is None:
                raise Unsupported("singleton %s is not part of the contract's initial heap" % cinfo.name)
            return (inst,)
    return None
