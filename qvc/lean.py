"""Lean 4 + Mathlib back end: bridge lemmas.  Hypotheses and conclusion are contract-language clauses printed to
Lean by `clause_to_lean`; z3 proves the hypotheses from the code, Lean proves hypotheses |- conclusion for all
sizes.  Only the tactic script is hand-written."""
import ast
import os
import re
import subprocess
import time
import concurrent.futures as cf

VERIF = os.path.dirname(os.path.dirname(os.path.abspath(__file__)))
BUILD = os.path.join(VERIF, ".build", "lean")

IMPORTS = """import Mathlib.Algebra.BigOperators.Ring.Finset
import Mathlib.Algebra.BigOperators.Intervals
import Mathlib.Algebra.Order.BigOperators.Group.Finset
import Mathlib.Data.Real.Basic
import Mathlib.Data.Int.Interval
import Mathlib.Data.Complex.Basic
import Mathlib.Data.Complex.BigOperators
import Mathlib.LinearAlgebra.Matrix.Trace
import Mathlib.Tactic.Ring
import Mathlib.Tactic.Linarith
import Mathlib.Tactic.FieldSimp
import Mathlib.Tactic.NormNum
import Mathlib.Tactic.LinearCombination
open BigOperators Finset
"""


PRELUDE = """
theorem int_sum_Ico_consecutive (f : ℤ → ℝ) {a b c : ℤ} (hab : a ≤ b) (hbc : b ≤ c) :
    ∑ k ∈ Finset.Ico a b, f k + ∑ k ∈ Finset.Ico b c, f k = ∑ k ∈ Finset.Ico a c, f k := by
  rw [← Finset.Ico_union_Ico_eq_Ico hab hbc, Finset.sum_union (Finset.Ico_disjoint_Ico_consecutive a b c)]

theorem int_sum_Ico_consecutive_gen {M : Type*} [AddCommMonoid M] (f : ℤ → M) {a b c : ℤ} (hab : a ≤ b) (hbc : b ≤ c) :
    ∑ k ∈ Finset.Ico a b, f k + ∑ k ∈ Finset.Ico b c, f k = ∑ k ∈ Finset.Ico a c, f k := by
  rw [← Finset.Ico_union_Ico_eq_Ico hab hbc, Finset.sum_union (Finset.Ico_disjoint_Ico_consecutive a b c)]

theorem int_sum_Ico_succ (f : ℤ → ℝ) {a b : ℤ} (hab : a ≤ b) :
    ∑ k ∈ Finset.Ico a (b+1), f k = ∑ k ∈ Finset.Ico a b, f k + f b := by
  rw [← int_sum_Ico_consecutive f hab (by linarith : b ≤ b+1)]
  have : Finset.Ico b (b+1) = {b} := by
    ext x; simp [Finset.mem_Ico]; omega
  rw [this]; simp
"""


class LeanJob:
    def __init__(self, name, text=None, file=None, statement=""):
        self.name = name
        self.text = text
        self.file = file
        self.statement = statement


def _run_one(job):
    os.makedirs(BUILD, exist_ok=True)
    t0 = time.time()
    if job.file:
        with open(os.path.join(VERIF, job.file)) as f:
            text = f.read()
    else:
        text = job.text
    bad = [w for w in ("sorry", "admit", "native_decide", "axiom ") if re.search(r"\b%s" % re.escape(w), text)]
    path = os.path.join(BUILD, re.sub(r"[^A-Za-z0-9_]+", "_", job.name) + ".lean")
    with open(path, "w") as f:
        f.write(text)
    try:
        p = subprocess.run(["lean", path], capture_output=True, text=True, timeout=600)
        out = (p.stdout or "") + (p.stderr or "")
        ok = p.returncode == 0 and "declaration uses 'sorry'" not in out and "error" not in out and not bad
    except subprocess.TimeoutExpired:
        out, ok = "lean timed out (600 s)", False
    if bad:
        out = "forbidden keyword(s) %s in lemma file\n" % bad + out
    return {"name": job.name, "ok": ok, "seconds": round(time.time() - t0, 2), "output": out.strip()[:2000],
            "statement": job.statement or text[-900:], "file": job.file or os.path.relpath(path, VERIF)}


def run_jobs(jobs, ctx=None):
    if not jobs:
        return []
    with cf.ThreadPoolExecutor(max_workers=min(8, len(jobs))) as ex:
        return list(ex.map(_run_one, jobs))


# --------------------------------------------------------------------------------------------------
# clause -> Lean

class LeanPrinter(ast.NodeVisitor):
    """prints the contract clause language as a Lean 4 term.  `types`: name -> ('int'|'real'|'arrN'|'iarrN')"""

    def __init__(self, types, rename=None):
        self.types = types
        self.rename = rename or {}
        self.bound = {}

    def p(self, node):
        m = getattr(self, "p_" + type(node).__name__, None)
        if m is None:
            raise ValueError("clause construct not printable to Lean: %s" % type(node).__name__)
        return m(node)

    _ORDER = {"bool": 0, "int": 1, "real": 2, "cx": 3}

    def _join(self, *ks):
        ks = [k for k in ks if k != "bool"] or ["int"]
        return max(ks, key=lambda k: self._ORDER[k])

    def kind(self, node):
        """'int' | 'real' | 'cx' | 'bool' of a sub-expression (for coercions)"""
        if isinstance(node, ast.Constant):
            if isinstance(node.value, bool):
                return "bool"
            if isinstance(node.value, complex):
                return "cx"
            return "int" if isinstance(node.value, int) else "real"
        if isinstance(node, ast.Name):
            if node.id in self.bound:
                return "int"
            t = self.types.get(node.id, "real")
            return t if t in ("int", "real", "bool", "cx") else "real"
        if isinstance(node, ast.Subscript):
            base = node.value
            if isinstance(base, ast.Name):
                t = self.types.get(base.id, "arr")
                return "int" if t.startswith("iarr") else "cx" if t.startswith("carr") else "real"
            return "real"
        if isinstance(node, ast.BinOp):
            a, b = self.kind(node.left), self.kind(node.right)
            if isinstance(node.op, ast.Div):
                return self._join(a, b, "real")
            return self._join(a, b)
        if isinstance(node, ast.UnaryOp):
            return self.kind(node.operand)
        if isinstance(node, ast.Call) and isinstance(node.func, ast.Name):
            if node.func.id == "Sum":
                return self.kind_in(node.args[0].id, node.args[2])
            if node.func.id == "ite":
                return self._join(self.kind(node.args[1]), self.kind(node.args[2]))
            if node.func.id in ("old", "entry", "pre", "conj"):
                return self.kind(node.args[0])
            if node.func.id in ("re", "im"):
                return "real"
        if isinstance(node, ast.IfExp):
            return self._join(self.kind(node.body), self.kind(node.orelse))
        return "bool"

    def kind_in(self, var, node):
        self.bound[var] = self.bound.get(var, 0) + 1
        try:
            return self.kind(node)
        finally:
            self.bound[var] -= 1
            if not self.bound[var]:
                del self.bound[var]

    def num(self, node, want):
        k = self.kind(node)
        if want == k or k == "bool":
            return self.p(node)
        sym = {"real": "ℝ", "cx": "ℂ", "int": "ℤ"}[want]
        if isinstance(node, ast.Constant) and isinstance(node.value, int) and want in ("real", "cx"):
            return "(%d : %s)" % (node.value, sym)
        if isinstance(node, ast.Call) and isinstance(node.func, ast.Name) and node.func.id == "ite":
            # push the coercion into the branches
            return "(if %s then %s else %s)" % (self.p(node.args[0]), self.num(node.args[1], want), self.num(node.args[2], want))
        if isinstance(node, ast.IfExp):
            return "(if %s then %s else %s)" % (self.p(node.test), self.num(node.body, want), self.num(node.orelse, want))
        if want == "real" and k == "int":
            return "((%s : ℤ) : ℝ)" % self.p(node)
        if want == "cx" and k == "real":
            return "((%s : ℝ) : ℂ)" % self.p(node)
        if want == "cx" and k == "int":
            return "(((%s : ℤ) : ℝ) : ℂ)" % self.p(node)
        return self.p(node)

    def p_Constant(self, n):
        if isinstance(n.value, bool):
            return "True" if n.value else "False"
        if isinstance(n.value, int):
            return "(%d : ℤ)" % n.value if n.value >= 0 else "(-%d : ℤ)" % -n.value
        if isinstance(n.value, complex):
            if n.value == 1j:
                return "Complex.I"
            return "(((%r : ℝ) : ℂ) + ((%r : ℝ) : ℂ) * Complex.I)" % (n.value.real, n.value.imag)
        if isinstance(n.value, float):
            from fractions import Fraction
            fr = Fraction(n.value).limit_denominator(10**12)
            return "((%d : ℝ) / %d)" % (fr.numerator, fr.denominator)
        raise ValueError("constant %r" % (n.value,))

    def p_Name(self, n):
        return self.rename.get(n.id, n.id)

    def p_Subscript(self, n):
        idx = n.slice.elts if isinstance(n.slice, ast.Tuple) else [n.slice]
        return "(%s %s)" % (self.p(n.value), " ".join("(%s)" % self.p(i) for i in idx))

    def p_Attribute(self, n):
        return self.rename.get(ast.unparse(n), ast.unparse(n).replace(".", "_"))

    def p_BinOp(self, n):
        k = self.kind(n)
        op = {ast.Add: "+", ast.Sub: "-", ast.Mult: "*", ast.Div: "/", ast.FloorDiv: "/", ast.Mod: "%"}[type(n.op)]
        return "(%s %s %s)" % (self.num(n.left, k), op, self.num(n.right, k))

    def p_UnaryOp(self, n):
        if isinstance(n.op, ast.USub):
            return "(-%s)" % self.p(n.operand)
        if isinstance(n.op, ast.Not):
            return "(¬ %s)" % self.p(n.operand)
        raise ValueError("unary")

    def p_BoolOp(self, n):
        op = " ∧ " if isinstance(n.op, ast.And) else " ∨ "
        return "(" + op.join(self.p(v) for v in n.values) + ")"

    def p_Compare(self, n):
        parts = []
        left = n.left
        for op, right in zip(n.ops, n.comparators):
            k = self._join(self.kind(left), self.kind(right))
            sym = {ast.Eq: "=", ast.NotEq: "≠", ast.Lt: "<", ast.LtE: "≤", ast.Gt: ">", ast.GtE: "≥"}[type(op)]
            parts.append("(%s %s %s)" % (self.num(left, k), sym, self.num(right, k)))
            left = right
        return parts[0] if len(parts) == 1 else "(" + " ∧ ".join(parts) + ")"

    def p_IfExp(self, n):
        k = self.kind(n)
        return "(if %s then %s else %s)" % (self.p(n.test), self.num(n.body, k), self.num(n.orelse, k))

    def p_Call(self, n):
        f = n.func.id if isinstance(n.func, ast.Name) else None
        if f in ("forall", "exists"):
            names = [n.args[0].id] if isinstance(n.args[0], ast.Name) else [x.id for x in n.args[0].elts]
            rngs = [n.args[1]] if isinstance(n.args[0], ast.Name) else list(n.args[1].elts)
            for v in names:
                self.bound[v] = self.bound.get(v, 0) + 1
            try:
                conds = []
                for v, r in zip(names, rngs):
                    if isinstance(r, ast.Name) and r.id == "ints":
                        continue
                    lo, hi = self._range(r)
                    conds.append("%s ≤ %s" % (lo, v))
                    conds.append("%s < %s" % (v, hi))
                body = self.p(n.args[2])
            finally:
                for v in names:
                    self.bound[v] -= 1
                    if not self.bound[v]:
                        del self.bound[v]
            binder = " ".join("(%s : ℤ)" % v for v in names)
            if f == "forall":
                return "(∀ %s, %s)" % (binder, " → ".join(conds + [body]))
            return "(∃ %s, %s)" % (binder, " ∧ ".join(conds + [body]))
        if f == "implies":
            return "(%s → %s)" % (self.p(n.args[0]), self.p(n.args[1]))
        if f == "iff":
            return "(%s ↔ %s)" % (self.p(n.args[0]), self.p(n.args[1]))
        if f == "ite":
            k = self.kind(n)
            return "(if %s then %s else %s)" % (self.p(n.args[0]), self.num(n.args[1], k), self.num(n.args[2], k))
        if f == "Sum":
            v = n.args[0].id
            lo, hi = self._range(n.args[1])
            self.bound[v] = self.bound.get(v, 0) + 1
            try:
                body = self.p(n.args[2])
            finally:
                self.bound[v] -= 1
                if not self.bound[v]:
                    del self.bound[v]
            return "(∑ %s ∈ Finset.Ico %s %s, %s)" % (v, lo, hi, body)
        if f == "conj":
            return "((starRingEnd ℂ) %s)" % self.num(n.args[0], "cx")
        if f in ("old", "entry"):
            sub = LeanPrinter(self.types, dict(self.rename))
            sub.bound = self.bound
            sub.rename = {k: v for k, v in self.rename.items()}
            inner = n.args[0]
            return _OldPrinter(self, f).p(inner)
        raise ValueError("call %s not printable" % ast.unparse(n))

    def _range(self, r):
        if not (isinstance(r, ast.Call) and isinstance(r.func, ast.Name) and r.func.id == "range"):
            raise ValueError("domain must be range(...)")
        if len(r.args) == 1:
            return "(0 : ℤ)", self.p(r.args[0])
        return self.p(r.args[0]), self.p(r.args[1])


class _OldPrinter(LeanPrinter):
    def __init__(self, parent, tag):
        LeanPrinter.__init__(self, parent.types, parent.rename)
        self.bound = parent.bound
        self.tag = tag

    def p_Name(self, n):
        if n.id in self.bound:
            return n.id
        t = self.types.get(n.id, "")
        if t.startswith("arr") or t.startswith("iarr") or t.endswith("!"):
            return self.rename.get(n.id, n.id) + "_" + self.tag
        return self.rename.get(n.id, n.id)


def clause_to_lean(text, types, rename=None):
    tree = ast.parse(text.strip(), mode="eval").body
    return LeanPrinter(types, rename).p(tree)


def lean_type(t):
    if t == "int":
        return "ℤ"
    if t == "real":
        return "ℝ"
    if t == "cx":
        return "ℂ"
    m = re.match(r"([ic]?)arr(\d)", t)
    if m:
        elem = "ℤ" if m.group(1) == "i" else "ℂ" if m.group(1) == "c" else "ℝ"
        return " → ".join(["ℤ"] * int(m.group(2)) + [elem])
    raise ValueError(t)


def bridge_lemma(name, types, hyps, concl, proof, olds=()):
    """Lean text of: theorem name (vars) (h_i : hyp_i) : concl := by proof"""
    binders = []
    for v, t in types.items():
        binders.append("(%s : %s)" % (v, lean_type(t)))
        if v in olds:
            binders.append("(%s_old : %s)" % (v, lean_type(t)))
    hs = []
    for i, h in enumerate(hyps):
        nm, cl = h if isinstance(h, tuple) else ("h%d" % i, h)
        hs.append("(%s : %s)" % (nm, clause_to_lean(cl, types)))
    stmt = "theorem %s %s\n    %s :\n    %s" % (name, " ".join(binders), "\n    ".join(hs), clause_to_lean(concl, types))
    text = IMPORTS + PRELUDE + "\n" + stmt + " := by\n" + "\n".join("  " + ln for ln in proof.strip().splitlines()) + "\n"
    return LeanJob(name, text=text, statement=stmt)
