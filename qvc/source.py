"""Reading the real source: every run parses files of QVC_REPO (default /repo) with `ast`; nothing is
imported or executed.  Provides function lookup by qualified name, a class table with base-class
resolution through the modules' import statements, and source-segment hashes for the evidence."""
import ast
import hashlib
import os

REPO = os.environ.get("QVC_REPO", "/repo")


class FunctionInfo:
    def __init__(self, module, node, cls=None, outer=None):
        self.module = module
        self.node = node
        self.cls = cls
        self.outer = outer                      # enclosing FunctionInfo for nested defs
        self.name = node.name
        q = node.name
        if cls is not None:
            q = cls.name + "." + q
        if outer is not None:
            q = outer.qualname.split("::")[1] + ".<locals>." + node.name
        self.qualname = module.relpath + "::" + q

    @property
    def source(self):
        return ast.get_source_segment(self.module.text, self.node) or ""

    @property
    def sha256(self):
        return hashlib.sha256(self.source.encode()).hexdigest()

    @property
    def lineno(self):
        return self.node.lineno

    def params(self):
        a = self.node.args
        names = [x.arg for x in a.posonlyargs + a.args]
        defaults = [None] * (len(names) - len(a.defaults)) + list(a.defaults)
        return list(zip(names, defaults)), a.vararg, [(k.arg, d) for k, d in zip(a.kwonlyargs, a.kw_defaults)], a.kwarg

    def __repr__(self):
        return "<FunctionInfo %s>" % self.qualname


class ClassInfo:
    def __init__(self, module, node):
        self.module = module
        self.node = node
        self.name = node.name
        self.methods = {}
        self.setters = {}        # name -> FunctionInfo of `@name.setter`
        self.attrs = {}          # class-level assignments: name -> ast expr
        for st in node.body:
            if isinstance(st, (ast.FunctionDef,)):
                if any(isinstance(d, ast.Attribute) and d.attr == "setter" for d in st.decorator_list):
                    fi = FunctionInfo(module, st, cls=self)
                    fi.qualname = fi.qualname + "@setter"
                    self.setters[st.name] = fi
                    continue
                self.methods[st.name] = FunctionInfo(module, st, cls=self)
            elif isinstance(st, ast.Assign):
                for t in st.targets:
                    if isinstance(t, ast.Name):
                        self.attrs[t.id] = st.value
        self._mro = None

    @property
    def qualname(self):
        return self.module.relpath + "::" + self.name

    def bases(self):
        out = []
        for b in self.node.bases:
            ci = self.module.resolve_class(b)
            if ci is not None:
                out.append(ci)
        return out

    def mro(self):
        if self._mro is None:
            self._mro = _c3(self)
        return self._mro

    def lookup_setter(self, name):
        for c in self.mro():
            if name in c.setters:
                return c.setters[name]
            if name in c.methods or name in c.attrs:
                return None
        return None

    def lookup(self, name):
        """(kind, owner, thing): kind in method/attr, following the MRO"""
        for c in self.mro():
            if name in c.methods:
                return "method", c, c.methods[name]
            if name in c.attrs:
                return "attr", c, c.attrs[name]
        return None

    def is_subclass_of(self, name):
        return any(c.name == name for c in self.mro())

    def __repr__(self):
        return "<ClassInfo %s>" % self.qualname


def _c3(cls):
    seqs = [[cls]] + [list(b.mro()) for b in cls.bases()] + [list(cls.bases())]
    res = []
    while True:
        seqs = [s for s in seqs if s]
        if not seqs:
            return res
        for s in seqs:
            cand = s[0]
            if not any(cand in t[1:] for t in seqs):
                break
        else:
            # inconsistent hierarchy: fall back to depth-first
            cand = seqs[0][0]
        res.append(cand)
        for s in seqs:
            if s and s[0] is cand:
                del s[0]


class Module:
    def __init__(self, repo, relpath):
        self.repo = repo
        self.relpath = relpath
        path = os.path.join(repo.root, relpath)
        with open(path, encoding="utf-8") as f:
            self.text = f.read()
        self.tree = ast.parse(self.text, filename=path)
        self.functions = {}
        self.classes = {}
        self.imports = {}        # local name -> ("module", dotted) | ("from", dotted module, name)
        self.constants = {}      # module-level simple assignments name -> ast expr
        self.package = relpath[:-3].replace("/", ".")
        if self.package.endswith(".__init__"):
            self.package = self.package[: -len(".__init__")]
            self.is_pkg = True
        else:
            self.is_pkg = False
        for st in self.tree.body:
            self._top(st)

    def _top(self, st):
        if isinstance(st, ast.FunctionDef):
            self.functions[st.name] = FunctionInfo(self, st)
        elif isinstance(st, ast.ClassDef):
            self.classes[st.name] = ClassInfo(self, st)
        elif isinstance(st, (ast.Import, ast.ImportFrom)):
            self.add_import(st, self.imports)
        elif isinstance(st, ast.Assign):
            for t in st.targets:
                if isinstance(t, ast.Name):
                    self.constants[t.id] = st.value
        elif isinstance(st, (ast.Try, ast.If)):
            for s in st.body:
                self._top(s)

    def add_import(self, st, table):
        if isinstance(st, ast.Import):
            for a in st.names:
                if a.asname:
                    table[a.asname] = ("module", a.name)
                else:
                    table[a.name.split(".")[0]] = ("module", a.name.split(".")[0])
        else:
            base = st.module or ""
            if st.level:
                parts = self.package.split(".")
                if not self.is_pkg:
                    parts = parts[:-1]
                if st.level > 1:
                    parts = parts[: len(parts) - (st.level - 1)]
                base = ".".join(parts + ([st.module] if st.module else []))
            for a in st.names:
                table[a.asname or a.name] = ("from", base, a.name)

    def resolve_class(self, expr):
        """ClassInfo for a base-class expression, or None (external base)"""
        if isinstance(expr, ast.Name):
            if expr.id in self.classes:
                return self.classes[expr.id]
            imp = self.imports.get(expr.id)
            if imp and imp[0] == "from":
                return self.repo.find_class(imp[1], imp[2])
        return None


class Repo:
    def __init__(self, root=None):
        self.root = root or REPO
        self._mods = {}

    def module(self, relpath):
        m = self._mods.get(relpath)
        if m is None:
            m = self._mods[relpath] = Module(self, relpath)
        return m

    def module_by_dotted(self, dotted):
        rel = dotted.replace(".", "/")
        for cand in (rel + ".py", rel + "/__init__.py"):
            if os.path.exists(os.path.join(self.root, cand)):
                return self.module(cand)
        return None

    def find_class(self, dotted_module, name, _depth=0):
        m = self.module_by_dotted(dotted_module)
        if m is None or _depth > 6:
            return None
        if name in m.classes:
            return m.classes[name]
        imp = m.imports.get(name)
        if imp and imp[0] == "from":
            return self.find_class(imp[1], imp[2], _depth + 1)
        return None

    def find_function(self, dotted_module, name, _depth=0):
        m = self.module_by_dotted(dotted_module)
        if m is None or _depth > 6:
            return None
        if name in m.functions:
            return m.functions[name]
        imp = m.imports.get(name)
        if imp and imp[0] == "from":
            return self.find_function(imp[1], imp[2], _depth + 1)
        return None

    def function(self, qualname):
        """'path/to/file.py::Class.func' or 'path/to/file.py::func' or '...::outer.<locals>.inner'"""
        relpath, q = qualname.split("::")
        m = self.module(relpath)
        parts = q.split(".")
        if "<locals>" in parts:
            k = parts.index("<locals>")
            outer = self.function(relpath + "::" + ".".join(parts[:k]))
            cur = outer
            for nm in parts[k + 1:]:
                if nm == "<locals>":
                    continue
                want = 0
                if "~" in nm:
                    nm, w = nm.split("~")
                    want = int(w)
                found = None
                seen = 0
                for st in ast.walk(cur.node):
                    if isinstance(st, ast.FunctionDef) and st.name == nm and st is not cur.node:
                        if seen == want:
                            found = FunctionInfo(m, st, outer=cur)
                            if want:
                                found.qualname += "~%d" % want
                            break
                        seen += 1
                if found is None:
                    raise KeyError(qualname)
                cur = found
            return cur
        if len(parts) == 1:
            if parts[0] in m.functions:
                return m.functions[parts[0]]
            raise KeyError(qualname)
        cls = m.classes.get(parts[0])
        if cls is not None and parts[1].endswith("@setter") and parts[1][:-7] in cls.setters:
            return cls.setters[parts[1][:-7]]
        if cls is None or parts[1] not in cls.methods:
            raise KeyError(qualname)
        return cls.methods[parts[1]]

    def cls(self, qualname):
        relpath, q = qualname.split("::")
        m = self.module(relpath)
        if q not in m.classes:
            raise KeyError(qualname)
        return m.classes[q]

    def all_py(self, sub="quantarhei"):
        out = []
        for dp, dn, fn in os.walk(os.path.join(self.root, sub)):
            for f in fn:
                if f.endswith(".py"):
                    out.append(os.path.relpath(os.path.join(dp, f), self.root))
        return sorted(out)
