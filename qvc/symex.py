"""qvc symbolic executor / VC generator over the real AST.

One `Exec` instance executes one *path* of one function (decision trace replay: a fork re-executes the
function from its entry with a longer decision prefix; no state copying, the Python heap of the executor
IS the symbolic heap).  Simple `if`s are merged with guards instead of forking.  Loops over symbolic
ranges are either summarised automatically (perfect map nests; checked ownership of cells) or handled
with a sidecar invariant (entry / preservation / exit obligations).  Calls to functions with a contract
use the contract only (requires -> obligation, modifies -> havoc, ensures -> assumption).
"""
import ast
import copy
import z3

from . import values as V
from .values import (Unsupported, SymArr, SymList, Obj, Range, Cx, FuncRef, ClassRef, ModRef, Builtin, OptDict,
                     Opaque, is_z3, arith, compare, band, bor, bnot, ite, implies, fresh)


_MISSING = object()
_NOKEY = object()        # a symbolic key proved different from every key that can be present


class MergeAbort(Exception):
    pass


class ReturnSignal(Exception):
    def __init__(self, value):
        self.value = value


class RaiseSignal(Exception):
    def __init__(self, exc_type, detail=None, line=None):
        self.exc_type = exc_type
        self.detail = detail
        self.line = line


class BreakSignal(Exception):
    pass


class ContinueSignal(Exception):
    pass


class PathEnd(Exception):
    """path ends without reaching the function exit (e.g. after a loop-body preservation check)"""


class Infeasible(Exception):
    """path condition became unsatisfiable"""


class Poison:
    def __init__(self, why):
        self.why = why

    def __repr__(self):
        return "<Poison %s>" % self.why


class Obligation:
    def __init__(self, name, hyps, goal, kind, where="", expect="proved", meta=None):
        self.name = name
        self.hyps = list(hyps)
        self.goal = goal
        self.kind = kind
        self.where = where
        self.expect = expect        # 'proved' normally; 'refuted' for canaries
        self.meta = meta or {}
        self.verdict = None
        self.model = None
        self.seconds = 0.0
        self.backend = None

    def __repr__(self):
        return "<Obligation %s %s>" % (self.name, self.verdict)


class Frame:
    def __init__(self, finfo, env, module):
        self.finfo = finfo
        self.env = env
        self.module = module
        self.imports = {}
        self.loop_ordinal = 0


_PRINTLIKE = {"print", "printlog", "log_detail", "log_info", "log_quick", "log_report", "log_urgent",
              "log_to_file", "tprint", "done_in", "timeit", "finished_in"}


class Exec:
    def __init__(self, repo, registry, trace=None, label=""):
        self.repo = repo
        self.registry = registry            # spec.Registry: contracts, loop specs, models
        self.trace = list(trace or [])
        self.decisions = []
        self.forks = []                     # alternative traces discovered on this path
        self.pc = []                        # assumptions along the path (z3 Bool)
        self.obligations = []
        self.guard = True
        self.undo = None                    # undo log while speculating (merge / probe)
        self.probe = False                  # suppress obligations
        self.frames = []
        self.label = label
        self.solver = z3.Solver()
        self.solver.set("timeout", 3000)
        self.notes = []                     # loops and how they were handled, for the evidence
        self.used_models = set()
        self.used_contracts = set()
        self.globals_heap = {}              # singleton objects etc., set up by the harness
        self.write_log = None
        self.depth = 0
        self.proof_label = None

    # ---------------------------------------------------------------------------------------------
    # assumptions, obligations, branching

    @property
    def frozen(self):
        if not hasattr(self, "_frozen"):
            self._frozen = {}
        return self._frozen

    def assume(self, f):
        if f is True:
            return
        if f is False:
            raise Infeasible()
        if z3.is_quantifier(f) and f.is_exists():
            # an existential hypothesis is its body at fresh witnesses (keeps it within the quantifier-free stages)
            ws = [z3.FreshConst(f.var_sort(i), "w_" + f.var_name(i).replace("#", "_")) for i in range(f.num_vars())]
            f = z3.substitute_vars(f.body(), *reversed(ws))
            if z3.is_and(f):
                for c in f.children():
                    self.pc.append(c)
                return
        self.pc.append(f)

    def oblige(self, name, goal, kind, line=None, expect="proved", meta=None):
        if self.probe:
            return
        if self.guard is not True:
            goal = implies(self.guard, goal)
        if goal is True:
            goal = z3.BoolVal(True)
        if goal is False:
            goal = z3.BoolVal(False)
        fn = self.frames[-1].finfo.qualname if self.frames and self.frames[-1].finfo else ""
        if self.proof_label and fn.split("#")[0] == self.proof_label.split("#")[0]:
            fn = self.proof_label
        where = "%s:%s" % (fn, line) if line else fn
        path = "".join("T" if d else "F" for d in self.decisions) or "-"
        ob = Obligation("%s@%s[%s]" % (name, line if line else "", path), self.pc, goal, kind, where, expect, meta)
        self.obligations.append(ob)
        return ob

    def feasible(self, extra):
        self.solver.push()
        try:
            for h in self.pc:
                self.solver.add(h)
            self.solver.add(extra)
            r = self.solver.check()
        finally:
            self.solver.pop()
        return r != z3.unsat

    def entails_quick(self, cond):
        """does the quantifier-free part of the path condition imply cond?  (cheap and sound: fewer hypotheses can only
        fail to prove; used to prune case distinctions, never to assume anything)"""
        from .smt import _has_quantifier, _hard_check
        qf = [h for h in self.pc if not _has_quantifier(h)]
        try:
            return _hard_check(qf + [z3.Not(cond)], 400, grace_s=0.4)[0] == "unsat"
        except Exception:       # noqa
            return False

    def decide(self, nalt=2):
        """nondeterministic choice recorded in the decision trace"""
        k = len(self.decisions)
        if k < len(self.trace):
            d = self.trace[k]
        else:
            d = 0
            for alt in range(1, nalt):
                self.forks.append(self.decisions + [alt])
        self.decisions.append(d)
        return d

    def branch(self, cond, line=None):
        """truth value of cond on this path (forking when both are feasible)"""
        if not is_z3(cond):
            return bool(cond)
        cond = z3.simplify(V.z3bool(cond))
        if z3.is_true(cond):
            return True
        if z3.is_false(cond):
            return False
        if self.guard is not True or self.probe:
            raise MergeAbort("fork under guard")
        ft = self.feasible(cond)
        ff = self.feasible(z3.Not(cond))
        if ft and not ff:
            self.pc.append(cond)
            return True
        if ff and not ft:
            self.pc.append(z3.Not(cond))
            return False
        if not ft and not ff:
            raise Infeasible()
        d = self.decide(2)
        if d == 0:
            self.pc.append(cond)
            return True
        self.pc.append(z3.Not(cond))
        return False

    # ---------------------------------------------------------------------------------------------
    # undo log (speculative execution)

    def _log(self, entry):
        if self.undo is not None:
            self.undo.append(entry)

    def set_env(self, env, name, value):
        if self.undo is not None:
            self.undo.append(("env", env, name, env.get(name, _MISSING)))
        env[name] = value

    def set_field(self, obj, name, value):
        if self.undo is not None:
            self.undo.append(("field", obj, name, obj.fields.get(name, _MISSING)))
        obj.fields[name] = value

    def arr_store(self, arr, idx, v):
        self.check_not_frozen(arr, getattr(self, "_cur_line", None))
        root = arr
        while isinstance(root, SymArr) and root.base is not None:
            root = root.base
        if self.undo is not None:
            if isinstance(root, SymArr):
                self.undo.append(("arr", root, root.re, root.im))
            else:
                self.undo.append(("lst", root, list(root.comps)))
        if self.write_log is not None:
            if isinstance(arr, SymArr) and arr.base is not None:
                ridx = idx
                a = arr
                while a.base is not None:
                    ridx = a.imap(ridx)
                    a = a.base
                self.write_log.append((root, tuple(ridx), self.guard))
            else:
                self.write_log.append((root, tuple(idx), self.guard))
        arr.set(idx, v, self.guard)

    def arr_bulk(self, arr, fn, region=None, pattern=None):
        """pattern: per axis the fixed coordinate of the addressed cells, None for axes addressed by a slice"""
        if arr.base is not None:
            raise Unsupported("bulk assignment through a view")
        self.check_not_frozen(arr, getattr(self, "_cur_line", None))
        if self.undo is not None:
            self.undo.append(("arr", arr, arr.re, arr.im))
        if self.write_log is not None:
            self.write_log.append((arr, tuple(pattern) if pattern is not None else None, self.guard))
        arr.set_all(fn, self.guard, region)

    def rollback(self, log):
        for e in reversed(log):
            if e[0] == "env":
                _, env, name, old = e
                if old is _MISSING:
                    env.pop(name, None)
                else:
                    env[name] = old
            elif e[0] == "field":
                _, obj, name, old = e
                if old is _MISSING:
                    obj.fields.pop(name, None)
                else:
                    obj.fields[name] = old
            elif e[0] == "arr":
                _, arr, re, im = e
                arr.re, arr.im = re, im
            elif e[0] == "lst":
                _, lst, comps = e
                lst.comps = comps
            elif e[0] == "pylist":
                _, lst, old = e
                lst[:] = old
            elif e[0] == "pydict":
                _, d, old = e
                d.clear()
                d.update(old)
            elif e[0] == "optdict":
                _, d, old, maybe = e
                d.clear()
                d.update(old)
                d.maybe = maybe

    # ---------------------------------------------------------------------------------------------
    # function execution

    def run_function(self, finfo, args, self_obj=None):
        """execute finfo's body with bound arguments (dict); returns the returned value"""
        env = dict(args)
        fr = Frame(finfo, env, finfo.module)
        self.frames.append(fr)
        self.depth += 1
        if self.depth > 40:
            raise Unsupported("call depth")
        try:
            try:
                self.exec_block(finfo.node.body)
            except ReturnSignal as r:
                return r.value
            return None
        finally:
            self.depth -= 1
            self.frames.pop()
            if self.depth == 0:
                self.exit_env = env         # locals of the function under proof at its exit (Contract.expose_locals)

    def bind_args(self, finfo, args, kwargs, bound=None):
        (pos, vararg, kwonly, kwarg) = finfo.params()
        env = {}
        args = list(args)
        if bound is not None:
            args = [bound] + args
        if len(args) > len(pos) and vararg is None:
            raise Unsupported("too many positional arguments for %s" % finfo.qualname)
        for (name, default), a in zip(pos, args):
            env[name] = a
        for name, default in pos[len(args):]:
            if name in kwargs:
                env[name] = kwargs.pop(name)
            elif default is not None:
                env[name] = ("__default__", default)
            else:
                raise Unsupported("missing argument %s for %s" % (name, finfo.qualname))
        if vararg is not None:
            env[vararg.arg] = tuple(args[len(pos):])
        for name, default in kwonly:
            if name in kwargs:
                env[name] = kwargs.pop(name)
            elif default is not None:
                env[name] = ("__default__", default)
        if kwarg is not None:
            env[kwarg.arg] = dict(kwargs)
        elif kwargs:
            raise Unsupported("unexpected keyword %s for %s" % (list(kwargs), finfo.qualname))
        # evaluate defaults in the defining module's scope
        for k, v in list(env.items()):
            if isinstance(v, tuple) and len(v) == 2 and v[0] == "__default__":
                fr = Frame(finfo, {}, finfo.module)
                self.frames.append(fr)
                try:
                    env[k] = self.eval(v[1])
                finally:
                    self.frames.pop()
        return env

    # ---------------------------------------------------------------------------------------------
    # statements

    def exec_block(self, stmts):
        for st in stmts:
            self.exec_stmt(st)

    def exec_stmt(self, st):
        m = getattr(self, "st_" + type(st).__name__, None)
        if m is None:
            raise Unsupported("statement %s@%d" % (type(st).__name__, st.lineno))
        return m(st)

    def st_Pass(self, st):
        pass

    def st_Global(self, st):
        pass

    def st_Import(self, st):
        self._local_import(st)

    def st_ImportFrom(self, st):
        self._local_import(st)

    def _local_import(self, st):
        # a function-level import binds local names (it may shadow a parameter of the same name, as in
        # `def apply(self, oper, copy=True): ... import copy`)
        fr = self.frames[-1]
        table = {}
        fr.module.add_import(st, table)
        fr.imports.update(table)
        for name, imp in table.items():
            if name in fr.env:
                self.set_env(fr.env, name, self._import_value(imp))

    def st_Expr(self, st):
        if isinstance(st.value, ast.Constant):
            return
        if isinstance(st.value, ast.Call) and self._is_printlike(st.value):
            return
        self.eval(st.value)

    def _is_printlike(self, call):
        f = call.func
        name = f.id if isinstance(f, ast.Name) else f.attr if isinstance(f, ast.Attribute) else None
        return name in _PRINTLIKE

    def st_Return(self, st):
        if self.guard is not True:
            raise MergeAbort("return under guard")
        raise ReturnSignal(self.eval(st.value) if st.value is not None else None)

    def st_Raise(self, st):
        if self.guard is not True:
            raise MergeAbort("raise under guard")
        name = "Exception"
        e = st.exc
        if isinstance(e, ast.Call):
            e = e.func
        if isinstance(e, ast.Name):
            name = e.id
        elif isinstance(e, ast.Attribute):
            name = e.attr
        raise RaiseSignal(name, line=st.lineno)

    def st_Break(self, st):
        if self.guard is not True:
            raise MergeAbort("break under guard")
        raise BreakSignal()

    def st_Continue(self, st):
        if self.guard is not True:
            raise MergeAbort("continue under guard")
        raise ContinueSignal()

    def st_Assert(self, st):
        c = self.eval(st.test)
        self.oblige("assert", V.z3bool(c) if is_z3(c) else bool(c), "assert", st.lineno)
        self.assume(V.z3bool(c) if is_z3(c) else bool(c))

    def st_Assign(self, st):
        v = self.eval(st.value)
        for t in st.targets:
            self.assign(t, v)

    def st_AnnAssign(self, st):
        if st.value is not None:
            self.assign(st.target, self.eval(st.value))

    def st_AugAssign(self, st):
        op = _BINOPS.get(type(st.op))
        if op is None:
            raise Unsupported("augmented operator @%d" % st.lineno)
        t = st.target
        if isinstance(t, ast.Subscript):
            base = self.eval(t.value)
            idx = self.eval_index(t.slice)
            cur = self.getitem(base, idx, t.lineno)
            rhs = self.eval(st.value)
            if isinstance(cur, SymArr):
                new = self.registry.models.array_binop(self, op, cur, rhs)
                self._check_inplace_cast(cur, new, op, st.lineno)
            else:
                new = self.binop(op, cur, rhs)
                if isinstance(base, SymArr):
                    self._check_inplace_cast(base, new, op, st.lineno)
            self.setitem(base, idx, new, t.lineno)
        else:
            cur = self.eval(_as_load(t))
            rhs = self.eval(st.value)
            if isinstance(cur, SymArr):
                # numpy in-place: same object keeps identity
                new = self.registry.models.array_binop(self, op, cur, rhs)
                self._check_inplace_cast(cur, new, op, st.lineno)
                self.arr_bulk(cur, lambda xs: new.get(xs))
                return
            if isinstance(cur, list) and op == "+":
                self.py_mutate_list(cur)
                cur.extend(rhs)
                return
            self.assign(t, self.binop(op, cur, rhs))

    def _check_inplace_cast(self, target, new, op, line):
        """NumPy in-place operators use casting='same_kind': the result of the operation must be castable to the
        target's element type, otherwise a TypeError (UFuncTypeError) is raised (x /= y on an integer array, adding a
        float or complex array into an integer one, complex into real)"""
        order = ["bool", "int", "real", "cx"]
        tdt = target.dtype
        ndt = new.dtype if isinstance(new, SymArr) else ("cx" if isinstance(new, Cx) else V.sort_of(new))
        if op == "/" and tdt in ("int", "bool"):
            ndt = "real"
        if ndt in order and tdt in order and order.index(ndt) > order.index(tdt):
            raise RaiseSignal("TypeError", detail="in-place %s would cast %s to %s" % (op, ndt, tdt), line=line)

    def st_Delete(self, st):
        for t in st.targets:
            if isinstance(t, ast.Subscript):
                base = self.eval(t.value)
                key = self.eval_index(t.slice)
                if isinstance(base, dict):
                    self.resolve_opt(base, key)
                    key = self.concrete_key(base, key)
                    if key not in base:
                        raise RaiseSignal("KeyError", line=st.lineno)
                    self.py_mutate_dict(base)
                    del base[key]
                else:
                    raise Unsupported("del on %r" % (base,))
            elif isinstance(t, ast.Name):
                self.frames[-1].env.pop(t.id, None)
            else:
                raise Unsupported("del target @%d" % st.lineno)

    def st_If(self, st):
        c = self.eval(st.test)
        if not is_z3(c):
            c = self.truth(c)
        if not is_z3(c):
            self.exec_block(st.body if c else st.orelse)
            return
        c = z3.simplify(V.z3bool(c))
        if z3.is_true(c):
            return self.exec_block(st.body)
        if z3.is_false(c):
            return self.exec_block(st.orelse)
        if _mergeable(st.body) and _mergeable(st.orelse):
            outer_undo = self.undo
            log = []
            self.undo = log
            g0 = self.guard
            try:
                try:
                    self.guard = band(g0, c)
                    self.exec_block(st.body)
                    self.guard = band(g0, z3.Not(c))
                    self.exec_block(st.orelse)
                    ok = True
                except MergeAbort:
                    ok = False
            finally:
                self.guard = g0
                self.undo = outer_undo
            if ok:
                if outer_undo is not None:
                    outer_undo.extend(log)
                return
            self.rollback(log)
        if self.guard is not True or self.probe:
            raise MergeAbort("unmergeable if under guard @%d" % st.lineno)
        if self.branch(c, st.lineno):
            self.exec_block(st.body)
        else:
            self.exec_block(st.orelse)

    def st_With(self, st):
        if self.guard is not True:
            raise MergeAbort("with under guard")
        ctxs = []
        for item in st.items:
            cm = self.eval(item.context_expr)
            val = self.call_method(cm, "__enter__", [], {}, st.lineno)
            if item.optional_vars is not None:
                self.assign(item.optional_vars, val)
            ctxs.append(cm)
        try:
            self.exec_block(st.body)
        except (RaiseSignal,) as r:
            for cm in reversed(ctxs):
                self.call_method(cm, "__exit__", [r.exc_type, None, None], {}, st.lineno)
            raise
        except (ReturnSignal, BreakSignal, ContinueSignal):
            for cm in reversed(ctxs):
                self.call_method(cm, "__exit__", [None, None, None], {}, st.lineno)
            raise
        for cm in reversed(ctxs):
            self.call_method(cm, "__exit__", [None, None, None], {}, st.lineno)

    def st_Try(self, st):
        if self.guard is not True:
            raise MergeAbort("try under guard")
        try:
            try:
                self.exec_block(st.body)
            except RaiseSignal as r:
                for h in st.handlers:
                    if self._handler_matches(h, r):
                        if h.name:
                            self.frames[-1].env[h.name] = Opaque("exception")
                        self.exec_block(h.body)
                        break
                else:
                    raise
            else:
                self.exec_block(st.orelse)
        finally:
            if st.finalbody:
                self.exec_block(st.finalbody)

    def _handler_matches(self, h, r):
        if h.type is None:
            return True
        names = []
        t = h.type
        for e in (t.elts if isinstance(t, ast.Tuple) else [t]):
            names.append(e.id if isinstance(e, ast.Name) else getattr(e, "attr", "?"))
        if "Exception" in names or "BaseException" in names:
            return True
        return r.exc_type in names

    def st_FunctionDef(self, st):
        fr = self.frames[-1]
        info = _nested_info(fr.finfo, st)
        val = Closure(info, fr.env)
        for d in reversed(st.decorator_list):
            if isinstance(d, ast.Name) and d.id == "property":
                val = PropObj(fget=val)
            elif isinstance(d, ast.Attribute) and d.attr == "setter":
                base = self.eval(d.value)
                if not isinstance(base, PropObj):
                    raise Unsupported("setter decorator on non-property @%d" % st.lineno)
                val = PropObj(fget=base.fget, fset=val)
            else:
                # general decorator expression on a nested def (e.g. @wraps(func)): call it on the closure
                val = self.call(self.eval(d), [val], {}, st.lineno)
        self.set_env(fr.env, st.name, val)

    def st_For(self, st):
        from . import loops
        loops.exec_for(self, st)

    def st_While(self, st):
        from . import loops
        loops.exec_while(self, st)

    # ---------------------------------------------------------------------------------------------
    # assignment

    def assign(self, target, v):
        if isinstance(target, ast.Name):
            env = self.frames[-1].env
            if self.guard is not True and target.id in env:
                old = env[target.id]
                if old is not v:
                    if isinstance(old, Poison):
                        # variable had no definite value before: keep the new one (reading it on the other
                        # path would be a NameError / stale value in CPython too)
                        pass
                    elif V.sort_of(old) is not None and V.sort_of(v) is not None:
                        v = ite(self.guard, v, old)
                    elif old is None and V.sort_of(v) is not None:
                        raise MergeAbort("None/scalar merge")
                    else:
                        raise MergeAbort("non-scalar merge of %s" % target.id)
            self.set_env(env, target.id, v)
        elif isinstance(target, (ast.Tuple, ast.List)):
            vals = self.unpack(v, len(target.elts), target.lineno)
            for t, x in zip(target.elts, vals):
                self.assign(t, x)
        elif isinstance(target, ast.Subscript):
            base = self.eval(target.value)
            idx = self.eval_index(target.slice)
            self.setitem(base, idx, v, target.lineno)
        elif isinstance(target, ast.Attribute):
            obj = self.eval(target.value)
            self.setattr(obj, target.attr, v, target.lineno)
        else:
            raise Unsupported("assignment target %s" % type(target).__name__)

    def unpack(self, v, n, line):
        if isinstance(v, (tuple, list)):
            if len(v) != n:
                raise RaiseSignal("ValueError", line=line)
            return list(v)
        if isinstance(v, SymArr) and not is_z3(v.shape[0]) and v.shape[0] == n:
            return [self.getitem(v, k, line) for k in range(n)]
        raise Unsupported("unpacking %r" % (v,))

    def setattr(self, obj, name, v, line=None):
        if isinstance(obj, Obj):
            hook = self.registry.models.setattr_hook(self, obj, name, v, line)
            if hook:
                return
            cls = obj.cls
            if hasattr(cls, "lookup") and name not in obj.fields:
                st_ = cls.lookup_setter(name)
                if st_ is not None:
                    return self.call_function(st_, [v], {}, bound=obj, line=line)
                r = cls.lookup(name)
                if r is not None and r[0] == "attr" and isinstance(r[2], ast.Call):
                    sub = Frame(None, {}, r[1].module)
                    self.frames.append(sub)
                    try:
                        pv = self.eval(r[2])
                    finally:
                        self.frames.pop()
                    if isinstance(pv, PropObj):
                        if pv.fset is None:
                            raise RaiseSignal("AttributeError", line=line)
                        return self.call(pv.fset, [obj, v], {}, line)
            if self.guard is not True:
                old = obj.fields.get(name, _MISSING)
                if old is not v:
                    if old is not _MISSING and V.sort_of(old) is not None and V.sort_of(v) is not None:
                        v = ite(self.guard, v, old)
                    else:
                        raise MergeAbort("guarded non-scalar field write %s" % name)
            self.set_field(obj, name, v)
        else:
            raise Unsupported("attribute assignment on %r @%s" % (obj, line))

    def py_mutate_list(self, lst):
        self.check_not_frozen(lst, getattr(self, "_cur_line", None))
        if self.guard is not True:
            raise MergeAbort("list mutation under guard")
        if self.undo is not None:
            self.undo.append(("pylist", lst, list(lst)))

    def py_mutate_dict(self, d):
        self.check_not_frozen(d, getattr(self, "_cur_line", None))
        if self.guard is not True:
            raise MergeAbort("dict mutation under guard")
        if self.undo is not None:
            self.undo.append(("pydict", d, dict(d)))

    def setitem(self, base, idx, v, line=None):
        if isinstance(base, SymArr):
            return self.registry.models.arr_setitem(self, base, idx, v, line)
        if isinstance(base, SymList):
            self.check_not_frozen(base, line)
            self.oblige("index-in-bounds", band(compare("<=", 0, idx), compare("<", idx, base.length)),
                        "bounds", line)
            if base.width is not None:
                if not isinstance(v, (list, tuple)):
                    raise Unsupported("storing non-sequence into SymList of sequences")
            self._symlist_store(base, idx, v)
            return
        if isinstance(base, list):
            self.check_not_frozen(base, line)
            if is_z3(idx):
                idx = self.concretize_index(idx, len(base), line)
            if isinstance(idx, slice):
                raise Unsupported("slice assignment on list")
            if not (-len(base) <= idx < len(base)):
                raise RaiseSignal("IndexError", line=line)
            if self.guard is not True:
                old = base[idx]
                if V.sort_of(old) is not None and V.sort_of(v) is not None:
                    v = ite(self.guard, v, old)
                else:
                    raise MergeAbort("guarded list store")
            if self.undo is not None:
                self.undo.append(("pylist", base, list(base)))
            base[idx] = v
            return
        if isinstance(base, dict):
            self.resolve_opt(base, idx)
            key = self.concrete_key(base, idx, for_store=True)
            if self.guard is not True:
                old = base.get(key, _MISSING)
                if old is not _MISSING and V.sort_of(old) is not None and V.sort_of(v) is not None:
                    v = ite(self.guard, v, old)
                else:
                    raise MergeAbort("guarded dict store")
            if self.undo is not None:
                self.undo.append(("pydict", base, dict(base)))
            base[key] = v
            return
        if isinstance(base, DictView):
            if not isinstance(idx, str):
                raise Unsupported("non-constant key into __dict__ @%s" % line)
            return self.set_field(base.obj, idx, v)
        if isinstance(base, Obj):
            return self.call_method(base, "__setitem__", [idx, v], {}, line)
        raise Unsupported("item assignment on %r @%s" % (base, line))

    def _symlist_store(self, base, idx, v):
        if getattr(base, "untyped", False):
            # `[None]*n` gets its element shape from the first store
            if isinstance(v, (list, tuple)):
                base.width = len(v)
                dts = set(V.sort_of(x) for x in v)
            else:
                base.width = None
                dts = {V.sort_of(v)}
            if not dts <= {"int", "real", "bool"}:
                raise Unsupported("element type of symbolic-length list")
            base.dtype = "real" if "real" in dts else "int"
            n = 1 if base.width is None else base.width
            base.comps = [V.mk_array_const(V.fresh_name("lst"), 1, base.dtype) for _ in range(n)]
            base.untyped = False
        if self.undo is not None:
            self.undo.append(("lst", base, list(base.comps)))
        if self.write_log is not None:
            self.write_log.append((base, (idx,), self.guard))
        base.set(idx, v, self.guard)

    def resolve_opt(self, d, key=_MISSING):
        """presence of the possibly-absent key(s) of an OptDict is decided by a case split when first touched"""
        if not isinstance(d, OptDict) or not d.maybe:
            return
        if key is _MISSING or is_z3(key):
            keys = list(d.maybe)
        else:
            try:
                keys = [key] if key in d.maybe else []
            except TypeError:
                keys = []
        for k in keys:
            if self.guard is not True:
                g, p_ = self.guard, d.maybe[k]
                if z3.is_expr(g) and z3.is_expr(p_) and (g.eq(p_) or (z3.is_and(g) and any(c.eq(p_) for c in g.children()))):
                    continue        # executing under the assumption that this key is present: nothing to decide
                raise MergeAbort("presence of a dict key decided under guard")
            if self.undo is not None:
                self.undo.append(("optdict", d, dict(d), dict(d.maybe)))
            p = d.maybe.pop(k)
            if not self.branch(p):
                dict.__delitem__(d, k)

    def concrete_key(self, d, key, for_store=False):
        """dict key: concrete, or a symbolic string/int resolved by case split over the present keys"""
        if isinstance(key, tuple):
            return tuple(self.concrete_key(d, k, for_store) for k in key)
        if not is_z3(key):
            return key
        for k in list(d.keys()) + list(self.registry.models.key_universe(key)):
            if isinstance(k, (str, int)) and not isinstance(k, bool):
                try:
                    c = compare("==", key, k)
                except Unsupported:
                    continue
                if c is False:
                    continue
                if self.branch(c):
                    return k
        if not for_store:
            return _NOKEY
        raise Unsupported("symbolic dict key outside the known key universe")

    def concretize_index(self, idx, n, line):
        for k in range(n):
            if self.branch(compare("==", idx, k)):
                return k
        for k in range(1, n + 1):
            if self.branch(compare("==", idx, -k)):
                return -k
        raise RaiseSignal("IndexError", line=line)

    # ---------------------------------------------------------------------------------------------
    # expressions

    def eval(self, e):
        m = getattr(self, "ex_" + type(e).__name__, None)
        if m is None:
            raise Unsupported("expression %s@%d" % (type(e).__name__, getattr(e, "lineno", 0)))
        return m(e)

    def ex_Constant(self, e):
        if isinstance(e.value, float):
            return V._num(e.value)
        if isinstance(e.value, complex):
            return Cx(V._num(e.value.real), V._num(e.value.imag))
        return e.value

    def ex_Name(self, e):
        return self.lookup(e.id, e.lineno)

    def lookup(self, name, line=None):
        fr = self.frames[-1]
        env = fr.env
        while env is not None:
            if name in env:
                v = env[name]
                if isinstance(v, Poison):
                    raise Unsupported("read of %s (%s) @%s" % (name, v.why, line))
                return v
            env = env.get("__closure_parent__") if isinstance(env, dict) else None
        if name == "super" and fr.finfo is not None and fr.finfo.cls is not None and "self" in fr.env:
            owner, me = fr.finfo.cls, fr.env["self"]
            return Builtin("super", lambda ex, a, k, l: SuperProxy(me, owner))
        v = self.resolve_global(fr, name)
        if v is _MISSING:
            raise Unsupported("unresolved name %s @%s in %s" % (name, line, fr.finfo.qualname if fr.finfo else "<clause>"))
        return v

    def resolve_global(self, fr, name):
        if name in fr.imports:
            return self._import_value(fr.imports[name])
        mod = fr.module
        if mod is None:
            b = self.registry.models.builtin(name)
            if b is not None:
                return b
            if name in ("numpy", "scipy", "math", "copy"):
                return ModRef(name)
            return _MISSING
        if name in mod.functions:
            return FuncRef(mod.functions[name])
        if name in mod.classes:
            return ClassRef(mod.classes[name])
        if name in mod.imports:
            return self._import_value(mod.imports[name])
        if name in mod.constants:
            ov = self.registry.models.const_overrides.get(mod.relpath + "::" + name)
            if ov is not None:
                self.used_models.add("opaque-constant:" + mod.relpath + "::" + name)
                return ov
            sub = Frame(fr.finfo, {}, mod)
            self.frames.append(sub)
            try:
                return self.eval(mod.constants[name])
            finally:
                self.frames.pop()
        b = self.registry.models.builtin(name)
        if b is not None:
            return b
        return _MISSING

    def _import_value(self, imp):
        if imp[0] == "module":
            return ModRef(imp[1])
        _, base, name = imp
        m = self.repo.module_by_dotted(base)
        if m is not None:
            if name in m.functions:
                return FuncRef(m.functions[name])
            if name in m.classes:
                return ClassRef(m.classes[name])
            if name in m.imports:
                return self._import_value(m.imports[name])
            if name in m.constants:
                ov = self.registry.models.const_overrides.get(m.relpath + "::" + name)
                if ov is not None:
                    self.used_models.add("opaque-constant:" + m.relpath + "::" + name)
                    return ov
                sub = Frame(None, {}, m)
                self.frames.append(sub)
                try:
                    return self.eval(m.constants[name])
                finally:
                    self.frames.pop()
        sub = self.repo.module_by_dotted(base + "." + name)
        if sub is not None:
            return ModRef(base + "." + name)
        return ModRef(base + "." + name)

    def ex_Attribute(self, e):
        obj = self.eval(e.value)
        return self.getattr(obj, e.attr, e.lineno)

    def getattr(self, obj, name, line=None):
        if isinstance(obj, ModRef):
            dotted = obj.dotted + "." + name
            b = self.registry.models.builtin(dotted)
            if b is not None:
                return b
            m = self.repo.module_by_dotted(obj.dotted)
            if m is not None:
                if name in m.functions:
                    return FuncRef(m.functions[name])
                if name in m.classes:
                    return ClassRef(m.classes[name])
                if name in m.imports:
                    return self._import_value(m.imports[name])
            return ModRef(dotted)
        if isinstance(obj, DictView):
            return obj.method(self, name, line)
        if isinstance(obj, SuperProxy):
            # zero-argument super(): the next definition after the calling method's class in the object's MRO
            mro = obj.obj.cls.mro() if hasattr(obj.obj.cls, "mro") else []
            after = False
            for c in mro:
                if after and name in c.methods:
                    return FuncRef(c.methods[name], bound=obj.obj)
                if c is obj.owner:
                    after = True
            raise Unsupported("super().%s not found after %s @%s" % (name, obj.owner.name, line))
        if isinstance(obj, Obj) and name == "__class__" and hasattr(obj.cls, "lookup"):
            return ClassRef(obj.cls)
        if isinstance(obj, Obj) and name == "__dict__":
            return DictView(obj)
        if isinstance(obj, ClassRef) and name == "__new__":
            # object.__new__ (no class in the modelled subset defines its own; checked below)
            if obj.info.lookup("__new__") is not None:
                raise Unsupported("class %s defines __new__" % obj.info.name)
            return Builtin("object.__new__", lambda ex, a, k, l: Obj(a[0].info))
        if isinstance(obj, Obj):
            hooked = self.registry.models.getattr_hook(self, obj, name, line)
            if hooked is not _MISSING and hooked is not None:
                return hooked[0]
            if name in obj.fields:
                v = obj.fields[name]
                if isinstance(v, Poison):
                    raise Unsupported("read of field %s (%s) @%s" % (name, v.why, line))
                return v
            cls = obj.cls
            if hasattr(cls, "lookup"):
                r = cls.lookup(name)
                if r is not None:
                    kind, owner, thing = r
                    if kind == "method":
                        if _is_property(thing.node):
                            return self.call_function(thing, [], {}, bound=obj, line=line)
                        if _is_staticmethod(thing.node):
                            return FuncRef(thing)
                        return FuncRef(thing, bound=obj)
                    sub = Frame(None, {}, owner.module)
                    self.frames.append(sub)
                    try:
                        v = self.eval(thing)
                    finally:
                        self.frames.pop()
                    if isinstance(v, PropertyVal):
                        return v.get(self, obj, line)
                    if isinstance(v, PropObj):
                        return self.call(v.fget, [obj], {}, line)
                    return v
            raise Unsupported("attribute %s of %r @%s" % (name, obj, line))
        if isinstance(obj, ClassRef) and name == "__name__":
            return obj.info.name
        if isinstance(obj, ClassRef) and name == "__module__":
            return obj.info.module.relpath[:-3].replace("/", ".")
        if isinstance(obj, ClassRef):
            r = obj.info.lookup(name)
            if r is None:
                raise Unsupported("class attribute %s.%s" % (obj.info.name, name))
            kind, owner, thing = r
            if kind == "method":
                return FuncRef(thing)
            sub = Frame(None, {}, owner.module)
            self.frames.append(sub)
            try:
                return self.eval(thing)
            finally:
                self.frames.pop()
        return self.registry.models.value_attr(self, obj, name, line)

    def ex_Subscript(self, e):
        base = self.eval(e.value)
        idx = self.eval_index(e.slice)
        return self.getitem(base, idx, e.lineno)

    def eval_index(self, s):
        if isinstance(s, ast.Tuple):
            return tuple(self.eval_index(x) for x in s.elts)
        if isinstance(s, ast.Slice):
            return slice(self.eval(s.lower) if s.lower else None, self.eval(s.upper) if s.upper else None,
                         self.eval(s.step) if s.step else None)
        return self.eval(s)

    def getitem(self, base, idx, line=None):
        if isinstance(base, SymArr):
            return self.registry.models.arr_getitem(self, base, idx, line)
        if isinstance(base, SymList):
            if isinstance(idx, slice):
                return self.registry.models.symlist_slice(self, base, idx, line)
            self.oblige("index-in-bounds", band(compare("<=", 0, idx), compare("<", idx, base.length)),
                        "bounds", line)
            return base.get(idx)
        if isinstance(base, (list, tuple, str)):
            if isinstance(idx, slice):
                if any(is_z3(x) for x in (idx.start, idx.stop, idx.step)):
                    raise Unsupported("symbolic slice of a python list")
                return base[idx]
            if is_z3(idx):
                idx = self.concretize_index(idx, len(base), line)
            if not isinstance(idx, int):
                raise Unsupported("list index %r" % (idx,))
            if not (-len(base) <= idx < len(base)):
                raise RaiseSignal("IndexError", line=line)
            return base[idx]
        if isinstance(base, dict):
            self.resolve_opt(base, idx)
            key = self.concrete_key(base, idx)
            if key not in base:
                raise RaiseSignal("KeyError", line=line)
            return base[key]
        if isinstance(base, Range):
            return arith("+", base.lo, idx)
        if isinstance(base, Obj):
            return self.call_method(base, "__getitem__", [idx], {}, line)
        if isinstance(base, LambdaVal):
            # specification-level family F[i] given as `lambda i: ...` (lemma instantiation over an expression)
            return base.call(self, list(idx) if isinstance(idx, tuple) else [idx], {})
        raise Unsupported("subscript of %r @%s" % (base, line))

    def ex_Tuple(self, e):
        return tuple(self.eval(x) for x in e.elts)

    def ex_List(self, e):
        o = [self.eval(x) for x in e.elts]
        if getattr(self, "body_fresh", None) is not None:
            self.body_fresh.append(o)
        return o

    def ex_Dict(self, e):
        d = {}
        for k, v in zip(e.keys, e.values):
            d[self.eval(k)] = self.eval(v)
        if getattr(self, "body_fresh", None) is not None:
            self.body_fresh.append(d)
        return d

    def ex_Set(self, e):
        return set(self.eval(x) for x in e.elts)

    def ex_JoinedStr(self, e):
        return Opaque("fstring")

    def ex_UnaryOp(self, e):
        v = self.eval(e.operand)
        if isinstance(e.op, ast.Not):
            return bnot(self.truth(v))
        if isinstance(e.op, ast.USub):
            if isinstance(v, SymArr):
                return self.registry.models.array_binop(self, "*", v, -1)
            return arith("-", 0, v)
        if isinstance(e.op, ast.UAdd):
            return v
        raise Unsupported("unary op")

    def ex_BinOp(self, e):
        op = _BINOPS.get(type(e.op))
        if op is None:
            raise Unsupported("binary operator %s@%d" % (type(e.op).__name__, e.lineno))
        a = self.eval(e.left)
        b = self.eval(e.right)
        return self.binop(op, a, b, e.lineno)

    def binop(self, op, a, b, line=None):
        if isinstance(a, SymArr) or isinstance(b, SymArr) or type(a).__name__ == "MaskedRef" \
                or type(b).__name__ == "MaskedRef":
            return self.registry.models.array_binop(self, op, a, b)
        if isinstance(a, (list, tuple)) and op == "+" and isinstance(b, type(a)):
            return a + b
        if isinstance(a, list) and op == "*":
            return self.registry.models.list_repeat(self, a, b)
        if isinstance(a, str) and isinstance(b, str) and op == "+":
            return a + b
        if isinstance(a, str) and op == "%":
            return Opaque("formatted string")
        if isinstance(a, Obj):
            return self.call_method(a, _DUNDER[op], [b], {}, line)
        if isinstance(b, Obj):
            return self.call_method(b, _RDUNDER[op], [a], {}, line)
        if op in ("//", "%") and (is_z3(b) or is_z3(a)):
            self.oblige("divisor-positive", compare(">", b, 0), "arith", line)
        return arith(op, a, b)

    def ex_BoolOp(self, e):
        vals = []
        isand = isinstance(e.op, ast.And)
        for x in e.values:
            v = self.truth(self.eval(x))
            if not is_z3(v):
                if isand and not v:
                    return band(*vals, False) if vals else False
                if not isand and v:
                    return bor(*vals, True) if vals else True
                continue
            vals.append(v)
        if not vals:
            return isand
        return band(*vals) if isand else bor(*vals)

    def truth(self, v):
        if is_z3(v):
            return V.z3bool(v)
        if isinstance(v, (SymArr, Obj, FuncRef, ClassRef, Opaque, Range)):
            if isinstance(v, Range):
                return compare("<", v.lo, v.hi)
            if isinstance(v, SymArr):
                raise Unsupported("truth value of an array")
            return True
        if isinstance(v, SymList):
            return compare(">", v.length, 0)
        if isinstance(v, V.Fraction):
            return v != 0
        return bool(v)

    def ex_Compare(self, e):
        left = self.eval(e.left)
        res = []
        for op, right_e in zip(e.ops, e.comparators):
            right = self.eval(right_e)
            res.append(self.compare_op(op, left, right, e.lineno))
            left = right
        if len(res) == 1:
            return res[0]
        if any(isinstance(r, SymArr) for r in res):
            raise Unsupported("chained comparison of arrays @%d" % e.lineno)
        return band(*res)

    def compare_op(self, op, a, b, line=None):
        if isinstance(op, (ast.Is, ast.IsNot)):
            if a is None or b is None:
                other = b if a is None else a
                same = other is None
            else:
                same = a is b
            return same if isinstance(op, ast.Is) else not same
        if isinstance(op, (ast.In, ast.NotIn)):
            r = self.contains(b, a, line)
            return r if isinstance(op, ast.In) else bnot(r)
        sym = _CMPOPS[type(op)]
        if isinstance(a, SymArr) or isinstance(b, SymArr):
            return self.registry.models.array_compare(self, sym, a, b)
        if isinstance(a, (list, tuple)) and isinstance(b, (list, tuple)) and sym in ("==", "!="):
            if len(a) != len(b):
                return sym == "!="
            eq = band(*[self.compare_op(ast.Eq(), x, y) for x, y in zip(a, b)])
            return eq if sym == "==" else bnot(eq)
        if isinstance(a, dict) and isinstance(b, dict) and sym in ("==", "!="):
            self.resolve_opt(a)
            self.resolve_opt(b)
            if set(a.keys()) != set(b.keys()):
                return sym == "!="
            eq = band(*[self.compare_op(ast.Eq(), a[k_], b[k_]) for k_ in a.keys()])
            return eq if sym == "==" else bnot(eq)
        if isinstance(a, Obj) and sym in ("==", "!=") and hasattr(a.cls, "lookup") and a is not b:
            r = a.cls.lookup("__eq__")
            if r is not None and r[0] == "method":
                eq = self.truth(self.call_function(r[2], [b], {}, bound=a, line=line))
                return eq if sym == "==" else bnot(eq)
        if (V.sort_of(a) is None and a is not None) or (V.sort_of(b) is None and b is not None):
            if sym in ("==", "!="):
                if isinstance(a, Obj) or isinstance(b, Obj) or isinstance(a, ClassRef) or isinstance(b, ClassRef):
                    same = a is b or (isinstance(a, ClassRef) and isinstance(b, ClassRef) and a.info is b.info)
                    return same if sym == "==" else not same
                if type(a) != type(b):
                    return sym == "!="
            raise Unsupported("comparison of %r and %r" % (a, b))
        return compare(sym, a, b)

    def contains(self, container, item, line=None):
        if isinstance(container, dict):
            self.resolve_opt(container, item)
            if is_z3(item):
                return bor(*[compare("==", item, k) for k in container.keys()
                             if isinstance(k, (str, int)) and V.sort_of(k) == V.sort_of(item)])
            return item in container
        if isinstance(container, (list, tuple, set)):
            return bor(*[self.compare_op(ast.Eq(), item, x) for x in container])
        if isinstance(container, str) and isinstance(item, str):
            return item in container
        if isinstance(container, Range):
            return band(compare("<=", container.lo, item), compare("<", item, container.hi))
        raise Unsupported("membership in %r" % (container,))

    def ex_IfExp(self, e):
        c = self.truth(self.eval(e.test))
        if not is_z3(c):
            return self.eval(e.body if c else e.orelse)
        a = self.eval(e.body)
        b = self.eval(e.orelse)
        return ite(c, a, b)

    def ex_Lambda(self, e):
        fr = self.frames[-1]
        return LambdaVal(e, fr.env, fr)

    def ex_ListComp(self, e):
        if len(e.generators) != 1:
            raise Unsupported("comprehension form @%d" % e.lineno)
        g = e.generators[0]
        it = self.eval(g.iter)
        items = self.iterate_concrete(it, e.lineno)
        out = []
        for x in items:
            self.assign(g.target, x)
            keep = True
            for c in g.ifs:
                t = self.truth(self.eval(c))
                if is_z3(t):
                    raise Unsupported("symbolic filter in a comprehension @%d" % e.lineno)
                keep = keep and t
            if keep:
                out.append(self.eval(e.elt))
        return out

    def ex_GeneratorExp(self, e):
        return self.ex_ListComp(e)

    def iterate_concrete(self, it, line):
        if isinstance(it, Range):
            if not it.concrete():
                raise Unsupported("iteration over symbolic range in expression @%s" % line)
            return list(range(it.lo, it.hi))
        if isinstance(it, (list, tuple)):
            return list(it)
        if isinstance(it, dict):
            self.resolve_opt(it)
            return list(it.keys())
        if isinstance(it, SymArr) and not is_z3(it.shape[0]):
            return [self.getitem(it, k, line) for k in range(it.shape[0])]
        raise Unsupported("iteration over %r @%s" % (it, line))

    def ex_Call(self, e):
        if self._is_printlike(e) and isinstance(e.func, (ast.Name, ast.Attribute)):
            # print-like calls have no modelled effect; still evaluate nothing
            fname = e.func.id if isinstance(e.func, ast.Name) else e.func.attr
            if fname in _PRINTLIKE:
                return None
        f = self.eval(e.func)
        args = []
        for a in e.args:
            if isinstance(a, ast.Starred):
                args.extend(self.iterate_concrete(self.eval(a.value), e.lineno))
            else:
                args.append(self.eval(a))
        kwargs = {}
        for k in e.keywords:
            if k.arg is None:
                kwargs.update(self.eval(k.value))
            else:
                kwargs[k.arg] = self.eval(k.value)
        return self.call(f, args, kwargs, e.lineno)

    # ---------------------------------------------------------------------------------------------
    # calls

    def call(self, f, args, kwargs, line=None):
        if isinstance(f, Builtin):
            self.used_models.add(f.name)
            return f.fn(self, args, kwargs, line)
        if isinstance(f, FuncRef):
            return self.call_function(f.info, args, kwargs, bound=f.bound, line=line, raw=getattr(f, "raw", False))
        if isinstance(f, Closure):
            env = self.bind_args(f.info, args, kwargs)
            env["__closure_parent__"] = f.env
            return self.run_function(f.info, env)
        if isinstance(f, LambdaVal):
            return f.call(self, args, kwargs)
        if isinstance(f, ClassRef):
            return self.instantiate(f.info, args, kwargs, line)
        if isinstance(f, ModRef):
            b = self.registry.models.builtin(f.dotted)
            if b is not None:
                self.used_models.add(b.name)
                return b.fn(self, args, kwargs, line)
            raise Unsupported("call of unmodelled %s @%s" % (f.dotted, line))
        if isinstance(f, Obj):
            return self.call_method(f, "__call__", args, kwargs, line)
        raise Unsupported("call of %r @%s" % (f, line))

    def call_method(self, obj, name, args, kwargs, line=None):
        f = self.getattr(obj, name, line)
        return self.call(f, args, kwargs, line)

    def call_function(self, finfo, args, kwargs, bound=None, line=None, raw=False):
        c = self.registry.contract_for(finfo.qualname)
        if c is not None and c.dispatch is not None:
            env0 = self.bind_args(finfo, args, dict(kwargs), bound)
            c = self.registry.contract_for(finfo.qualname + c.dispatch(env0)) or c
        inl = c.inline(self.registry.under_proof) if (c is not None and callable(c.inline)) else (c.inline if c is not None else False)
        if c is not None and not inl and finfo.qualname != self.registry.under_proof:
            from . import spec
            return spec.apply_contract(self, c, finfo, args, kwargs, bound, line)
        hook = self.registry.models.call_hook(self, finfo, args, kwargs, bound, line)
        if hook is not None:
            return hook[0]
        if _is_generator(finfo.node):
            raise Unsupported("generator function %s @%s" % (finfo.qualname, line))
        cached = False
        for d in finfo.node.decorator_list:
            dn = d.id if isinstance(d, ast.Name) else d.attr if isinstance(d, ast.Attribute) else \
                (d.func.id if isinstance(d, ast.Call) and isinstance(d.func, ast.Name) else
                 getattr(getattr(d, "func", None), "attr", "?"))
            if dn in getattr(self.registry.models, "executable_decorators", ()) and not raw:
                # a wrapper defined in the repository whose real code is executed around the undecorated function
                # (the decorator function is called with the raw function, the returned closure with the arguments)
                fr = Frame(finfo, {}, finfo.module)
                self.frames.append(fr)
                try:
                    deco = self.eval(d)
                finally:
                    self.frames.pop()
                wrapped = self.call(deco, [FuncRef(finfo, raw=True)], {}, line)
                full = ([bound] if bound is not None else []) + list(args)
                return self.call(wrapped, full, dict(kwargs), line)
            if dn in getattr(self.registry.models, "executable_decorators", ()) and raw:
                continue
            if dn in ("lru_cache", "cache"):
                # memoised function: the body is executed (one call = the first call with these arguments) and the
                # returned object is the cached one, shared by every later caller: it must never be mutated
                cached = True
                continue
            if dn not in ("staticmethod", "classmethod", "property", "deprecated"):
                # a decorator may replace the body (runtime dispatch, caching, ...): never inline such a function
                raise Unsupported("call of decorated function %s (@%s) without a contract @%s"
                                  % (finfo.qualname, dn, line))
        env = self.bind_args(finfo, args, dict(kwargs), bound)
        self.used_contracts.add("inlined:" + finfo.qualname)
        res = self.run_function(finfo, env)
        if cached:
            self.freeze(res)
        return res

    def freeze(self, v, depth=0):
        """values handed out by a memoised function"""
        if isinstance(v, (list, dict, SymArr, SymList, Obj)) and depth < 6:
            self.frozen[id(v)] = v
            items = v if isinstance(v, list) else v.values() if isinstance(v, dict) else \
                v.fields.values() if isinstance(v, Obj) else ()
            for x in items:
                self.freeze(x, depth + 1)
        elif isinstance(v, tuple):
            for x in v:
                self.freeze(x, depth + 1)

    def check_not_frozen(self, obj, line=None):
        root = obj
        while isinstance(root, SymArr) and root.base is not None:
            root = root.base
        if id(root) in self.frozen:
            self.oblige("cached-value-not-mutated", False, "aliasing", line)

    def instantiate(self, cinfo, args, kwargs, line=None):
        hook = self.registry.models.instantiate_hook(self, cinfo, args, kwargs, line)
        if hook is not None:
            return hook[0]
        obj = Obj(cinfo)
        r = cinfo.lookup("__init__")
        if r is not None and r[0] == "method":
            self.call_function(r[2], args, kwargs, bound=obj, line=line)
        elif args or kwargs:
            raise Unsupported("constructor arguments without __init__ for %s" % cinfo.name)
        return obj




class SuperProxy:
    def __init__(self, obj, owner):
        self.obj = obj
        self.owner = owner


class DictView:
    """obj.__dict__ : a live view of the instance fields of an Obj"""

    def __init__(self, obj):
        self.obj = obj

    def method(self, ex, name, line):
        if name == "update":
            def upd(ex_, a, k, l):
                src = a[0]
                items = src.obj.fields if isinstance(src, DictView) else src
                for key, val in dict(items).items():
                    ex_.set_field(self.obj, key, val)
                return None
            return Builtin("dict.update", upd)
        if name == "items":
            return Builtin("dict.items", lambda ex_, a, k, l: [(key, val) for key, val in self.obj.fields.items()])
        if name == "keys":
            return Builtin("dict.keys", lambda ex_, a, k, l: list(self.obj.fields.keys()))
        raise Unsupported("__dict__.%s @%s" % (name, line))


class Closure:
    def __init__(self, info, env):
        self.info = info
        self.env = env


class LambdaVal:
    def __init__(self, node, env, frame):
        self.node = node
        self.env = env
        self.frame = frame

    def call(self, ex, args, kwargs):
        names = [a.arg for a in self.node.args.args]
        env = dict(zip(names, args))
        env["__closure_parent__"] = self.env
        fr = Frame(self.frame.finfo, env, self.frame.module)
        fr.imports = self.frame.imports
        ex.frames.append(fr)
        try:
            return ex.eval(self.node.body)
        finally:
            ex.frames.pop()


class PropObj:
    """a `property` object built by a factory in utils/types.py (getter/setter closures)"""

    def __init__(self, fget=None, fset=None):
        self.fget = fget
        self.fset = fset


class PropertyVal:
    """result of evaluating a property-factory call in a class body; models supply get/set"""

    def __init__(self, getter, setter=None):
        self.getter = getter
        self.setter = setter

    def get(self, ex, obj, line):
        return self.getter(ex, obj, line)


def _nested_info(outer, node):
    from .source import FunctionInfo
    return FunctionInfo(outer.module, node, outer=outer)


def _as_load(t):
    t2 = copy.copy(t)
    t2.ctx = ast.Load()
    return t2


def _is_property(node):
    return any(isinstance(d, ast.Name) and d.id == "property" for d in node.decorator_list)


def _is_staticmethod(node):
    return any(isinstance(d, ast.Name) and d.id == "staticmethod" for d in node.decorator_list)


def _is_generator(node):
    for n in ast.walk(node):
        if isinstance(n, (ast.Yield, ast.YieldFrom)):
            return True
    return False


def _mergeable(stmts):
    """syntactic pre-filter for guarded (non-forking) execution of a branch"""
    for st in stmts:
        if isinstance(st, (ast.Assign, ast.AugAssign, ast.Pass)):
            continue
        if isinstance(st, ast.Expr):
            continue
        if isinstance(st, ast.If):
            if _mergeable(st.body) and _mergeable(st.orelse):
                continue
            return False
        return False
    return True


_BINOPS = {ast.Add: "+", ast.Sub: "-", ast.Mult: "*", ast.Div: "/", ast.FloorDiv: "//", ast.Mod: "%",
           ast.Pow: "**", ast.MatMult: "@"}
_CMPOPS = {ast.Eq: "==", ast.NotEq: "!=", ast.Lt: "<", ast.LtE: "<=", ast.Gt: ">", ast.GtE: ">="}
_DUNDER = {"+": "__add__", "-": "__sub__", "*": "__mul__", "/": "__truediv__", "@": "__matmul__",
           "//": "__floordiv__", "%": "__mod__", "**": "__pow__"}
_RDUNDER = {"+": "__radd__", "-": "__rsub__", "*": "__rmul__", "/": "__rtruediv__", "@": "__rmatmul__",
            "//": "__rfloordiv__", "%": "__rmod__", "**": "__rpow__"}
