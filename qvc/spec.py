"""Contracts (sidecar), clause evaluation, modular call rule, per-function verification driver."""
import ast
import copy
import time
import z3

from . import values as V
from .values import (Unsupported, SymArr, SymList, Obj, Range, Cx, Builtin, is_z3, compare, band, bor, bnot, implies,
                     ite, fresh, arith)
from . import symex
from .symex import (Exec, Frame, ReturnSignal, RaiseSignal, PathEnd, Infeasible, MergeAbort, Poison,
                    BreakSignal, ContinueSignal)


class Contract:
    def __init__(self, qualname, setup=None, requires=(), ensures=(), raises=None, modifies=(),
                 result=None, inline=False, loops=None, notes="", ghost=None, pure=False, dispatch=None,
                 expose_locals=(), frame=None):
        self.qualname = qualname
        self.setup = setup              # callable(S) -> dict of symbolic arguments (for proving the function)
        self.requires = list(requires)
        self.ensures = list(ensures)    # list of (name, clause) or clause
        self.raises = raises or {}      # exc name -> dict(when=clause|None, ensures=[clauses])
        self.modifies = list(modifies)
        self.result = result            # callable(S, env) -> symbolic result (for call sites)
        self.inline = inline
        self.loops = loops or {}        # ordinal -> dict(inv=[...], modifies=[...])
        self.notes = notes
        self.ghost = ghost              # callable(S, env): adds ghost names to the clause environment
        self.pure = pure
        self.dispatch = dispatch        # callable(bound args) -> variant suffix selecting the contract at call sites
        self.native_ghost = ""          # python source defining ghost(env) for the native replay
        # locals of the function at its (normal) exit made visible to the postconditions of the *proof* as
        # local_<name> (ghost access for guided clauses: never part of the contract seen by callers)
        self.expose_locals = tuple(expose_locals)
        # frame condition: dict(roots=[argument names], allow=[paths such as "self.data"]): every object reachable
        # from the roots at entry is unchanged at (normal) exit - same field values, same cells, same list / dict
        # contents - except below the allowed paths
        self.frame = frame

    def named(self, clauses, prefix):
        """[(name, clause text)]; guided clauses (name, body, {forall: {v: range}, use: [...]}) are rendered as the
        quantified clause they stand for"""
        out = []
        for k, c in enumerate(clauses):
            if isinstance(c, tuple) and len(c) == 3:
                out.append((c[0], guided_text(c)))
            elif isinstance(c, tuple):
                out.append(c)
            else:
                out.append(("%s%d" % (prefix, k), c))
        return out

    def guided(self, name):
        for c in self.ensures:
            if isinstance(c, tuple) and len(c) == 3 and c[0] == name:
                return c
        return None


def guided_text(c):
    name, body, g = c
    fa = g.get("forall") or {}
    if not fa:
        return body
    vs = list(fa.keys())
    if len(vs) == 1:
        return "forall(%s, %s, %s)" % (vs[0], fa[vs[0]], body)
    return "forall((%s), (%s), %s)" % (", ".join(vs), ", ".join(fa[v] for v in vs), body)


class Registry:
    def __init__(self, repo, models):
        self.repo = repo
        self.models = models
        self.contracts = {}
        self.under_proof = None

    def add(self, c):
        self.contracts[c.qualname] = c
        return c

    def contract_for(self, qualname):
        return self.contracts.get(qualname)

    def loop_spec(self, qualname, ordinal):
        pc = getattr(self, "proof_contract", None)
        if pc is not None and pc.qualname.split("#")[0] == qualname:
            return pc.loops.get(ordinal)
        c = self.contracts.get(qualname)
        if c is None:
            return None
        return c.loops.get(ordinal)


class S:
    """symbol factory handed to contract setups; names are stable across path re-executions"""

    def __init__(self, ex, fixed=None):
        self.ex = ex
        self.leaves = {}
        self.fixed = dict(fixed or {})       # bounded mode: size symbols fixed to small concrete values

    def _reg(self, name, v):
        self.leaves[name] = v
        return v

    def int(self, name):
        if name in self.fixed:
            return self._reg(name, self.fixed[name])
        return self._reg(name, z3.Int(name))

    def real(self, name):
        return self._reg(name, z3.Real(name))

    def bool(self, name):
        return self._reg(name, z3.Bool(name))

    def str(self, name):
        return self._reg(name, z3.String(name))

    def cx(self, name):
        return Cx(self.real(name + "_re"), self.real(name + "_im"))

    def array(self, name, shape, dtype="real"):
        re = V.mk_array_const(name, len(shape), "real" if dtype == "cx" else dtype)
        im = V.mk_array_const(name + "_im", len(shape), "real") if dtype == "cx" else None
        a = SymArr(shape, dtype, re=re, im=im, name=name)
        self.leaves[name] = a
        return a

    def symlist(self, name, length, width=None, dtype="int"):
        n = 1 if width is None else width
        comps = [V.mk_array_const("%s_%d" % (name, k), 1, dtype) for k in range(n)]
        l = SymList(length, width, dtype, comps=comps, name=name)
        self.leaves[name] = l
        return l

    def fresh_int(self, prefix="v"):
        return fresh(prefix, z3.IntSort())

    def fresh_real(self, prefix="v"):
        return fresh(prefix, z3.RealSort())

    def fresh_symlist(self, length, width=None, dtype="int", prefix="lst"):
        return SymList(length, width, dtype, name=prefix)

    def fresh_array(self, shape, dtype="real", prefix="arr"):
        return SymArr(shape, dtype, name=prefix)

    def singleton(self, name, obj):
        self.ex.globals_heap[name] = obj
        return obj

    def obj(self, cls, label=None, **fields):
        if isinstance(cls, str) and "::" in cls:
            cls = self.ex.repo.cls(cls)
        o = Obj(cls, fields, label=label)
        if label:
            self.leaves[label] = o
        return o


# --------------------------------------------------------------------------------------------------
# snapshots for old(...) / entry(...)

def snapshot_value(v, memo):
    k = id(v)
    if k in memo:
        return memo[k]
    if isinstance(v, SymArr):
        if v.base is not None:
            nb = snapshot_value(v.base, memo)
            c = SymArr(v.shape, v.dtype, base=nb, imap=v.imap, name=v.name)
        else:
            c = SymArr(v.shape, v.dtype, re=v.re, im=v.im, name=v.name)
        memo[k] = c
        return c
    if isinstance(v, SymList):
        c = SymList(v.length, v.width, v.dtype, comps=list(v.comps))
        memo[k] = c
        return c
    if isinstance(v, Obj):
        c = Obj(v.cls, label=v.label)
        memo[k] = c
        for f, x in v.fields.items():
            c.fields[f] = snapshot_value(x, memo)
        return c
    if isinstance(v, list):
        c = []
        memo[k] = c
        c.extend(snapshot_value(x, memo) for x in v)
        return c
    if isinstance(v, dict):
        c = V.OptDict(maybe=v.maybe) if isinstance(v, V.OptDict) else {}
        memo[k] = c
        for a, b in v.items():
            c[a] = snapshot_value(b, memo)
        return c
    if isinstance(v, tuple):
        return tuple(snapshot_value(x, memo) for x in v)
    return v


def frame_obligations(ex, env, old, frame, tag):
    """one obligation per field / array / container reachable from the frame roots at entry: unchanged at exit"""
    memo = old.get("__memo__", {})
    allow = list(frame.get("allow", ()))
    seen = set()

    def allowed(path):
        return any(path == a or path.startswith(a + ".") or path.startswith(a + "[") for a in allow)

    def same_scalar(cur, snap, path):
        if cur is snap:
            return
        if is_z3(cur) or is_z3(snap) or isinstance(cur, Cx) or isinstance(snap, Cx):
            try:
                f = compare("==", cur, snap)
            except Unsupported:
                f = False
            ex.oblige("frame:%s:%s" % (tag, path), V.z3bool(f) if is_z3(f) else bool(f), "frame")
        elif cur != snap:
            ex.oblige("frame:%s:%s" % (tag, path), False, "frame")

    def walk(cur, path):
        if allowed(path):
            return
        if isinstance(cur, (Obj, SymArr, SymList, list, dict)):
            if id(cur) in seen:
                return
            seen.add(id(cur))
            snap = memo.get(id(cur))
            if snap is None:
                return          # created during the call: not part of the entry heap
        else:
            return
        if isinstance(cur, SymArr):
            a, b = cur.terms(), snap.terms()
            same = all((x is None and y is None) or (x is not None and y is not None and x.eq(y)) for x, y in zip(a, b))
            if not same:
                xs = [fresh("f", z3.IntSort()) for _ in cur.shape]
                ca, cb = Cx.of(cur.get(xs)), Cx.of(snap.get(xs))
                rng = z3.And(*[z3.And(0 <= v, v < V.z3int(n_)) for v, n_ in zip(xs, cur.shape)]) if xs else z3.BoolVal(True)
                eq = z3.And(V.z3real(ca.re) == V.z3real(cb.re), V.z3real(ca.im) == V.z3real(cb.im))
                ex.oblige("frame:%s:%s" % (tag, path), V.canon_quant(xs, z3.Implies(rng, eq)) if xs else eq, "frame")
            return
        if isinstance(cur, Obj):
            for f_, sv in snap.fields.items():
                if allowed(path + "." + f_):
                    continue
                if f_ not in cur.fields:
                    ex.oblige("frame:%s:%s.%s" % (tag, path, f_), False, "frame")
                    continue
                cv = cur.fields[f_]
                if isinstance(sv, (Obj, SymArr, SymList, list, dict)):
                    if memo.get(id(cv)) is not sv:
                        ex.oblige("frame:%s:%s.%s" % (tag, path, f_), False, "frame")     # re-bound to another object
                    walk(cv, path + "." + f_)
                elif not isinstance(sv, (Builtin, symex.Poison)) and not callable(sv):
                    same_scalar(cv, sv, path + "." + f_)
            for f_ in cur.fields:
                if f_ not in snap.fields and not allowed(path + "." + f_):
                    ex.oblige("frame:%s:%s.%s" % (tag, path, f_), False, "frame")          # attribute added
            return
        if isinstance(cur, list):
            if len(cur) != len(snap):
                ex.oblige("frame:%s:%s" % (tag, path), False, "frame")
                return
            for k_, (cv, sv) in enumerate(zip(cur, snap)):
                if isinstance(sv, (Obj, SymArr, SymList, list, dict)):
                    if memo.get(id(cv)) is not sv:
                        ex.oblige("frame:%s:%s[%d]" % (tag, path, k_), False, "frame")
                    walk(cv, "%s[%d]" % (path, k_))
                else:
                    same_scalar(cv, sv, "%s[%d]" % (path, k_))
            return
        if isinstance(cur, dict):
            if set(cur.keys()) != set(snap.keys()):
                ex.oblige("frame:%s:%s" % (tag, path), False, "frame")
                return
            for k_ in cur:
                cv, sv = cur[k_], snap[k_]
                if isinstance(sv, (Obj, SymArr, SymList, list, dict)):
                    if memo.get(id(cv)) is not sv:
                        ex.oblige("frame:%s:%s[%r]" % (tag, path, k_), False, "frame")
                    walk(cv, "%s[%r]" % (path, k_))
                else:
                    same_scalar(cv, sv, "%s[%r]" % (path, k_))
    n0 = len(ex.obligations)
    for r in frame.get("roots", ()):
        if r in env:
            walk(env[r], r)
    if len(ex.obligations) == n0:
        # nothing reachable changed syntactically: recorded as one (trivially true) obligation so that the frame
        # is visible in the evidence
        ex.oblige("frame:%s:all-reachable-state-untouched" % tag, True, "frame")


def snapshot_env(env, extra_roots=()):
    memo = {}
    out = {}
    for k, v in env.items():
        if k == "__closure_parent__":
            out[k] = v
        else:
            out[k] = snapshot_value(v, memo)
    out["__memo__"] = memo
    for r in extra_roots:
        snapshot_value(r, memo)
    return out


# --------------------------------------------------------------------------------------------------
# clause evaluation (Python expression syntax + spec forms)

class ClauseExec:
    """evaluates a clause string with the same expression translator as the code"""

    def __init__(self, ex, env, old_env=None, entry_env=None, module=None, pre_env=None):
        self.ex = ex
        self.env = env
        self.old_env = old_env
        self.entry_env = entry_env
        self.pre_env = pre_env
        self.module = module

    def run(self, text):
        tree = ast.parse(text.strip(), mode="eval").body
        ex = self.ex
        fr = Frame(ex.frames[-1].finfo if ex.frames else None, self.env,
                   self.module or (ex.frames[-1].module if ex.frames else None))
        if ex.frames:
            fr.imports = ex.frames[-1].imports
        ex.frames.append(fr)
        saved = (ex.probe, getattr(ex, "clause_ctx", None))
        ex.probe = True            # clauses generate no obligations of their own
        ex.clause_ctx = self
        try:
            return ex.eval(tree)
        finally:
            ex.probe, ex.clause_ctx = saved
            ex.frames.pop()


def eval_clause(ex, text, extra=None, old=None, entry=None, env=None, pre=None):
    base = dict(env if env is not None else ex.frames[-1].env)
    if extra:
        base.update(extra)
    ce = ClauseExec(ex, base, old_env=old, entry_env=entry, pre_env=pre)
    v = ce.run(text)
    if is_z3(v):
        return V.z3bool(v)
    if isinstance(v, (list, tuple)):
        return band(*[V.z3bool(x) if is_z3(x) else bool(x) for x in v])
    return bool(v)


def _spec_forall(ex, e, exists=False):
    # forall(i, range(lo,hi), body)  |  forall((i,j), (range, range), body)
    if len(e.args) != 3:
        raise Unsupported("forall(var, range, body)")
    names = [e.args[0].id] if isinstance(e.args[0], ast.Name) else [x.id for x in e.args[0].elts]
    rngs = [e.args[1]] if isinstance(e.args[0], ast.Name) else list(e.args[1].elts)
    env = ex.frames[-1].env
    saved = {n: env.get(n, symex._MISSING) for n in names}
    vs = []
    conds = []
    if not hasattr(ex, "_qvars"):
        ex._qvars = []
    ex._qvars.extend(names)
    try:
        for n, r in zip(names, rngs):
            v = fresh(n, z3.IntSort())
            env[n] = v
            vs.append(v)
            if isinstance(r, ast.Name) and r.id == "ints":
                continue            # all integers
            rv = ex.eval(r)
            if not isinstance(rv, Range):
                raise Unsupported("quantifier domain must be a range")
            conds.append(band(compare("<=", rv.lo, v), compare("<", v, rv.hi)))
        body = ex.truth(ex.eval(e.args[2]))
    finally:
        del ex._qvars[len(ex._qvars) - len(names):]
        for n, o in saved.items():
            if o is symex._MISSING:
                env.pop(n, None)
            else:
                env[n] = o
    dom = band(*conds) if conds else True
    if exists:
        f = band(dom, body)
        f = f if is_z3(f) else z3.BoolVal(bool(f))
        return V.canon_quant(vs, f, exists=True)
    f = implies(dom, body)
    f = f if is_z3(f) else z3.BoolVal(bool(f))
    return V.canon_quant(vs, f)


def _spec_old(ex, e, which):
    ctx = ex.clause_ctx
    env = ctx.old_env if which == "old" else ctx.entry_env if which == "entry" else ctx.pre_env
    if env is None:
        raise Unsupported("%s() outside a postcondition/invariant" % which)
    cur = ex.frames[-1].env
    merged = dict(cur)
    merged.update((k, v) for k, v in env.items() if k != "__memo__")
    for k in getattr(ex, "_qvars", ()):
        if k in cur:
            merged[k] = cur[k]
    fr = Frame(ex.frames[-1].finfo, merged, ex.frames[-1].module)
    fr.imports = ex.frames[-1].imports
    ex.frames.append(fr)
    try:
        return ex.eval(e.args[0])
    finally:
        ex.frames.pop()


SPEC_FORMS = {"forall", "exists", "implies", "old", "entry", "pre", "ite", "Sum", "iff"}


def spec_call(ex, e):
    """spec forms handled at AST level; returns (True, value) when e is one"""
    if not isinstance(e.func, ast.Name) or e.func.id not in SPEC_FORMS:
        return False, None
    if getattr(ex, "clause_ctx", None) is None:
        return False, None
    name = e.func.id
    if name == "forall":
        return True, _spec_forall(ex, e)
    if name == "exists":
        return True, _spec_forall(ex, e, exists=True)
    if name == "implies":
        a = ex.truth(ex.eval(e.args[0]))
        if a is False:
            return True, True
        if is_z3(a) and not ex.feasible(a):
            # antecedent excluded by the path condition: the consequent may not even be evaluable
            return True, True
        b = ex.truth(ex.eval(e.args[1]))
        return True, implies(a, b)
    if name == "iff":
        a = ex.truth(ex.eval(e.args[0]))
        b = ex.truth(ex.eval(e.args[1]))
        return True, band(implies(a, b), implies(b, a))
    if name == "ite":
        c = ex.truth(ex.eval(e.args[0]))
        a = ex.eval(e.args[1])
        b = ex.eval(e.args[2])
        return True, ite(c, a, b)
    if name in ("old", "entry", "pre"):
        return True, _spec_old(ex, e, name)
    if name == "Sum":
        from . import sums
        return True, sums.spec_sum(ex, e)
    raise Unsupported("spec form " + name)


# hook the spec forms into the expression evaluator
_orig_ex_Call = Exec.ex_Call


def _ex_Call(self, e):
    ok, v = spec_call(self, e)
    if ok:
        return v
    return _orig_ex_Call(self, e)


Exec.ex_Call = _ex_Call


# --------------------------------------------------------------------------------------------------
# modular call rule

def apply_contract(ex, c, finfo, args, kwargs, bound, line):
    """requires -> obligation; modifies -> havoc; ensures -> assumption"""
    env = ex.bind_args(finfo, args, dict(kwargs), bound)
    ex.used_contracts.add(c.qualname)
    sfac = S(ex)
    if c.ghost:
        c.ghost(sfac, env)
    cenv = dict(env)
    mod = finfo.module
    for k, (nm, cl) in enumerate(c.named(c.requires, "requires")):
        ce = ClauseExec(ex, dict(cenv), module=mod)
        f = ce.run(cl)
        f = V.z3bool(f) if is_z3(f) else bool(f)
        ex.oblige("call-requires:%s:%s" % (finfo.name, nm), f, "call-precondition", line)
        ex.assume(f)
    old = snapshot_env(cenv)
    # exceptional outcomes
    for exc, rs in c.raises.items():
        when = rs.get("when")
        if when is None:
            continue
        w = ClauseExec(ex, dict(cenv), module=mod).run(when)
        w = V.z3bool(w) if is_z3(w) else bool(w)
        if ex.branch(w, line):
            _havoc_modifies(ex, c, rs.get("modifies", c.modifies), cenv, mod)
            for cl in rs.get("ensures", []):
                f = ClauseExec(ex, dict(cenv), old_env=old, module=mod).run(cl)
                ex.assume(V.z3bool(f) if is_z3(f) else bool(f))
            raise RaiseSignal(exc, line=line)
    _havoc_modifies(ex, c, c.modifies, cenv, mod)
    result = None
    if c.result is not None:
        result = c.result(sfac, cenv)
    cenv["result"] = result
    for (nm, cl) in c.named(c.ensures, "ensures"):
        f = ClauseExec(ex, dict(cenv), old_env=old, module=mod).run(cl)
        ex.assume(V.z3bool(f) if is_z3(f) else bool(f))
    return result


def _havoc_modifies(ex, c, modifies, cenv, mod):
    from . import loops
    fr = Frame(None, cenv, mod)
    ex.frames.append(fr)
    try:
        mods = loops.modified_targets(ex, [], modifies)
        # an attribute target `obj.f` names a field; a bare name of an array means its contents
        mods = [m for m in mods if m[0] != "name"]
        loops.havoc(ex, mods)
    finally:
        ex.frames.pop()


# --------------------------------------------------------------------------------------------------
# proving one function against its contract

class FunctionReport:
    def __init__(self, finfo):
        self.qualname = finfo.qualname
        self.file = finfo.module.relpath
        self.line = finfo.lineno
        self.sha256 = finfo.sha256
        self.paths = 0
        self.obligations = []
        self.notes = []
        self.unsupported = []
        self.used_models = set()
        self.used_contracts = set()
        self.used_lemmas = set()
        self.leaves = {}
        self.path_summaries = []


def loops_mod():
    from . import loops
    return loops


def verify_function(repo, registry, qualname, max_paths=400, post_hooks=(), fixed=None):
    """symbolically executes every path of the function under its `requires`, collecting obligations:
    internal (bounds, divisors, callee preconditions, loop invariants) and the contract's ensures/raises."""
    c = registry.contract_for(qualname)
    base_q = qualname.split("#")[0]
    finfo = repo.function(base_q)
    rep = FunctionReport(finfo)
    rep.qualname = qualname
    work = [[]]
    seen_notes = set()
    registry.dtype_hints = {}
    restarts = 0
    while work:
        trace = work.pop()
        rep.paths += 1
        if rep.paths > max_paths:
            rep.unsupported.append("path budget exceeded (%d)" % max_paths)
            break
        V._counter = __import__("itertools").count()     # deterministic symbol names per path
        ex = Exec(repo, registry, trace)
        ex.fixed_mode = bool(fixed)
        ex.proof_label = qualname
        registry.under_proof = base_q
        registry.proof_contract = c
        sfac = S(ex, fixed)
        try:
            args = c.setup(sfac)
        except Unsupported as u:
            rep.unsupported.append("setup: %s" % u)
            break
        rep.leaves = sfac.leaves
        env = dict(args)
        if c.ghost:
            c.ghost(sfac, env)
        fr0 = Frame(finfo, env, finfo.module)
        ex.frames.append(fr0)
        outcome = None
        try:
            for (nm, cl) in c.named(c.requires, "requires"):
                f = eval_clause(ex, cl, env=env)
                ex.assume(f)
            if not ex.feasible(z3.BoolVal(True)):
                raise Infeasible()
            old = snapshot_env(env, extra_roots=list(ex.globals_heap.values()))
            memo = old.get("__memo__", {})
            rep.leaves = dict(sfac.leaves)
            rep.leaves["__args__"] = {k: v for k, v in old.items() if k not in ("__memo__",)}
            rep.leaves["__singletons__"] = {k: memo.get(id(v), v) for k, v in ex.globals_heap.items()}
            rep.leaves["__params__"] = [p_[0] for p_ in finfo.params()[0] if p_[0] in env]
            ex.frames.pop()
            try:
                body_env = dict((k, v) for k, v in env.items())
                result = ex.run_function(finfo, body_env)
                outcome = ("return", result)
            except RaiseSignal as r:
                outcome = ("raise", r)
            except PathEnd:
                outcome = ("pathend", None)
            ex.frames.append(Frame(finfo, env, finfo.module))
            tag = qualname.split("::")[1]
            if outcome[0] == "return":
                cenv = dict(env)
                cenv["result"] = outcome[1]
                for ln in c.expose_locals:
                    if ln in getattr(ex, "exit_env", {}):
                        cenv["local_" + ln] = ex.exit_env[ln]
                if c.ghost:
                    c.ghost(sfac, cenv)      # ghost names may depend on what the execution recorded
                for (nm, cl) in c.named(c.ensures, "ensures"):
                    g = c.guided(nm)
                    if g is not None:
                        # guided clause: skolemise the quantified variables, add the requested lemma instances
                        k0 = len(ex.pc)
                        genv = dict(cenv)
                        ex.frames.append(Frame(finfo, genv, finfo.module))
                        try:
                            for v, rng in (g[2].get("forall") or {}).items():
                                sk = fresh(v, z3.IntSort())
                                genv[v] = sk
                                r = ClauseExec(ex, dict(genv), old_env=old, module=finfo.module).run(rng)
                                ex.assume(band(compare("<=", r.lo, sk), compare("<", sk, r.hi)))
                            ex.frames[-1].env = genv
                            for (lname, bindings) in g[2].get("use", ()):
                                use_lemma(ex, lname, bindings, old=old)
                            f = ClauseExec(ex, dict(genv), old_env=old, module=finfo.module).run(g[1])
                            f = V.z3bool(f) if is_z3(f) else bool(f)
                            ex.oblige("post:%s:%s" % (tag, nm), f, "postcondition")
                        finally:
                            ex.frames.pop()
                            del ex.pc[k0:]
                        continue
                    f = ClauseExec(ex, dict(cenv), old_env=old, module=finfo.module).run(cl)
                    f = V.z3bool(f) if is_z3(f) else bool(f)
                    ex.oblige("post:%s:%s" % (tag, nm), f, "postcondition")
                for exc, rs in c.raises.items():
                    if rs.get("when") is not None and rs.get("iff", True):
                        w = ClauseExec(ex, dict(old), module=finfo.module).run(rs["when"])
                        w = V.z3bool(w) if is_z3(w) else bool(w)
                        ex.oblige("no-raise-unless:%s:%s" % (tag, exc), bnot(w), "exceptional-postcondition")
                if c.frame:
                    frame_obligations(ex, env, old, c.frame, tag)
                for h in post_hooks:
                    h(ex, cenv, old, outcome)
            elif outcome[0] == "raise":
                r = outcome[1]
                rs = c.raises.get(r.exc_type)
                if rs is None:
                    ex.oblige("unexpected-raise:%s:%s" % (tag, r.exc_type), False,
                              "exceptional-postcondition", r.line)
                else:
                    cenv = dict(env)
                    if rs.get("when") is not None:
                        w = ClauseExec(ex, dict(old), module=finfo.module).run(rs["when"])
                        w = V.z3bool(w) if is_z3(w) else bool(w)
                        ex.oblige("raise-only-when:%s:%s" % (tag, r.exc_type), w,
                                  "exceptional-postcondition", r.line)
                    for k, cl in enumerate(rs.get("ensures", [])):
                        f = ClauseExec(ex, dict(cenv), old_env=old, module=finfo.module).run(cl)
                        f = V.z3bool(f) if is_z3(f) else bool(f)
                        ex.oblige("raise-post:%s:%s:%d" % (tag, r.exc_type, k), f,
                                  "exceptional-postcondition", r.line)
            rep.path_summaries.append({"decisions": list(ex.decisions), "outcome": outcome[0]})
        except Infeasible:
            pass
        except PathEnd:
            pass        # a ghost call ended this path (e.g. the body path of an invariant loop inside a reference call)
        except loops_mod().RestartFunction as rs:
            registry.under_proof = None
            registry.proof_contract = None
            restarts += 1
            if restarts > 16:
                rep.unsupported.append("too many restarts: %s" % rs)
                break
            rep = FunctionReport(finfo)
            rep.qualname = qualname
            work = [[]]
            seen_notes = set()
            continue
        except (Unsupported, MergeAbort) as u:
            rep.unsupported.append("%s" % u)
        except (BreakSignal, ContinueSignal):
            rep.unsupported.append("break/continue outside loop")
        finally:
            registry.under_proof = None
            registry.proof_contract = None
        for ob_ in ex.obligations:
            ob_.meta.setdefault("function", qualname)
            ob_.meta.setdefault("contract", {
                "requires": [list(x) for x in c.named(c.requires, "requires")],
                "ensures": [list(x)[:2] for x in c.named(c.ensures, "ensures")],
                "raises": {k: v.get("when") for k, v in c.raises.items()},
                "native_ghost": getattr(c, "native_ghost", "")})
        rep.obligations.extend(ex.obligations)
        for n in ex.notes:
            key = (n["loop"], n["handled"])
            if key not in seen_notes:
                seen_notes.add(key)
                rep.notes.append(n)
        rep.used_models |= ex.used_models
        rep.used_contracts |= ex.used_contracts
        rep.used_lemmas |= getattr(ex, "used_lemmas", set())
        work.extend(ex.forks)
    return rep


# --------------------------------------------------------------------------------------------------
# property-level lemmas over contract clauses (no code involved: hypotheses are contract clauses)

def clause_lemma(ctx, name, setup, hyps, goals, where="lemma", use=()):
    """obligations  hyps |- goal_i  with all clauses evaluated over the symbolic environment `setup(S)`;
    `use`: instances (lemma name, bindings) of Lean-proved library lemmas added to the hypotheses"""
    V._counter = __import__("itertools").count(10**6)
    ex = Exec(ctx.repo, ctx.registry)
    sfac = S(ex)
    env = setup(sfac)
    fr = Frame(None, env, None)
    ex.frames.append(fr)
    # facts assumed while the set-up executed real code (postconditions of callee contracts applied at call sites,
    # explicit assumptions of the set-up) are hypotheses of the lemma: the values in `env` were computed under them
    hs = [h for h in ex.pc if is_z3(h)]
    pre_obs = []
    for h in hyps:
        cl = h[1] if isinstance(h, tuple) else h
        hs.append(eval_clause(ex, cl, env=env))
    ex.pc = [h for h in hs if is_z3(h)]
    for (lname, bindings) in use:
        k0 = len(ex.pc)
        use_lemma(ex, lname, bindings)
        hs.extend(ex.pc[k0:])
        ctx.used_lemmas = set(getattr(ctx, "used_lemmas", ())) | {lname}
    pre_obs = list(ex.obligations)
    for ob_ in pre_obs:
        ob_.name = "lemma:%s:%s" % (name, ob_.name)
        ob_.where = where
        ob_.meta["leaves"] = sfac.leaves
    out = []
    for g in goals:
        nm, cl = g if isinstance(g, tuple) else ("goal", g)
        try:
            f = eval_clause(ex, cl, env=env)
        except symex.RaiseSignal as r_:
            # the clause itself cannot be evaluated on what the code produced (a key / attribute it speaks about is
            # missing): the goal does not hold
            ex.notes.append({"goal": nm, "raised": r_.exc_type})
            f = False
        f = f if is_z3(f) else z3.BoolVal(bool(f))
        ob = symex.Obligation("lemma:%s:%s" % (name, nm), [h for h in hs if is_z3(h)], f, "lemma", where,
                              meta={"leaves": sfac.leaves})
        out.append(ob)
    return pre_obs + out


# --------------------------------------------------------------------------------------------------
# instances of Lean-proved lemmas

def use_lemma(ex, name, bindings, extra=None, entry=None, pre=None, old=None):
    """assume an instance of a lemma of qvc.lemmalib (proved by Lean on every run that uses it):
    the lemma's formal names are bound to the values of the given expressions in the current state"""
    from . import lemmalib
    lem = lemmalib.LEMMAS[name]
    env = {}
    for formal, expr in bindings.items():
        ce = ClauseExec(ex, dict(ex.frames[-1].env, **(extra or {})), old_env=old, entry_env=entry, pre_env=pre)
        env[formal] = ce.run(expr)
    missing = [f for f in lem["types"] if f not in env]
    if missing:
        raise Unsupported("lemma %s: unbound formals %s" % (name, missing))
    fr = Frame(ex.frames[-1].finfo, env, ex.frames[-1].module)
    ex.frames.append(fr)
    try:
        hs = [eval_clause(ex, (h[1] if isinstance(h, tuple) else h), env=env) for h in lem["hyps"]]
        c = eval_clause(ex, lem["concl"], env=env)
    finally:
        ex.frames.pop()
    known = set(h.get_id() for h in ex.pc if is_z3(h))
    names = [(h[0] if isinstance(h, tuple) else "h%d" % k) for k, h in enumerate(lem["hyps"])]
    was_probe = ex.probe
    ex.probe = False
    try:
        for nm, h in zip(names, hs):
            if is_z3(h) and h.get_id() in known:
                continue
            if h is True:
                continue
            # each hypothesis of the lemma instance is its own obligation at this program point; the conclusion is
            # then available as a plain fact (keeps the solver queries small)
            ex.oblige("lemma-hyp:%s:%s" % (name, nm), h if is_z3(h) else z3.BoolVal(bool(h)), "lemma-hypothesis",
                      getattr(ex, "_cur_line", None))
    finally:
        ex.probe = was_probe
    # conjunctions are assumed conjunct by conjunct (later hypotheses are then recognised syntactically)
    stack = [c]
    while stack:
        f = stack.pop()
        if is_z3(f) and z3.is_and(f):
            stack.extend(reversed(f.children()))
        else:
            ex.assume(f)
    if not hasattr(ex, "used_lemmas"):
        ex.used_lemmas = set()
    ex.used_lemmas.add(name)
