"""python3-vt -m qvc.debug <pid> <function-substring> <obligation-substring> [noax]  -- inspect one obligation"""
import sys, time, importlib, os
VERIF = os.path.dirname(os.path.dirname(os.path.abspath(__file__)))
sys.path.insert(0, VERIF)
import z3
from qvc import main, spec, sums, smt

pid, fsub, osub = sys.argv[1:4]
flags = sys.argv[4:]
ctx = main.Ctx(pid, "quick", 0)
mod = importlib.import_module("props." + pid)
plan = mod.plan(ctx)
for q in plan.functions:
    if fsub not in q:
        continue
    rep = spec.verify_function(ctx.repo, ctx.registry, q)
    print(q, "paths", rep.paths, "obl", len(rep.obligations), "unsupported", rep.unsupported)
    for ob in rep.obligations:
        if osub not in ob.name:
            continue
        print("==", ob.name, ob.where)
        if "show" in flags:
            for h in ob.hyps:
                print("  HYP", h.sexpr()[:1500])
            print("  GOAL", ob.goal.sexpr()[:3000])
        if "solve" in flags:
            ctx.models = ctx.registry.models
            axp = list(plan.extra_axioms)
            for rep_ in range(3):
                smt._OBS = [(ob, (axp, sums.sum_axioms()), rep.leaves)]
                t = time.time()
                if "profile" in flags:
                    import cProfile, pstats
                    pr = cProfile.Profile(); pr.enable()
                r = smt._solve(0)
                if "profile" in flags:
                    pr.disable()
                    if time.time() - t > 10:
                        pstats.Stats(pr).sort_stats("cumulative").print_stats(18)
                print("   _solve ->", r[1], "%.2fs" % (time.time() - t), r[4], (r[5] or "")[:200])
            continue
        for ax in ([False, True] if "both" in flags else ["noax" not in flags]):
            s = z3.Solver()
            s.set("timeout", 30000)
            for h in ob.hyps:
                s.add(h)
            goal, sks = smt.skolemize_goal(ob.goal)
            if ax:
                for a in sums.sum_axioms():
                    s.add(a)
                for a in smt.sum_succ_instances([goal]):
                    s.add(a)
            for a in smt.manual_instances(ob.hyps, goal, sks):
                s.add(a)
            s.add(z3.Not(goal))
            t = time.time()
            r = s.check()
            print("   axioms=%s -> %s %.2fs %s" % (ax, r, time.time() - t, s.reason_unknown() if r == z3.unknown else ""))
            if r == z3.sat and "model" in flags:
                print(smt.extract_model(s.model(), rep.leaves))
