"""Library of generic finite-sum / algebra lemmas.  Each lemma is stated in the contract clause language; Lean
proves it (for all sizes and all values) on every run that uses it, and the executor may assume *instances* of
it (`use_pre` / `use_post` in loop specs, `use` in lemma obligations) with the formal names bound to program
values.  The clause text is the single source for both the Lean statement and the SMT instance."""
from . import lean

LEMMAS = {}


def lemma(name, types, hyps, concl, proof):
    LEMMAS[name] = dict(types=types, hyps=hyps, concl=concl, proof=proof)


def job(name):
    l = LEMMAS[name]
    return lean.bridge_lemma(name, l["types"], l["hyps"], l["concl"], l["proof"])


# ---- population step: columns of K sum to zero => one Taylor term does not change the total ----------------
lemma("pop_step",
      types={"n": "int", "K": "arr2", "r1": "arr1", "r2": "arr1", "c": "real"},
      hyps=[("hcol", "forall(j, range(0, n), Sum(i, range(0, n), K[i,j]) == 0)")],
      concl="Sum(i, range(0, n), r2[i] + c*Sum(j, range(0, n), K[i,j]*r1[j])) == Sum(i, range(0, n), r2[i])"
            " and Sum(i, range(0, n), c*Sum(j, range(0, n), K[i,j]*r1[j])) == 0",
      proof="""
have hz : ∑ i ∈ Finset.Ico (0:ℤ) n, ∑ j ∈ Finset.Ico (0:ℤ) n, K i j * r1 j = 0 := by
  rw [Finset.sum_comm]
  apply Finset.sum_eq_zero
  intro j hj
  rw [← Finset.sum_mul, hcol j (Finset.mem_Ico.mp hj).1 (Finset.mem_Ico.mp hj).2, zero_mul]
have hz2 : ∑ i ∈ Finset.Ico (0:ℤ) n, c * ∑ j ∈ Finset.Ico (0:ℤ) n, K i j * r1 j = 0 := by
  rw [← Finset.mul_sum, hz, mul_zero]
constructor
· rw [Finset.sum_add_distrib, hz2, add_zero]
· exact hz2
""")


# ---- RateMatrix.set_rate keeps every column sum ---------------------------------------------------------------
lemma("set_rate_colsum",
      types={"n": "int", "N": "int", "M": "int", "D": "arr2", "D_old": "arr2"},
      hyps=[("hN", "0 <= N and N < n"), ("hM", "0 <= M and M < n"), ("hNM", "N != M"),
            ("h_others", "forall((i, j), (range(0, n), range(0, n)), "
                         "implies(not ((i == N and j == M) or (i == M and j == M)), D[i,j] == D_old[i,j]))"),
            ("h_comp", "D[M,M] + D[N,M] == D_old[M,M] + D_old[N,M]")],
      concl="forall(j, range(0, n), Sum(i, range(0, n), D[i,j]) == Sum(i, range(0, n), D_old[i,j]))",
      proof="""
intro j hj0 hjn
by_cases hj : j = M
· subst hj
  have hNm : N ∈ Finset.Ico (0:ℤ) n := Finset.mem_Ico.mpr ⟨hN.1, hN.2⟩
  have hMm : j ∈ (Finset.Ico (0:ℤ) n).erase N := by
    simp [Finset.mem_erase, Finset.mem_Ico, hM.1, hM.2, Ne.symm hNM]
  rw [← Finset.add_sum_erase _ _ hNm, ← Finset.add_sum_erase _ _ hMm,
      ← Finset.add_sum_erase (f := fun i => D_old i j) _ hNm,
      ← Finset.add_sum_erase (f := fun i => D_old i j) _ hMm]
  have rest : ∑ x ∈ ((Finset.Ico (0:ℤ) n).erase N).erase j, D x j
            = ∑ x ∈ ((Finset.Ico (0:ℤ) n).erase N).erase j, D_old x j := by
    apply Finset.sum_congr rfl
    intro x hx
    simp only [Finset.mem_erase, Finset.mem_Ico] at hx
    apply h_others x j hx.2.2.1 hx.2.2.2 hj0 hjn
    intro h
    rcases h with h | h
    · exact hx.2.1 h.1
    · exact hx.1 h.1
  rw [rest]
  linarith
· apply Finset.sum_congr rfl
  intro i hi
  have hi' := Finset.mem_Ico.mp hi
  apply h_others i j hi'.1 hi'.2 hj0 hjn
  intro h
  rcases h with h | h
  · exact hj h.2
  · exact hj h.2
""")


# ---- facts about finite sums handed to the SMT solver as axioms (each proved here by Lean) ---------------------
lemma("sum_ext",
      types={"lo": "int", "hi": "int", "F": "arr1", "G": "arr1"},
      hyps=[("h", "forall(i, range(lo, hi), F[i] == G[i])")],
      concl="Sum(i, range(lo, hi), F[i]) == Sum(i, range(lo, hi), G[i])",
      proof="""
apply Finset.sum_congr rfl
intro i hi'
exact h i (Finset.mem_Ico.mp hi').1 (Finset.mem_Ico.mp hi').2
""")
lemma("sum_empty",
      types={"lo": "int", "hi": "int", "F": "arr1"},
      hyps=[("h", "hi <= lo")],
      concl="Sum(i, range(lo, hi), F[i]) == 0",
      proof="""
rw [Finset.Ico_eq_empty (by omega)]
simp
""")
lemma("sum_succ",
      types={"lo": "int", "hi": "int", "F": "arr1"},
      hyps=[("h", "lo <= hi")],
      concl="Sum(i, range(lo, hi + 1), F[i]) == Sum(i, range(lo, hi), F[i]) + F[hi]",
      proof="""
exact int_sum_Ico_succ F h
""")
SUM_AXIOM_LEMMAS = ["sum_ext", "sum_empty", "sum_succ"]


# ---- Redfield tensor: trace and Hermiticity from the cell-wise assembly formula ------------------------------------
REL_TYPES = {"N": "int", "Nb": "int", "K": "carr3", "L": "carr3", "Ld": "carr3", "R": "carr4"}
REL_FORM = ("forall((a, b, c, d), (range(0, N), range(0, N), range(0, N), range(0, N)), "
            "R[a,b,c,d] == Sum(m, range(0, Nb), K[m,a,c]*Ld[m,d,b] + L[m,a,c]*K[m,b,d] "
            "- ite(b == d, Sum(k, range(0, N), K[m,k,a]*L[m,k,c]), 0) "
            "- ite(a == c, Sum(k, range(0, N), Ld[m,d,k]*K[m,k,b]), 0)))")
lemma("redfield_trace", types=REL_TYPES, hyps=[("hR", REL_FORM)],
      concl="forall((c, d), (range(0, N), range(0, N)), Sum(a, range(0, N), R[a,a,c,d]) == 0)",
      proof="""
intro c d hc0 hcN hd0 hdN
have hc : c ∈ Finset.Ico (0:ℤ) N := Finset.mem_Ico.mpr ⟨hc0, hcN⟩
have hd : d ∈ Finset.Ico (0:ℤ) N := Finset.mem_Ico.mpr ⟨hd0, hdN⟩
have e : ∀ a ∈ Finset.Ico (0:ℤ) N, R a a c d = ∑ m ∈ Finset.Ico (0:ℤ) Nb, (K m a c * Ld m d a + L m a c * K m a d
      - (if a = d then ∑ k ∈ Finset.Ico (0:ℤ) N, K m k a * L m k c else 0)
      - (if a = c then ∑ k ∈ Finset.Ico (0:ℤ) N, Ld m d k * K m k a else 0)) := by
  intro a ha
  have ha' := Finset.mem_Ico.mp ha
  exact hR a a c d ha'.1 ha'.2 ha'.1 ha'.2 hc0 hcN hd0 hdN
rw [Finset.sum_congr rfl e, Finset.sum_comm]
apply Finset.sum_eq_zero
intro m _
simp only [Finset.sum_sub_distrib, Finset.sum_add_distrib]
rw [Finset.sum_ite_eq' (Finset.Ico (0:ℤ) N) d, Finset.sum_ite_eq' (Finset.Ico (0:ℤ) N) c]
simp only [hc, hd, if_true]
have e1 : ∑ a ∈ Finset.Ico (0:ℤ) N, K m a c * Ld m d a = ∑ k ∈ Finset.Ico (0:ℤ) N, Ld m d k * K m k c := by
  apply Finset.sum_congr rfl; intros; ring
have e2 : ∑ a ∈ Finset.Ico (0:ℤ) N, L m a c * K m a d = ∑ k ∈ Finset.Ico (0:ℤ) N, K m k d * L m k c := by
  apply Finset.sum_congr rfl; intros; ring
rw [e1, e2]; ring
""")
lemma("redfield_herm", types=REL_TYPES,
      hyps=[("hR", REL_FORM),
            ("hK", "forall((m, i, j), (range(0, Nb), range(0, N), range(0, N)), conj(K[m,i,j]) == K[m,i,j])"),
            ("hLd", "forall((m, i, j), (range(0, Nb), range(0, N), range(0, N)), Ld[m,i,j] == conj(L[m,j,i]))")],
      concl="forall((a, b, c, d), (range(0, N), range(0, N), range(0, N), range(0, N)), conj(R[a,b,c,d]) == R[b,a,d,c])",
      proof="""
intro a b c d ha0 haN hb0 hbN hc0 hcN hd0 hdN
rw [hR a b c d ha0 haN hb0 hbN hc0 hcN hd0 hdN, hR b a d c hb0 hbN ha0 haN hd0 hdN hc0 hcN, map_sum]
apply Finset.sum_congr rfl
intro m hm
have hm' := Finset.mem_Ico.mp hm
have cL : ∀ i j : ℤ, 0 ≤ i → i < N → 0 ≤ j → j < N → (starRingEnd ℂ) (L m i j) = Ld m j i := by
  intro i j hi0 hiN hj0 hjN
  rw [hLd m j i hm'.1 hm'.2 hj0 hjN hi0 hiN]
have cLd : ∀ i j : ℤ, 0 ≤ i → i < N → 0 ≤ j → j < N → (starRingEnd ℂ) (Ld m i j) = L m j i := by
  intro i j hi0 hiN hj0 hjN
  rw [hLd m i j hm'.1 hm'.2 hi0 hiN hj0 hjN, Complex.conj_conj]
have cK : ∀ i j : ℤ, 0 ≤ i → i < N → 0 ≤ j → j < N → (starRingEnd ℂ) (K m i j) = K m i j :=
  fun i j hi0 hiN hj0 hjN => hK m i j hm'.1 hm'.2 hi0 hiN hj0 hjN
simp only [map_sub, map_add, map_mul, apply_ite (starRingEnd ℂ), map_sum, map_zero]
rw [cK a c ha0 haN hc0 hcN, cLd d b hd0 hdN hb0 hbN, cL a c ha0 haN hc0 hcN, cK b d hb0 hbN hd0 hdN]
have s1 : ∑ k ∈ Finset.Ico (0:ℤ) N, (starRingEnd ℂ) (K m k a) * (starRingEnd ℂ) (L m k c)
        = ∑ k ∈ Finset.Ico (0:ℤ) N, Ld m c k * K m k a := by
  apply Finset.sum_congr rfl
  intro k hk
  have hk' := Finset.mem_Ico.mp hk
  rw [cK k a hk'.1 hk'.2 ha0 haN, cL k c hk'.1 hk'.2 hc0 hcN]; ring
have s2 : ∑ k ∈ Finset.Ico (0:ℤ) N, (starRingEnd ℂ) (Ld m d k) * (starRingEnd ℂ) (K m k b)
        = ∑ k ∈ Finset.Ico (0:ℤ) N, K m k b * L m k d := by
  apply Finset.sum_congr rfl
  intro k hk
  have hk' := Finset.mem_Ico.mp hk
  rw [cK k b hk'.1 hk'.2 hb0 hbN, cLd d k hd0 hdN hk'.1 hk'.2]; ring
rw [s1, s2]
by_cases h1 : b = d <;> by_cases h2 : a = c <;> simp [h1, h2, eq_comm] <;> ring
""")


lemma("sum_split_at",
      types={"N": "int", "n": "int", "F": "arr1"},
      hyps=[("hn", "0 <= n and n < N")],
      concl="Sum(a, range(0, N), F[a]) == F[n] + Sum(a, range(0, N), ite(a == n, 0, F[a]))",
      proof="""
have hmem : n ∈ Finset.Ico (0:ℤ) N := Finset.mem_Ico.mpr ⟨hn.1, hn.2⟩
rw [← Finset.add_sum_erase _ _ hmem, ← Finset.add_sum_erase (Finset.Ico (0:ℤ) N) (fun a => if a = n then (0:ℝ) else F a) hmem]
simp only [if_true, zero_add]
congr 1
apply Finset.sum_congr rfl
intro x hx
have hne : x ≠ n := (Finset.mem_erase.mp hx).1
simp [hne]
""")
lemma("sum_split_at_cx",
      types={"N": "int", "n": "int", "F": "carr1"},
      hyps=[("hn", "0 <= n and n < N")],
      concl="Sum(a, range(0, N), F[a]) == F[n] + Sum(a, range(0, N), ite(a == n, 0, F[a]))",
      proof="""
have hmem : n ∈ Finset.Ico (0:ℤ) N := Finset.mem_Ico.mpr ⟨hn.1, hn.2⟩
rw [← Finset.add_sum_erase _ _ hmem, ← Finset.add_sum_erase (Finset.Ico (0:ℤ) N) (fun a => if a = n then (0:ℂ) else F a) hmem]
simp only [if_true, zero_add]
congr 1
apply Finset.sum_congr rfl
intro x hx
have hne : x ≠ n := (Finset.mem_erase.mp hx).1
simp [hne]
""")
lemma("sum_zero",
      types={"lo": "int", "hi": "int", "F": "arr1"},
      hyps=[("h", "forall(i, range(lo, hi), F[i] == 0)")],
      concl="Sum(i, range(lo, hi), F[i]) == 0",
      proof="""
apply Finset.sum_eq_zero
intro i hi'
exact h i (Finset.mem_Ico.mp hi').1 (Finset.mem_Ico.mp hi').2
""")
SUM_AXIOM_LEMMAS.append("sum_zero")


lemma("congruence_symmetric",
      types={"N": "int", "S": "arr2", "S1": "arr2", "P": "arr2", "M": "arr2"},
      hyps=[("hS1", "forall((i, k), (range(0, N), range(0, N)), S1[i,k] == S[k,i])"),
            ("hP", "forall((k, l), (range(0, N), range(0, N)), P[k,l] == P[l,k])"),
            ("hM", "forall((i, j), (range(0, N), range(0, N)), M[i,j] == Sum(k, range(0, N), S1[i,k]*Sum(l, range(0, N), P[k,l]*S[l,j])))")],
      concl="forall((i, j), (range(0, N), range(0, N)), M[i,j] == M[j,i])",
      proof="""
intro i j hi0 hiN hj0 hjN
rw [hM i j hi0 hiN hj0 hjN, hM j i hj0 hjN hi0 hiN]
have e1 : ∑ k ∈ Finset.Ico (0:ℤ) N, S1 i k * ∑ l ∈ Finset.Ico (0:ℤ) N, P k l * S l j
        = ∑ k ∈ Finset.Ico (0:ℤ) N, ∑ l ∈ Finset.Ico (0:ℤ) N, S k i * P k l * S l j := by
  apply Finset.sum_congr rfl
  intro k hk
  have hk' := Finset.mem_Ico.mp hk
  rw [hS1 i k hi0 hiN hk'.1 hk'.2, Finset.mul_sum]
  apply Finset.sum_congr rfl; intros; ring
have e2 : ∑ k ∈ Finset.Ico (0:ℤ) N, S1 j k * ∑ l ∈ Finset.Ico (0:ℤ) N, P k l * S l i
        = ∑ k ∈ Finset.Ico (0:ℤ) N, ∑ l ∈ Finset.Ico (0:ℤ) N, S k j * P k l * S l i := by
  apply Finset.sum_congr rfl
  intro k hk
  have hk' := Finset.mem_Ico.mp hk
  rw [hS1 j k hj0 hjN hk'.1 hk'.2, Finset.mul_sum]
  apply Finset.sum_congr rfl; intros; ring
rw [e1, e2, Finset.sum_comm]
apply Finset.sum_congr rfl
intro l hl
apply Finset.sum_congr rfl
intro k hk
have hk' := Finset.mem_Ico.mp hk
have hl' := Finset.mem_Ico.mp hl
rw [hP k l hk'.1 hk'.2 hl'.1 hl'.2]; ring
""")


# ---- time-dependent Redfield tensor: the code uses K where the formula has K^T; with K symmetric both agree --------
REL_FORM_CODE = ("forall((a, b, c, d), (range(0, N), range(0, N), range(0, N), range(0, N)), "
                 "R[a,b,c,d] == Sum(m, range(0, Nb), K[m,a,c]*Ld[m,d,b] + L[m,a,c]*K[m,d,b] "
                 "- ite(b == d, Sum(k, range(0, N), K[m,a,k]*L[m,k,c]), 0) "
                 "- ite(a == c, Sum(k, range(0, N), Ld[m,d,k]*K[m,k,b]), 0)))")
K_SYMM = "forall((m, i, j), (range(0, Nb), range(0, N), range(0, N)), K[m,i,j] == K[m,j,i])"
_GENERIC = lean.clause_to_lean(REL_FORM, REL_TYPES)
_TO_GENERIC = """
have hR : %s := by
  intro a b c d ha0 haN hb0 hbN hc0 hcN hd0 hdN
  rw [hRl a b c d ha0 haN hb0 hbN hc0 hcN hd0 hdN]
  apply Finset.sum_congr rfl
  intro m hm
  have hm' := Finset.mem_Ico.mp hm
  rw [hsym m d b hm'.1 hm'.2 hd0 hdN hb0 hbN]
  have e : ∑ k ∈ Finset.Ico (0:ℤ) N, K m a k * L m k c = ∑ k ∈ Finset.Ico (0:ℤ) N, K m k a * L m k c := by
    apply Finset.sum_congr rfl
    intro k hk
    have hk' := Finset.mem_Ico.mp hk
    rw [hsym m a k hm'.1 hm'.2 ha0 haN hk'.1 hk'.2]
  rw [e]
""" % _GENERIC
lemma("redfield_td_trace", types=REL_TYPES, hyps=[("hRl", REL_FORM_CODE), ("hsym", K_SYMM)],
      concl=LEMMAS["redfield_trace"]["concl"],
      proof=_TO_GENERIC + LEMMAS["redfield_trace"]["proof"])
lemma("redfield_td_herm", types=REL_TYPES,
      hyps=[("hRl", REL_FORM_CODE), ("hsym", K_SYMM)] + LEMMAS["redfield_herm"]["hyps"][1:],
      concl=LEMMAS["redfield_herm"]["concl"],
      proof=_TO_GENERIC + LEMMAS["redfield_herm"]["proof"])


lemma("column_update_keeps_sum",
      types={"N": "int", "b": "int", "F": "carr1", "F2": "carr1", "G": "arr1"},
      hyps=[("hb", "0 <= b and b < N"),
            ("hF", "forall(a, range(0, N), F2[a] == F[a] + G[a] - ite(a == b, Sum(x, range(0, N), G[x]), 0))")],
      concl="Sum(a, range(0, N), F2[a]) == Sum(a, range(0, N), F[a])",
      proof="""
have hmem : b ∈ Finset.Ico (0:ℤ) N := Finset.mem_Ico.mpr ⟨hb.1, hb.2⟩
have e : ∀ a ∈ Finset.Ico (0:ℤ) N, F2 a = F a + ((G a : ℝ) : ℂ) - (if a = b then (((∑ x ∈ Finset.Ico (0:ℤ) N, G x) : ℝ) : ℂ) else 0) := by
  intro a ha
  exact hF a (Finset.mem_Ico.mp ha).1 (Finset.mem_Ico.mp ha).2
rw [Finset.sum_congr rfl e, Finset.sum_sub_distrib, Finset.sum_add_distrib, Finset.sum_ite_eq' (Finset.Ico (0:ℤ) N) b]
simp only [hmem, if_true]
push_cast
ring
""")


lemma("sum_nonneg",
      types={"lo": "int", "hi": "int", "F": "arr1"},
      hyps=[("h", "forall(i, range(lo, hi), F[i] >= 0)")],
      concl="Sum(i, range(lo, hi), F[i]) >= 0",
      proof="""
apply Finset.sum_nonneg
intro i hi'
exact h i (Finset.mem_Ico.mp hi').1 (Finset.mem_Ico.mp hi').2
""")
lemma("sum_scale",
      types={"lo": "int", "hi": "int", "c": "real", "F": "arr1", "G": "arr1"},
      hyps=[("h", "forall(i, range(lo, hi), G[i] == c*F[i])")],
      concl="Sum(i, range(lo, hi), G[i]) == c*Sum(i, range(lo, hi), F[i])",
      proof="""
rw [Finset.mul_sum]
apply Finset.sum_congr rfl
intro i hi'
exact h i (Finset.mem_Ico.mp hi').1 (Finset.mem_Ico.mp hi').2
""")


# ---- one term of the short-time expansion of the density-matrix propagator ---------------------------------------------
_H2 = "(range(0, N), range(0, N))"
HERM2 = "forall((a, b), %s, conj({X}[a,b]) == {X}[b,a])" % _H2
TR2 = "Sum(a, range(0, N), {X}[a,a])"
COMM_FORM = ("forall((a, b), %s, n1[a,b] == -((1j*c)*(Sum(k, range(0, N), H[a,k]*r1[k,b]) - "
             "Sum(k, range(0, N), r1[a,k]*H[k,b]))))" % _H2)
_HERM1 = """
have herm1 : ∀ (a b : ℤ), 0 ≤ a → a < N → 0 ≤ b → b < N → (starRingEnd ℂ) (n1 a b) = n1 b a := by
  intro a b ha0 haN hb0 hbN
  rw [hn1 a b ha0 haN hb0 hbN, hn1 b a hb0 hbN ha0 haN]
  simp only [map_neg, map_mul, map_sub, map_sum, Complex.conj_I, Complex.conj_ofReal]
  have e1 : ∑ k ∈ Finset.Ico (0:ℤ) N, (starRingEnd ℂ) (H a k) * (starRingEnd ℂ) (r1 k b)
          = ∑ k ∈ Finset.Ico (0:ℤ) N, r1 b k * H k a := by
    apply Finset.sum_congr rfl
    intro k hk
    have hk' := Finset.mem_Ico.mp hk
    rw [hH a k ha0 haN hk'.1 hk'.2, hr1 k b hk'.1 hk'.2 hb0 hbN]; ring
  have e2 : ∑ k ∈ Finset.Ico (0:ℤ) N, (starRingEnd ℂ) (r1 a k) * (starRingEnd ℂ) (H k b)
          = ∑ k ∈ Finset.Ico (0:ℤ) N, H b k * r1 k a := by
    apply Finset.sum_congr rfl
    intro k hk
    have hk' := Finset.mem_Ico.mp hk
    rw [hr1 a k ha0 haN hk'.1 hk'.2, hH k b hk'.1 hk'.2 hb0 hbN]; ring
  rw [e1, e2]; ring
have tr1 : ∑ a ∈ Finset.Ico (0:ℤ) N, n1 a a = 0 := by
  have e : ∀ a ∈ Finset.Ico (0:ℤ) N, n1 a a = -((Complex.I * ((c : ℝ) : ℂ)) * ((∑ k ∈ Finset.Ico (0:ℤ) N, H a k * r1 k a) - (∑ k ∈ Finset.Ico (0:ℤ) N, r1 a k * H k a))) := by
    intro a ha
    have ha' := Finset.mem_Ico.mp ha
    exact hn1 a a ha'.1 ha'.2 ha'.1 ha'.2
  rw [Finset.sum_congr rfl e, Finset.sum_neg_distrib, ← Finset.mul_sum, Finset.sum_sub_distrib]
  have sw : ∑ a ∈ Finset.Ico (0:ℤ) N, ∑ k ∈ Finset.Ico (0:ℤ) N, r1 a k * H k a
          = ∑ a ∈ Finset.Ico (0:ℤ) N, ∑ k ∈ Finset.Ico (0:ℤ) N, H a k * r1 k a := by
    rw [Finset.sum_comm]
    apply Finset.sum_congr rfl; intro x _
    apply Finset.sum_congr rfl; intro y _
    ring
  rw [sw]; simp
"""
_STEP2 = """
refine ⟨herm1, tr1, ?_, ?_⟩
· intro a b ha0 haN hb0 hbN
  rw [hn2 a b ha0 haN hb0 hbN, hn2 b a hb0 hbN ha0 haN, map_add, hr2 a b ha0 haN hb0 hbN, herm1 a b ha0 haN hb0 hbN]
· have e : ∀ a ∈ Finset.Ico (0:ℤ) N, n2 a a = r2 a a + n1 a a := by
    intro a ha
    have ha' := Finset.mem_Ico.mp ha
    exact hn2 a a ha'.1 ha'.2 ha'.1 ha'.2
  rw [Finset.sum_congr rfl e, Finset.sum_add_distrib, tr1, add_zero]
"""
STEP_CONCL = ("(%s) and (%s == 0) and (%s) and (%s == %s)"
              % (HERM2.format(X="n1"), TR2.format(X="n1"), HERM2.format(X="n2"), TR2.format(X="n2"), TR2.format(X="r2")))
lemma("commutator_term",
      types={"N": "int", "c": "real", "H": "carr2", "r1": "carr2", "n1": "carr2"},
      hyps=[("hH", HERM2.format(X="H")), ("hr1", HERM2.format(X="r1")), ("hn1", COMM_FORM)],
      concl="(%s) and (%s == 0)" % (HERM2.format(X="n1"), TR2.format(X="n1")),
      proof=_HERM1 + "\nexact ⟨herm1, tr1⟩\n")
lemma("hamiltonian_step",
      types={"N": "int", "c": "real", "H": "carr2", "r1": "carr2", "r2": "carr2", "n1": "carr2", "n2": "carr2"},
      hyps=[("hH", HERM2.format(X="H")), ("hr1", HERM2.format(X="r1")), ("hr2", HERM2.format(X="r2")),
            ("hn1", COMM_FORM), ("hn2", "forall((a, b), %s, n2[a,b] == r2[a,b] + n1[a,b])" % _H2)],
      concl=STEP_CONCL, proof=_HERM1 + _STEP2)
lemma("tensor_term",
      types={"N": "int", "R": "carr4", "r": "carr2", "T": "carr2"},
      hyps=[("hRt", "forall((c, d), %s, Sum(a, range(0, N), R[a,a,c,d]) == 0)" % _H2),
            ("hRh", "forall((a, b, c, d), (range(0, N), range(0, N), range(0, N), range(0, N)), conj(R[a,b,c,d]) == R[b,a,d,c])"),
            ("hr", HERM2.format(X="r")),
            ("hT", "forall((a, b), %s, T[a,b] == Sum(c, range(0, N), Sum(d, range(0, N), R[a,b,c,d]*r[c,d])))" % _H2)],
      concl="(%s) and (%s == 0)" % (HERM2.format(X="T"), TR2.format(X="T")),
      proof="""
constructor
· intro a b ha0 haN hb0 hbN
  rw [hT a b ha0 haN hb0 hbN, hT b a hb0 hbN ha0 haN, map_sum]
  rw [Finset.sum_comm]
  apply Finset.sum_congr rfl
  intro d hd
  have hd' := Finset.mem_Ico.mp hd
  rw [map_sum]
  apply Finset.sum_congr rfl
  intro c hc
  have hc' := Finset.mem_Ico.mp hc
  rw [map_mul, hRh a b d c ha0 haN hb0 hbN hd'.1 hd'.2 hc'.1 hc'.2, hr d c hd'.1 hd'.2 hc'.1 hc'.2]
· have e : ∀ a ∈ Finset.Ico (0:ℤ) N, T a a = ∑ c ∈ Finset.Ico (0:ℤ) N, ∑ d ∈ Finset.Ico (0:ℤ) N, R a a c d * r c d := by
    intro a ha
    have ha' := Finset.mem_Ico.mp ha
    exact hT a a ha'.1 ha'.2 ha'.1 ha'.2
  rw [Finset.sum_congr rfl e, Finset.sum_comm]
  apply Finset.sum_eq_zero
  intro c hc
  have hc' := Finset.mem_Ico.mp hc
  rw [Finset.sum_comm]
  apply Finset.sum_eq_zero
  intro d hd
  have hd' := Finset.mem_Ico.mp hd
  rw [← Finset.sum_mul, hRt c d hc'.1 hc'.2 hd'.1 hd'.2, zero_mul]
""")
lemma("add_scaled",
      types={"N": "int", "c": "real", "A": "carr2", "T": "carr2", "r2": "carr2", "n1": "carr2", "n2": "carr2"},
      hyps=[("hA", HERM2.format(X="A")), ("hAt", TR2.format(X="A") + " == 0"),
            ("hT", HERM2.format(X="T")), ("hTt", TR2.format(X="T") + " == 0"), ("hr2", HERM2.format(X="r2")),
            ("hn1", "forall((a, b), %s, n1[a,b] == A[a,b] + c*T[a,b])" % _H2),
            ("hn2", "forall((a, b), %s, n2[a,b] == r2[a,b] + n1[a,b])" % _H2)],
      concl=STEP_CONCL,
      proof="""
have herm1 : ∀ (a b : ℤ), 0 ≤ a → a < N → 0 ≤ b → b < N → (starRingEnd ℂ) (n1 a b) = n1 b a := by
  intro a b ha0 haN hb0 hbN
  rw [hn1 a b ha0 haN hb0 hbN, hn1 b a hb0 hbN ha0 haN, map_add, map_mul, Complex.conj_ofReal,
      hA a b ha0 haN hb0 hbN, hT a b ha0 haN hb0 hbN]
have tr1 : ∑ a ∈ Finset.Ico (0:ℤ) N, n1 a a = 0 := by
  have e : ∀ a ∈ Finset.Ico (0:ℤ) N, n1 a a = A a a + ((c : ℝ) : ℂ) * T a a := by
    intro a ha
    have ha' := Finset.mem_Ico.mp ha
    exact hn1 a a ha'.1 ha'.2 ha'.1 ha'.2
  rw [Finset.sum_congr rfl e, Finset.sum_add_distrib, ← Finset.mul_sum, hAt, hTt]; simp
""" + _STEP2)


# ---- operator form of the Redfield/Lindblad generator acts as its four-index tensor ---------------------------------------
OP_FORM = ("forall((a, b), (range(0, N), range(0, N)), O[a,b] == Sum(m, range(0, Nb), "
           "Sum(k, range(0, N), K[m,a,k]*Sum(l, range(0, N), r[k,l]*Ld[m,l,b])) "
           "+ Sum(k, range(0, N), L[m,a,k]*Sum(l, range(0, N), r[k,l]*K[m,b,l])) "
           "- Sum(k, range(0, N), Sum(l, range(0, N), K[m,l,a]*L[m,l,k])*r[k,b]) "
           "- Sum(k, range(0, N), r[a,k]*Sum(l, range(0, N), Ld[m,k,l]*K[m,l,b]))))")
lemma("operator_equals_tensor",
      types=dict(REL_TYPES, r="carr2", O="carr2"),
      hyps=[("hR", REL_FORM), ("hO", OP_FORM)],
      concl="forall((a, b), (range(0, N), range(0, N)), O[a,b] == Sum(c, range(0, N), Sum(d, range(0, N), R[a,b,c,d]*r[c,d])))",
      proof="""
intro a b ha0 haN hb0 hbN
have ha : a ∈ Finset.Ico (0:ℤ) N := Finset.mem_Ico.mpr ⟨ha0, haN⟩
have hb : b ∈ Finset.Ico (0:ℤ) N := Finset.mem_Ico.mpr ⟨hb0, hbN⟩
rw [hO a b ha0 haN hb0 hbN]
let f : ℤ → ℤ → ℤ → ℂ := fun m c d => (K m a c * Ld m d b + L m a c * K m b d
      - (if b = d then ∑ k ∈ Finset.Ico (0:ℤ) N, K m k a * L m k c else 0)
      - (if a = c then ∑ k ∈ Finset.Ico (0:ℤ) N, Ld m d k * K m k b else 0)) * r c d
have eR : ∀ c ∈ Finset.Ico (0:ℤ) N, ∀ d ∈ Finset.Ico (0:ℤ) N, R a b c d * r c d
    = ∑ m ∈ Finset.Ico (0:ℤ) Nb, f m c d := by
  intro c hc d hd
  have hc' := Finset.mem_Ico.mp hc
  have hd' := Finset.mem_Ico.mp hd
  rw [hR a b c d ha0 haN hb0 hbN hc'.1 hc'.2 hd'.1 hd'.2, Finset.sum_mul]
have e2 : ∑ c ∈ Finset.Ico (0:ℤ) N, ∑ d ∈ Finset.Ico (0:ℤ) N, R a b c d * r c d
    = ∑ c ∈ Finset.Ico (0:ℤ) N, ∑ d ∈ Finset.Ico (0:ℤ) N, ∑ m ∈ Finset.Ico (0:ℤ) Nb, f m c d := by
  apply Finset.sum_congr rfl; intro c hc
  apply Finset.sum_congr rfl; intro d hd
  exact eR c hc d hd
have e3 : ∑ c ∈ Finset.Ico (0:ℤ) N, ∑ d ∈ Finset.Ico (0:ℤ) N, ∑ m ∈ Finset.Ico (0:ℤ) Nb, f m c d
    = ∑ m ∈ Finset.Ico (0:ℤ) Nb, ∑ c ∈ Finset.Ico (0:ℤ) N, ∑ d ∈ Finset.Ico (0:ℤ) N, f m c d := by
  calc ∑ c ∈ Finset.Ico (0:ℤ) N, ∑ d ∈ Finset.Ico (0:ℤ) N, ∑ m ∈ Finset.Ico (0:ℤ) Nb, f m c d
      = ∑ c ∈ Finset.Ico (0:ℤ) N, ∑ m ∈ Finset.Ico (0:ℤ) Nb, ∑ d ∈ Finset.Ico (0:ℤ) N, f m c d := by
        apply Finset.sum_congr rfl; intro c _; exact Finset.sum_comm
    _ = ∑ m ∈ Finset.Ico (0:ℤ) Nb, ∑ c ∈ Finset.Ico (0:ℤ) N, ∑ d ∈ Finset.Ico (0:ℤ) N, f m c d := Finset.sum_comm
rw [e2, e3]
apply Finset.sum_congr rfl
intro m _
have t1 : ∑ c ∈ Finset.Ico (0:ℤ) N, ∑ d ∈ Finset.Ico (0:ℤ) N, K m a c * Ld m d b * r c d
    = ∑ k ∈ Finset.Ico (0:ℤ) N, K m a k * ∑ l ∈ Finset.Ico (0:ℤ) N, r k l * Ld m l b := by
  apply Finset.sum_congr rfl; intro c _
  rw [Finset.mul_sum]; apply Finset.sum_congr rfl; intro d _; ring
have t2 : ∑ c ∈ Finset.Ico (0:ℤ) N, ∑ d ∈ Finset.Ico (0:ℤ) N, L m a c * K m b d * r c d
    = ∑ k ∈ Finset.Ico (0:ℤ) N, L m a k * ∑ l ∈ Finset.Ico (0:ℤ) N, r k l * K m b l := by
  apply Finset.sum_congr rfl; intro c _
  rw [Finset.mul_sum]; apply Finset.sum_congr rfl; intro d _; ring
have t3 : ∑ c ∈ Finset.Ico (0:ℤ) N, ∑ d ∈ Finset.Ico (0:ℤ) N, (if b = d then ∑ k ∈ Finset.Ico (0:ℤ) N, K m k a * L m k c else 0) * r c d
    = ∑ k ∈ Finset.Ico (0:ℤ) N, (∑ l ∈ Finset.Ico (0:ℤ) N, K m l a * L m l k) * r k b := by
  apply Finset.sum_congr rfl; intro c _
  simp only [ite_mul, zero_mul]
  rw [Finset.sum_ite_eq (Finset.Ico (0:ℤ) N) b]
  simp [hb]
have t4 : ∑ c ∈ Finset.Ico (0:ℤ) N, ∑ d ∈ Finset.Ico (0:ℤ) N, (if a = c then ∑ k ∈ Finset.Ico (0:ℤ) N, Ld m d k * K m k b else 0) * r c d
    = ∑ k ∈ Finset.Ico (0:ℤ) N, r a k * ∑ l ∈ Finset.Ico (0:ℤ) N, Ld m k l * K m l b := by
  simp only [ite_mul, zero_mul]
  have : ∀ c ∈ Finset.Ico (0:ℤ) N, (∑ d ∈ Finset.Ico (0:ℤ) N, if a = c then (∑ k ∈ Finset.Ico (0:ℤ) N, Ld m d k * K m k b) * r c d else 0)
      = if a = c then ∑ d ∈ Finset.Ico (0:ℤ) N, (∑ k ∈ Finset.Ico (0:ℤ) N, Ld m d k * K m k b) * r c d else 0 := by
    intro c _
    split_ifs <;> simp
  rw [Finset.sum_congr rfl this, Finset.sum_ite_eq (Finset.Ico (0:ℤ) N) a]
  simp only [ha, if_true]
  apply Finset.sum_congr rfl; intro d _; ring
simp only [f, sub_mul, add_mul, Finset.sum_sub_distrib, Finset.sum_add_distrib]
rw [t1, t2, t3, t4]
""")


# ---- basis change and back: Z (Z^-1 X Z) Z^-1 = X -------------------------------------------------------------------------
_N2 = "(range(0, N), range(0, N))"
lemma("similarity_roundtrip",
      types={"N": "int", "A": "carr2", "Ai": "carr2", "B": "carr2", "Bi": "carr2", "X": "carr2", "Y": "carr2", "W": "carr2"},
      hyps=[("hBAi", "forall((i, j), %s, Sum(k, range(0, N), B[i,k]*Ai[k,j]) == ite(i == j, 1, 0))" % _N2),
            ("hABi", "forall((i, j), %s, Sum(k, range(0, N), A[i,k]*Bi[k,j]) == ite(i == j, 1, 0))" % _N2),
            ("hY", "forall((i, j), %s, Y[i,j] == Sum(k, range(0, N), Ai[i,k]*Sum(l, range(0, N), X[k,l]*A[l,j])))" % _N2),
            ("hW", "forall((i, j), %s, W[i,j] == Sum(k, range(0, N), B[i,k]*Sum(l, range(0, N), Y[k,l]*Bi[l,j])))" % _N2)],
      concl="forall((i, j), %s, W[i,j] == X[i,j])" % _N2,
      proof=r"""
intro i j hi0 hiN hj0 hjN
have hi : i ∈ Finset.Ico (0:ℤ) N := Finset.mem_Ico.mpr ⟨hi0, hiN⟩
have hj : j ∈ Finset.Ico (0:ℤ) N := Finset.mem_Ico.mpr ⟨hj0, hjN⟩
rw [hW i j hi0 hiN hj0 hjN]
-- substitute Y and distribute everything into a four-fold sum
have e1 : ∑ k ∈ Finset.Ico (0:ℤ) N, B i k * ∑ l ∈ Finset.Ico (0:ℤ) N, Y k l * Bi l j
    = ∑ k ∈ Finset.Ico (0:ℤ) N, ∑ l ∈ Finset.Ico (0:ℤ) N, ∑ p ∈ Finset.Ico (0:ℤ) N, ∑ q ∈ Finset.Ico (0:ℤ) N,
        B i k * Ai k p * X p q * (A q l * Bi l j) := by
  apply Finset.sum_congr rfl; intro k hk
  have hk' := Finset.mem_Ico.mp hk
  rw [Finset.mul_sum]
  apply Finset.sum_congr rfl; intro l hl
  have hl' := Finset.mem_Ico.mp hl
  rw [hY k l hk'.1 hk'.2 hl'.1 hl'.2, Finset.sum_mul, Finset.mul_sum]
  apply Finset.sum_congr rfl; intro p _
  rw [Finset.mul_sum, Finset.sum_mul, Finset.mul_sum]
  apply Finset.sum_congr rfl; intro q _
  ring
rw [e1]
-- reorder: k l p q  ->  p q k l
have e2 : ∑ k ∈ Finset.Ico (0:ℤ) N, ∑ l ∈ Finset.Ico (0:ℤ) N, ∑ p ∈ Finset.Ico (0:ℤ) N, ∑ q ∈ Finset.Ico (0:ℤ) N,
        B i k * Ai k p * X p q * (A q l * Bi l j)
    = ∑ p ∈ Finset.Ico (0:ℤ) N, ∑ q ∈ Finset.Ico (0:ℤ) N,
        (∑ k ∈ Finset.Ico (0:ℤ) N, B i k * Ai k p) * X p q * (∑ l ∈ Finset.Ico (0:ℤ) N, A q l * Bi l j) := by
  calc ∑ k ∈ Finset.Ico (0:ℤ) N, ∑ l ∈ Finset.Ico (0:ℤ) N, ∑ p ∈ Finset.Ico (0:ℤ) N, ∑ q ∈ Finset.Ico (0:ℤ) N,
          B i k * Ai k p * X p q * (A q l * Bi l j)
      = ∑ k ∈ Finset.Ico (0:ℤ) N, ∑ p ∈ Finset.Ico (0:ℤ) N, ∑ l ∈ Finset.Ico (0:ℤ) N, ∑ q ∈ Finset.Ico (0:ℤ) N,
          B i k * Ai k p * X p q * (A q l * Bi l j) := by
        apply Finset.sum_congr rfl; intro k _; exact Finset.sum_comm
    _ = ∑ p ∈ Finset.Ico (0:ℤ) N, ∑ k ∈ Finset.Ico (0:ℤ) N, ∑ l ∈ Finset.Ico (0:ℤ) N, ∑ q ∈ Finset.Ico (0:ℤ) N,
          B i k * Ai k p * X p q * (A q l * Bi l j) := Finset.sum_comm
    _ = ∑ p ∈ Finset.Ico (0:ℤ) N, ∑ k ∈ Finset.Ico (0:ℤ) N, ∑ q ∈ Finset.Ico (0:ℤ) N, ∑ l ∈ Finset.Ico (0:ℤ) N,
          B i k * Ai k p * X p q * (A q l * Bi l j) := by
        apply Finset.sum_congr rfl; intro p _
        apply Finset.sum_congr rfl; intro k _; exact Finset.sum_comm
    _ = ∑ p ∈ Finset.Ico (0:ℤ) N, ∑ q ∈ Finset.Ico (0:ℤ) N, ∑ k ∈ Finset.Ico (0:ℤ) N, ∑ l ∈ Finset.Ico (0:ℤ) N,
          B i k * Ai k p * X p q * (A q l * Bi l j) := by
        apply Finset.sum_congr rfl; intro p _; exact Finset.sum_comm
    _ = _ := by
        apply Finset.sum_congr rfl; intro p _
        apply Finset.sum_congr rfl; intro q _
        rw [Finset.sum_mul, Finset.sum_mul]
        apply Finset.sum_congr rfl; intro k _
        rw [Finset.mul_sum]
rw [e2]
have e3 : ∑ p ∈ Finset.Ico (0:ℤ) N, ∑ q ∈ Finset.Ico (0:ℤ) N,
        (∑ k ∈ Finset.Ico (0:ℤ) N, B i k * Ai k p) * X p q * (∑ l ∈ Finset.Ico (0:ℤ) N, A q l * Bi l j)
    = ∑ p ∈ Finset.Ico (0:ℤ) N, ∑ q ∈ Finset.Ico (0:ℤ) N,
        (if i = p then (1:ℂ) else 0) * X p q * (if q = j then (1:ℂ) else 0) := by
  apply Finset.sum_congr rfl; intro p hp
  have hp' := Finset.mem_Ico.mp hp
  apply Finset.sum_congr rfl; intro q hq
  have hq' := Finset.mem_Ico.mp hq
  rw [hBAi i p hi0 hiN hp'.1 hp'.2, hABi q j hq'.1 hq'.2 hj0 hjN]
rw [e3]
simp only [ite_mul, one_mul, zero_mul, mul_ite, mul_one, mul_zero]
simp only [Finset.sum_ite_eq', Finset.sum_ite_eq, hi, hj, if_true]
""")


# ---- ledger: a quantity that starts at zero and grows by x[k] at step k is the sum of the x[k] ---------------------------
lemma("ledger_induction",
      types={"n": "int", "T": "carr1", "x": "carr1"},
      hyps=[("hn", "n >= 0"), ("h0", "T[0] == 0"), ("hstep", "forall(k, range(0, n), T[k+1] == T[k] + x[k])")],
      concl="T[n] == Sum(k, range(0, n), x[k])",
      proof="""
have key : ∀ m : ℤ, 0 ≤ m → m ≤ n → T m = ∑ k ∈ Finset.Ico (0:ℤ) m, x k := by
  intro m hm
  induction m, hm using Int.le_induction with
  | base => intro _; simp [h0]
  | succ m hm ih =>
    intro hle
    have hlt : m < n := by omega
    rw [hstep m hm hlt, ih (by omega)]
    have hins : Finset.Ico (0:ℤ) (m+1) = insert m (Finset.Ico 0 m) := by
      ext y; simp [Finset.mem_Ico]; omega
    rw [hins, Finset.sum_insert (by simp)]; ring
exact key n (by omega) le_rfl
""")


# ---- discrete Fourier sum on a centred grid: cyclic shifts before and after the transform re-centre both indices ------------
lemma("dft_centred",
      types={"N": "int", "c": "int", "y": "carr1", "W": "carr1", "Y": "carr1"},
      hyps=[("hN", "N >= 1"), ("hc0", "c >= 0"), ("hcN", "c < N"),
            ("hW", "forall((a, q), (ints, ints), W[a + N*q] == W[a])"),
            ("hY", "forall(k, range(0, N), Y[k] == Sum(j, range(0, N), "
                   "y[ite(j >= N - c, j - (N - c), j + c)]*W[j*ite(k >= c, k - c, k - c + N)]))")],
      concl="forall(k, range(0, N), Y[k] == Sum(n, range(0, N), y[n]*W[(n - c)*(k - c)]))",
      proof="""
intro k hk0 hkN
rw [hY k hk0 hkN]
obtain ⟨e, he⟩ : ∃ e : ℤ, (if k ≥ c then k - c else k - c + N) = (k - c) + N * e := by
  by_cases h : k ≥ c
  · exact ⟨0, by simp [h]⟩
  · exact ⟨1, by simp [h]⟩
rw [he]
have hWk : ∀ n : ℤ, W ((n - c) * ((k - c) + N * e)) = W ((n - c) * (k - c)) := by
  intro n
  have : (n - c) * ((k - c) + N * e) = (n - c) * (k - c) + N * ((n - c) * e) := by ring
  rw [this, hW]
have h1 : ∑ j ∈ Finset.Ico (0:ℤ) (N - c), y (if j ≥ N - c then j - (N - c) else j + c) * W (j * ((k - c) + N * e))
    = ∑ n ∈ Finset.Ico c N, y n * W ((n - c) * (k - c)) := by
  have hs := Finset.sum_Ico_add' (fun n => y n * W ((n - c) * (k - c))) (0:ℤ) (N - c) c
  simp only [zero_add, sub_add_cancel] at hs
  rw [← hs]
  apply Finset.sum_congr rfl
  intro j hj
  have hj' := Finset.mem_Ico.mp hj
  have hlt : ¬ (j ≥ N - c) := by omega
  simp only [hlt, if_false]
  rw [← hWk (j + c)]
  congr 2
  ring
have h2 : ∑ j ∈ Finset.Ico (N - c) N, y (if j ≥ N - c then j - (N - c) else j + c) * W (j * ((k - c) + N * e))
    = ∑ n ∈ Finset.Ico (0:ℤ) c, y n * W ((n - c) * (k - c)) := by
  have hs := Finset.sum_Ico_add' (fun j => y (if j ≥ N - c then j - (N - c) else j + c) * W (j * ((k - c) + N * e))) (0:ℤ) c (N - c)
  have e1 : (0:ℤ) + (N - c) = N - c := by ring
  have e2 : c + (N - c) = N := by ring
  rw [e1, e2] at hs
  rw [← hs]
  apply Finset.sum_congr rfl
  intro n hn
  have hn' := Finset.mem_Ico.mp hn
  have hge : n + (N - c) ≥ N - c := by omega
  simp only [hge, if_true]
  have e3 : n + (N - c) - (N - c) = n := by ring
  rw [e3, ← hWk n]
  have e4 : (n + (N - c)) * ((k - c) + N * e) = (n - c) * ((k - c) + N * e) + N * ((k - c) + N * e) := by ring
  rw [e4, hW]
have hL := int_sum_Ico_consecutive_gen (fun j => y (if j ≥ N - c then j - (N - c) else j + c) * W (j * ((k - c) + N * e))) (by omega : (0:ℤ) ≤ N - c) (by omega : N - c ≤ N)
have hR := int_sum_Ico_consecutive_gen (fun n => y n * W ((n - c) * (k - c))) (by omega : (0:ℤ) ≤ c) (by omega : c ≤ N)
rw [← hL, ← hR, h1, h2, add_comm]
""")


# ---- discrete Fourier sum of the Hermitian extension of a half-axis function ---------------------------------------------------
lemma("dft_hermitian",
      types={"N": "int", "M": "int", "y": "carr1", "yy": "carr1", "W": "carr1", "Y": "carr1"},
      hyps=[("hN", "N >= 1"), ("hM", "M == 2*N"),
            ("hW", "forall((a, q), (ints, ints), W[a + M*q] == W[a])"),
            ("hyy", "forall(j, range(0, M), yy[j] == ite(j < N, y[j], ite(j == N, 0, conj(y[M - j]))))"),
            ("hY", "forall(k, range(0, M), Y[k] == Sum(j, range(0, M), yy[j]*W[j*ite(k >= N, k - N, k - N + M)]))")],
      concl="forall(k, range(0, M), Y[k] == Sum(n, range(0, N), y[n]*W[n*(k - N)]) "
            "+ Sum(n, range(1, N), conj(y[n])*W[(0 - n)*(k - N)]))",
      proof="""
intro k hk0 hkM
rw [hY k hk0 hkM]
obtain ⟨e, he⟩ : ∃ e : ℤ, (if k ≥ N then k - N else k - N + M) = (k - N) + M * e := by
  by_cases h : k ≥ N
  · exact ⟨0, by simp [h]⟩
  · exact ⟨1, by simp [h]⟩
rw [he]
have hWk : ∀ n : ℤ, W (n * ((k - N) + M * e)) = W (n * (k - N)) := by
  intro n
  have : n * ((k - N) + M * e) = n * (k - N) + M * (n * e) := by ring
  rw [this, hW]
have hA := int_sum_Ico_consecutive_gen (fun j => yy j * W (j * ((k - N) + M * e))) (by omega : (0:ℤ) ≤ N) (by omega : N ≤ M)
have hB := int_sum_Ico_consecutive_gen (fun j => yy j * W (j * ((k - N) + M * e))) (by omega : N ≤ N + 1) (by omega : N + 1 ≤ M)
rw [← hA, ← hB]
have h1 : ∑ j ∈ Finset.Ico (0:ℤ) N, yy j * W (j * ((k - N) + M * e)) = ∑ n ∈ Finset.Ico (0:ℤ) N, y n * W (n * (k - N)) := by
  apply Finset.sum_congr rfl
  intro j hj
  have hj' := Finset.mem_Ico.mp hj
  rw [hyy j hj'.1 (by omega), hWk j]
  simp [hj'.2]
have h2 : ∑ j ∈ Finset.Ico N (N + 1), yy j * W (j * ((k - N) + M * e)) = 0 := by
  apply Finset.sum_eq_zero
  intro j hj
  have hj' := Finset.mem_Ico.mp hj
  have hjN : j = N := by omega
  rw [hyy j (by omega) (by omega)]
  simp [hjN]
have h3 : ∑ j ∈ Finset.Ico (N + 1) M, yy j * W (j * ((k - N) + M * e))
    = ∑ n ∈ Finset.Ico (1:ℤ) N, (starRingEnd ℂ) (y n) * W ((0 - n) * (k - N)) := by
  apply Finset.sum_nbij' (fun j => M - j) (fun n => M - n)
  · intro j hj
    have hj' := Finset.mem_Ico.mp hj
    exact Finset.mem_Ico.mpr ⟨by omega, by omega⟩
  · intro n hn
    have hn' := Finset.mem_Ico.mp hn
    exact Finset.mem_Ico.mpr ⟨by omega, by omega⟩
  · intro j _
    ring
  · intro n _
    ring
  · intro j hj
    have hj' := Finset.mem_Ico.mp hj
    rw [hyy j (by omega) hj'.2, hWk j]
    have c1 : ¬ (j < N) := by omega
    have c2 : ¬ (j = N) := by omega
    simp only [c1, c2, if_false]
    have e4 : j * (k - N) = (0 - (M - j)) * (k - N) + M * (k - N) := by ring
    rw [e4, hW]
rw [h1, h2, h3]
ring
""")


# ---- discrete Fourier inversion on a centred grid (from multiplicativity and orthogonality of the phase factors) ----------------
lemma("dft_inversion",
      types={"N": "int", "c": "int", "s1": "real", "s2": "real", "y": "carr1", "W": "carr1", "F": "carr1", "g": "carr1"},
      hyps=[("hN", "N >= 1"),
            ("hWmul", "forall((a, b), (ints, ints), W[a + b] == W[a]*W[b])"),
            ("hWorth", "forall(d, ints, Sum(k, range(0, N), W[(k - c)*d]) == ite(d % N == 0, N, 0))"),
            ("hF", "forall(k, range(0, N), F[k] == Sum(n, range(0, N), y[n]*W[(n - c)*(k - c)])*s1)"),
            ("hg", "forall(m, range(0, N), g[m] == Sum(k, range(0, N), F[k]*W[0 - (k - c)*(m - c)])*s2)")],
      concl="forall(m, range(0, N), g[m] == N*y[m]*s1*s2)",
      proof="""
intro m hm0 hmN
rw [hg m hm0 hmN]
have step1 : ∀ k ∈ Finset.Ico (0:ℤ) N, F k * W (0 - (k - c) * (m - c)) = (∑ n ∈ Finset.Ico (0:ℤ) N, y n * W ((k - c) * (n - m))) * ((s1:ℝ):ℂ) := by
  intro k hk
  have hk' := Finset.mem_Ico.mp hk
  rw [hF k hk'.1 hk'.2, mul_right_comm, Finset.sum_mul]
  congr 1
  apply Finset.sum_congr rfl
  intro n _
  rw [mul_assoc, ← hWmul]
  congr 2
  ring
rw [Finset.sum_congr rfl step1, ← Finset.sum_mul, Finset.sum_comm]
have step2 : ∀ n ∈ Finset.Ico (0:ℤ) N, ∑ k ∈ Finset.Ico (0:ℤ) N, y n * W ((k - c) * (n - m))
    = y n * (if (n - m) % N = 0 then (((N:ℤ):ℝ):ℂ) else 0) := by
  intro n _
  rw [← Finset.mul_sum, hWorth (n - m)]
rw [Finset.sum_congr rfl step2]
have step3 : ∀ n ∈ Finset.Ico (0:ℤ) N, y n * (if (n - m) % N = 0 then (((N:ℤ):ℝ):ℂ) else 0) = if n = m then (((N:ℤ):ℝ):ℂ) * y m else 0 := by
  intro n hn
  have hn' := Finset.mem_Ico.mp hn
  by_cases h : n = m
  · subst h
    simp
    ring
  · have hne : ¬ ((n - m) % N = 0) := by
      intro h0
      obtain ⟨q, hq⟩ := Int.dvd_of_emod_eq_zero h0
      rcases lt_trichotomy q 0 with hq0 | hq0 | hq0
      · have : N * q ≤ -N := by nlinarith
        omega
      · subst hq0
        simp at hq
        omega
      · have : N * q ≥ N := by nlinarith
        omega
    simp [h, hne]
rw [Finset.sum_congr rfl step3, Finset.sum_ite_eq' (Finset.Ico (0:ℤ) N) m]
simp [Finset.mem_Ico, hm0, hmN]
""")


# ---- scalar products are invariant under an orthogonal matrix ----------------------------------------------------------------
_RN = ["r%d%d" % (i, j) for i in range(3) for j in range(3)]


def _col(a, b):
    return " + ".join("r%d%d*r%d%d" % (k, a, k, b) for k in range(3))


def _rot(i, v):
    return "(" + " + ".join("r%d%d*%s%d" % (i, j, v, j) for j in range(3)) + ")"


lemma("dot_rotation",
      types=dict([(n, "real") for n in _RN] + [("a%d" % k, "real") for k in range(3)] + [("b%d" % k, "real") for k in range(3)]),
      hyps=[("h%d%d" % (a, b), "%s == %d" % (_col(a, b), 1 if a == b else 0)) for a in range(3) for b in range(a, 3)],
      concl=" + ".join("%s*%s" % (_rot(i, "a"), _rot(i, "b")) for i in range(3)) + " == a0*b0 + a1*b1 + a2*b2",
      proof="""
linear_combination a0*b0*h00 + a1*b1*h11 + a2*b2*h22 + (a0*b1 + a1*b0)*h01 + (a0*b2 + a2*b0)*h02 + (a1*b2 + a2*b1)*h12
""")


# ---- a sum of non-negative terms is at least any one of its terms ------------------------------------------------------------
lemma("sum_ge_one_term",
      types={"N": "int", "c": "real", "F": "arr1"},
      hyps=[("hnn", "forall(i, range(0, N), F[i] >= 0)"), ("hex", "exists(i, range(0, N), F[i] >= c)")],
      concl="Sum(i, range(0, N), F[i]) >= c",
      proof="""
obtain ⟨w, hw0, hwN, hwc⟩ := hex
have hmem : w ∈ Finset.Ico (0:ℤ) N := Finset.mem_Ico.mpr ⟨hw0, hwN⟩
have hle : F w ≤ ∑ i ∈ Finset.Ico (0:ℤ) N, F i := by
  apply Finset.single_le_sum (f := F) _ hmem
  intro i hi
  have hi' := Finset.mem_Ico.mp hi
  exact hnn i hi'.1 hi'.2
linarith
""")


# ---- the two ways of writing the point-dipole interaction --------------------------------------------------------------------
lemma("point_dipole_form",
      types={"a": "real", "b": "real", "c": "real", "RR": "real", "prf": "real", "epsr": "real"},
      hyps=[("hR", "RR > 0"), ("he", "epsr > 0")],
      concl="prf*(a/(RR*RR*RR) - 3.0*b*c/(RR*RR*RR*RR*RR))/epsr == prf*(a - 3.0*(b/RR)*(c/RR))/(RR*RR*RR)/epsr",
      proof="""
have h1 : RR ≠ 0 := ne_of_gt hR
have h2 : epsr ≠ 0 := ne_of_gt he
field_simp
""")


# ---- a sum against a Kronecker delta picks one term (numpy.diag(v) @ B = rows of B scaled; A @ numpy.eye = A) ---------------------
lemma("sum_kronecker",
      types={"n": "int", "c": "int", "x": "real", "G": "arr1"},
      hyps=[("hc", "0 <= c and c < n")],
      concl="Sum(d, range(0, n), ite(c == d, x, 0)*G[d]) == x*G[c] and Sum(d, range(0, n), G[d]*ite(d == c, x, 0)) == G[c]*x",
      proof="""
have hmem : c ∈ Finset.Ico (0:ℤ) n := Finset.mem_Ico.mpr ⟨hc.1, hc.2⟩
constructor
· rw [Finset.sum_eq_single c]
  · simp
  · intro b _ hb
    have : ¬ (c = b) := fun h => hb h.symm
    simp [this]
  · intro h; exact absurd hmem h
· rw [Finset.sum_eq_single c]
  · simp
  · intro b _ hb
    simp [hb]
  · intro h; exact absurd hmem h
""")


# ---- product of two matrices with the same eigenvectors: S diag(e1) S^-1 . S diag(e2) S^-1 = S diag(e1 e2) S^-1 ---------------------
lemma("spectral_compose",
      types={"n": "int", "SS": "arr2", "S1": "arr2", "A": "arr2", "B": "arr2", "e1": "arr1", "e2": "arr1"},
      hyps=[("hinv", "forall((c, d), (range(0, n), range(0, n)), Sum(m, range(0, n), S1[c,m]*SS[m,d]) == ite(c == d, 1, 0))"),
            ("hA", "forall((a, m), (range(0, n), range(0, n)), A[a,m] == Sum(c, range(0, n), SS[a,c]*e1[c]*S1[c,m]))"),
            ("hB", "forall((m, b), (range(0, n), range(0, n)), B[m,b] == Sum(d, range(0, n), SS[m,d]*e2[d]*S1[d,b]))")],
      concl="forall((a, b), (range(0, n), range(0, n)), Sum(m, range(0, n), A[a,m]*B[m,b]) == "
            "Sum(c, range(0, n), SS[a,c]*(e1[c]*e2[c])*S1[c,b]))",
      proof="""
intro a b ha0 han hb0 hbn
have step1 : ∑ m ∈ Finset.Ico (0:ℤ) n, A a m * B m b
    = ∑ m ∈ Finset.Ico (0:ℤ) n, (∑ c ∈ Finset.Ico (0:ℤ) n, SS a c * e1 c * S1 c m)
        * (∑ d ∈ Finset.Ico (0:ℤ) n, SS m d * e2 d * S1 d b) := by
  apply Finset.sum_congr rfl
  intro m hm
  have hm' := Finset.mem_Ico.mp hm
  rw [hA a m ha0 han hm'.1 hm'.2, hB m b hm'.1 hm'.2 hb0 hbn]
rw [step1]
have step2 : ∑ m ∈ Finset.Ico (0:ℤ) n, (∑ c ∈ Finset.Ico (0:ℤ) n, SS a c * e1 c * S1 c m)
        * (∑ d ∈ Finset.Ico (0:ℤ) n, SS m d * e2 d * S1 d b)
    = ∑ c ∈ Finset.Ico (0:ℤ) n, ∑ d ∈ Finset.Ico (0:ℤ) n,
        (SS a c * e1 c) * (e2 d * S1 d b) * (∑ m ∈ Finset.Ico (0:ℤ) n, S1 c m * SS m d) := by
  simp_rw [Finset.sum_mul_sum, Finset.mul_sum]
  rw [Finset.sum_comm]
  apply Finset.sum_congr rfl
  intro c _
  rw [Finset.sum_comm]
  apply Finset.sum_congr rfl
  intro d _
  apply Finset.sum_congr rfl
  intro m _
  ring
rw [step2]
apply Finset.sum_congr rfl
intro c hc
have hc' := Finset.mem_Ico.mp hc
rw [Finset.sum_eq_single c]
· rw [hinv c c hc'.1 hc'.2 hc'.1 hc'.2]
  simp
  ring
· intro d hd hdc
  have hd' := Finset.mem_Ico.mp hd
  rw [hinv c d hc'.1 hc'.2 hd'.1 hd'.2]
  have : ¬ (c = d) := fun h => hdc h.symm
  simp [this]
· intro h; exact absurd hc h
""")
