"""Library of generic finite-sum / algebra lemmas.  Each lemma is stated in the contract clause language; Lean
proves it (for all sizes and all values) on every run that uses it, and the executor may assume *instances* of
it (`use_pre` / `use_post` in loop specs, `use` in lemma obligations) with the formal names bound to program
values.  The clause text is the single source for both the Lean statement and the SMT instance."""
from . import lean

LEMMAS = {}


def lemma(name, types, hyps, concl, proof):
    LEMMAS[name] = dict(types=types, hyps=hyps, concl=concl, proof=proof)


def job(name):
    l = LEMMAS[name]
    return lean.bridge_lemma(name, l["types"], l["hyps"], l["concl"], l["proof"])


# ---- population step: columns of K sum to zero => one Taylor term does not change the total ----------------
lemma("pop_step",
      types={"n": "int", "K": "arr2", "r1": "arr1", "r2": "arr1", "c": "real"},
      hyps=[("hcol", "forall(j, range(0, n), Sum(i, range(0, n), K[i,j]) == 0)")],
      concl="Sum(i, range(0, n), r2[i] + c*Sum(j, range(0, n), K[i,j]*r1[j])) == Sum(i, range(0, n), r2[i])"
            " and Sum(i, range(0, n), c*Sum(j, range(0, n), K[i,j]*r1[j])) == 0",
      proof="""
have hz : ∑ i ∈ Finset.Ico (0:ℤ) n, ∑ j ∈ Finset.Ico (0:ℤ) n, K i j * r1 j = 0 := by
  rw [Finset.sum_comm]
  apply Finset.sum_eq_zero
  intro j hj
  rw [← Finset.sum_mul, hcol j (Finset.mem_Ico.mp hj).1 (Finset.mem_Ico.mp hj).2, zero_mul]
have hz2 : ∑ i ∈ Finset.Ico (0:ℤ) n, c * ∑ j ∈ Finset.Ico (0:ℤ) n, K i j * r1 j = 0 := by
  rw [← Finset.mul_sum, hz, mul_zero]
constructor
· rw [Finset.sum_add_distrib, hz2, add_zero]
· exact hz2
""")


# ---- RateMatrix.set_rate keeps every column sum ---------------------------------------------------------------
lemma("set_rate_colsum",
      types={"n": "int", "N": "int", "M": "int", "D": "arr2", "D_old": "arr2"},
      hyps=[("hN", "0 <= N and N < n"), ("hM", "0 <= M and M < n"), ("hNM", "N != M"),
            ("h_others", "forall((i, j), (range(0, n), range(0, n)), "
                         "implies(not ((i == N and j == M) or (i == M and j == M)), D[i,j] == D_old[i,j]))"),
            ("h_comp", "D[M,M] + D[N,M] == D_old[M,M] + D_old[N,M]")],
      concl="forall(j, range(0, n), Sum(i, range(0, n), D[i,j]) == Sum(i, range(0, n), D_old[i,j]))",
      proof="""
intro j hj0 hjn
by_cases hj : j = M
· subst hj
  have hNm : N ∈ Finset.Ico (0:ℤ) n := Finset.mem_Ico.mpr ⟨hN.1, hN.2⟩
  have hMm : j ∈ (Finset.Ico (0:ℤ) n).erase N := by
    simp [Finset.mem_erase, Finset.mem_Ico, hM.1, hM.2, Ne.symm hNM]
  rw [← Finset.add_sum_erase _ _ hNm, ← Finset.add_sum_erase _ _ hMm,
      ← Finset.add_sum_erase (f := fun i => D_old i j) _ hNm,
      ← Finset.add_sum_erase (f := fun i => D_old i j) _ hMm]
  have rest : ∑ x ∈ ((Finset.Ico (0:ℤ) n).erase N).erase j, D x j
            = ∑ x ∈ ((Finset.Ico (0:ℤ) n).erase N).erase j, D_old x j := by
    apply Finset.sum_congr rfl
    intro x hx
    simp only [Finset.mem_erase, Finset.mem_Ico] at hx
    apply h_others x j hx.2.2.1 hx.2.2.2 hj0 hjn
    intro h
    rcases h with h | h
    · exact hx.2.1 h.1
    · exact hx.1 h.1
  rw [rest]
  linarith
· apply Finset.sum_congr rfl
  intro i hi
  have hi' := Finset.mem_Ico.mp hi
  apply h_others i j hi'.1 hi'.2 hj0 hjn
  intro h
  rcases h with h | h
  · exact hj h.2
  · exact hj h.2
""")


# ---- facts about finite sums handed to the SMT solver as axioms (each proved here by Lean) ---------------------
lemma("sum_ext",
      types={"lo": "int", "hi": "int", "F": "arr1", "G": "arr1"},
      hyps=[("h", "forall(i, range(lo, hi), F[i] == G[i])")],
      concl="Sum(i, range(lo, hi), F[i]) == Sum(i, range(lo, hi), G[i])",
      proof="""
apply Finset.sum_congr rfl
intro i hi'
exact h i (Finset.mem_Ico.mp hi').1 (Finset.mem_Ico.mp hi').2
""")
lemma("sum_empty",
      types={"lo": "int", "hi": "int", "F": "arr1"},
      hyps=[("h", "hi <= lo")],
      concl="Sum(i, range(lo, hi), F[i]) == 0",
      proof="""
rw [Finset.Ico_eq_empty (by omega)]
simp
""")
lemma("sum_succ",
      types={"lo": "int", "hi": "int", "F": "arr1"},
      hyps=[("h", "lo <= hi")],
      concl="Sum(i, range(lo, hi + 1), F[i]) == Sum(i, range(lo, hi), F[i]) + F[hi]",
      proof="""
exact int_sum_Ico_succ F h
""")
SUM_AXIOM_LEMMAS = ["sum_ext", "sum_empty", "sum_succ"]
