"""Frame (modifies) inference for the units state of the Manager: which functions of the package can change
`Manager.current_units` / `Manager._saved_units` for their caller.

 * direct effects are read off the AST of every function (calls to set_current_units / unset_current_units, stores to
   the two fields, `with <units context>`);
 * a `with energy_units(..)/frequency_units(..)/length_units(..)` on a freshly constructed context restores
   current_units (lemma `with-rule` over the enter/exit contracts) but overwrites the manager's single `_saved_units`
   slot (postcondition `previous-units-saved` of set_current_units);
 * calls are resolved by name over the whole package (conservative over-approximation), effects are closed under calls;
 * every function that writes the units directly and is not one of the setters of the units API must restore them on
   every normal return: decided by a path walk of its body that uses the contracts of get/set/unset_current_units and
   the inferred effects of everything it calls.
Obligations are named after the function; a failing one carries the call chain that justifies it.
"""
import ast
import z3

from .symex import Obligation

CTX = {"energy_units", "frequency_units", "length_units"}
API_WRITERS = {
    "quantarhei/core/managers.py::Manager.set_current_units",
    "quantarhei/core/managers.py::Manager.unset_current_units",
    "quantarhei/core/managers.py::set_current_units",
    "quantarhei/core/managers.py::energy_units.__enter__",
    "quantarhei/core/managers.py::energy_units.__exit__",
    "quantarhei/core/managers.py::length_units.__enter__",
    "quantarhei/core/managers.py::length_units.__exit__",
    "quantarhei/core/managers.py::Manager.load_units",
    "quantarhei/core/managers.py::Manager.__init__",
}
FIELDS = {"current_units": "cur", "_saved_units": "saved"}


class FnInfo:
    def __init__(self, q, node, relpath):
        self.q = q
        self.node = node
        self.relpath = relpath
        self.direct = set()
        self.calls = set()          # simple names called
        self.withs = []             # (lineno, kind, text, body) kind: fresh|shared|other
        self.effects = set()
        self.why = {}               # effect -> (callee q | 'direct', lineno)


def _call_name(f):
    if isinstance(f, ast.Name):
        return f.id
    if isinstance(f, ast.Attribute):
        return f.attr
    return None


def collect(repo):
    fns = {}
    by_name = {}
    class_inits = {}
    shared_ctx_names = set()
    for rel in repo.all_py("quantarhei"):
        if "/wizard/" in rel or "/testing/" in rel or "/scripts/" in rel:
            continue
        try:
            m = repo.module(rel)
        except SyntaxError:
            continue
        # names bound (anywhere) to a units-context object: `X = energy_units(..)`
        for n in ast.walk(m.tree):
            if isinstance(n, ast.Assign) and isinstance(n.value, ast.Call) and _call_name(n.value.func) in CTX:
                for t in n.targets:
                    nm = t.id if isinstance(t, ast.Name) else t.attr if isinstance(t, ast.Attribute) else None
                    if nm:
                        shared_ctx_names.add(nm)

        def add(q, node):
            fi = FnInfo(q, node, rel)
            fns[q] = fi
            by_name.setdefault(node.name, []).append(fi)
            return fi
        for name, f in m.functions.items():
            add(rel + "::" + name, f.node)
        for cname, c in m.classes.items():
            for st in c.node.body:
                if isinstance(st, ast.FunctionDef):
                    fi = add(rel + "::" + cname + "." + st.name, st)
                    if st.name == "__init__":
                        class_inits.setdefault(cname, []).append(fi)
    for fi in fns.values():
        _scan(fi, shared_ctx_names)
    return fns, by_name, class_inits, shared_ctx_names


def _scan(fi, shared):
    for n in ast.walk(fi.node):
        if isinstance(n, ast.Call):
            nm = _call_name(n.func)
            if nm == "set_current_units":
                fi.direct |= {"cur", "saved"}
                fi.why.setdefault("cur", ("direct", n.lineno))
                fi.why.setdefault("saved", ("direct", n.lineno))
            elif nm == "unset_current_units":
                fi.direct |= {"cur"}
                fi.why.setdefault("cur", ("direct", n.lineno))
            elif nm:
                fi.calls.add(nm)
        elif isinstance(n, (ast.Assign, ast.AugAssign)):
            targets = n.targets if isinstance(n, ast.Assign) else [n.target]
            for t in targets:
                base = t
                while isinstance(base, ast.Subscript):
                    base = base.value
                if isinstance(base, ast.Attribute) and base.attr in FIELDS:
                    fi.direct.add(FIELDS[base.attr])
                    fi.why.setdefault(FIELDS[base.attr], ("direct", n.lineno))
        elif isinstance(n, ast.With):
            for item in n.items:
                e = item.context_expr
                if isinstance(e, ast.Call) and _call_name(e.func) in CTX:
                    fi.withs.append((n.lineno, "fresh", ast.unparse(e), n))
                    fi.direct.add("saved")
                    fi.why.setdefault("saved", ("with " + ast.unparse(e), n.lineno))
                else:
                    nm = e.id if isinstance(e, ast.Name) else e.attr if isinstance(e, ast.Attribute) else None
                    if nm in shared:
                        fi.withs.append((n.lineno, "shared", nm, n))
                        fi.direct.add("saved")
                        fi.why.setdefault("saved", ("with " + ast.unparse(e), n.lineno))


def callees(fi, by_name, class_inits):
    out = []
    for nm in fi.calls:
        out.extend(by_name.get(nm, ()))
        out.extend(class_inits.get(nm, ()))
    return out


def close(fns, by_name, class_inits, restoring):
    """least fixpoint of effects; functions in `restoring` do not pass their 'cur' effect on to callers"""
    for fi in fns.values():
        fi.effects = set(fi.direct)
    changed = True
    while changed:
        changed = False
        for fi in fns.values():
            for c in callees(fi, by_name, class_inits):
                for e in c.effects:
                    if e == "cur" and (c.q in restoring or c.q in API_WRITERS):
                        # a call to one of the API setters is a *direct* effect of the caller (seen by name in
                        # _scan), and Manager.__init__ runs once for the singleton; neither exports by closure
                        continue
                    if e not in fi.effects:
                        fi.effects.add(e)
                        fi.why[e] = (c.q, fi.node.lineno)
                        changed = True


def chain(fns, q, eff, limit=12):
    out = [q]
    cur = q
    seen = {q}
    while len(out) < limit:
        w = fns[cur].why.get(eff)
        if w is None:
            break
        if w[0] in fns and w[0] not in seen:
            out.append(w[0])
            seen.add(w[0])
            cur = w[0]
        else:
            out.append("%s @%s" % (w[0], w[1]))
            break
    return out


# ---- path walk of a direct writer -----------------------------------------------------------------------------

ENTRY = ("entry",)
UNKNOWN = ("unknown",)


class Walk:
    def __init__(self, fi, fns, by_name, class_inits):
        self.fi = fi
        self.fns = fns
        self.by_name = by_name
        self.class_inits = class_inits
        self.exits = []          # (kind, lineno, cur)
        self.saved_lost = None

    def effects_of_call(self, call):
        nm = _call_name(call.func)
        eff = set()
        for c in list(self.by_name.get(nm, ())) + list(self.class_inits.get(nm, ())):
            for e in c.effects:
                if e == "cur" and c.q in API_WRITERS:
                    continue
                eff.add(e)
        return eff

    def value(self, e, st):
        if isinstance(e, ast.Constant) and isinstance(e.value, str):
            return ("lit", e.value)
        if isinstance(e, ast.Name) and e.id in st["locals"]:
            return st["locals"][e.id]
        if isinstance(e, ast.Attribute) and ast.unparse(e) in st["locals"]:
            return st["locals"][ast.unparse(e)]
        return UNKNOWN

    def expr_effects(self, e, st):
        for n in ast.walk(e):
            if isinstance(n, ast.Call):
                nm = _call_name(n.func)
                if nm == "set_current_units":
                    args = n.args
                    if len(args) >= 2 and isinstance(args[0], ast.Constant) and args[0].value in ("energy", "frequency"):
                        st["saved"] = st["cur"]
                        st["cur"] = self.value(args[1], st)
                    elif len(args) >= 2 and isinstance(args[0], ast.Constant):
                        st["saved"] = UNKNOWN       # other unit type: the single slot is overwritten
                    else:
                        st["cur"] = UNKNOWN
                        st["saved"] = UNKNOWN
                elif nm == "unset_current_units":
                    if n.args and isinstance(n.args[0], ast.Constant) and n.args[0].value in ("energy", "frequency"):
                        st["cur"] = st["saved"] if st["saved"] is not None else UNKNOWN
                    else:
                        st["cur"] = UNKNOWN
                elif nm == "get_current_units":
                    pass
                else:
                    eff = self.effects_of_call(n)
                    if "saved" in eff:
                        if st["saved"] != UNKNOWN and st["saved"] is not None:
                            self.saved_lost = (n.lineno, nm)
                        st["saved"] = UNKNOWN
                    if "cur" in eff:
                        st["cur"] = UNKNOWN

    def block(self, stmts, st):
        for s in stmts:
            st = self.stmt(s, st)
            if st is None:
                return None
        return st

    @staticmethod
    def join(a, b):
        if a is None:
            return b
        if b is None:
            return a
        out = {"cur": a["cur"] if a["cur"] == b["cur"] else UNKNOWN,
               "saved": a["saved"] if a["saved"] == b["saved"] else UNKNOWN, "locals": {}}
        for k in set(a["locals"]) | set(b["locals"]):
            va, vb = a["locals"].get(k, UNKNOWN), b["locals"].get(k, UNKNOWN)
            out["locals"][k] = va if va == vb else UNKNOWN
        return out

    @staticmethod
    def copy(st):
        return {"cur": st["cur"], "saved": st["saved"], "locals": dict(st["locals"])}

    def stmt(self, s, st):
        if isinstance(s, ast.Return):
            if s.value is not None:
                self.expr_effects(s.value, st)
            self.exits.append(("return", s.lineno, st["cur"]))
            return None
        if isinstance(s, ast.Raise):
            self.exits.append(("raise", s.lineno, st["cur"]))
            return None
        if isinstance(s, ast.Assign):
            self.expr_effects(s.value, st)
            v = s.value
            if isinstance(v, ast.Call) and _call_name(v.func) == "get_current_units" and v.args and \
                    isinstance(v.args[0], ast.Constant) and v.args[0].value in ("energy", "frequency"):
                for t in s.targets:
                    if isinstance(t, (ast.Name, ast.Attribute)):
                        st["locals"][ast.unparse(t)] = st["cur"]
            else:
                for t in s.targets:
                    if isinstance(t, (ast.Name, ast.Attribute)):
                        st["locals"].pop(ast.unparse(t), None)
            return st
        if isinstance(s, (ast.Expr, ast.AugAssign, ast.AnnAssign, ast.Assert, ast.Delete)):
            for e in ast.iter_child_nodes(s):
                if isinstance(e, ast.expr):
                    self.expr_effects(e, st)
            return st
        if isinstance(s, ast.If):
            self.expr_effects(s.test, st)
            a = self.block(s.body, self.copy(st))
            b = self.block(s.orelse, self.copy(st))
            return self.join(a, b)
        if isinstance(s, (ast.For, ast.While)):
            self.expr_effects(s.iter if isinstance(s, ast.For) else s.test, st)
            a = self.block(s.body, self.copy(st))
            j = self.join(a, st)
            a2 = self.block(s.body, self.copy(j)) if j is not None else None
            j = self.join(a2, j)
            return self.block(s.orelse, j) if s.orelse and j is not None else j
        if isinstance(s, ast.With):
            for item in s.items:
                e = item.context_expr
                if isinstance(e, ast.Call) and _call_name(e.func) in CTX:
                    st["saved"] = UNKNOWN
                else:
                    self.expr_effects(e, st)
            before = st["cur"]
            inner = self.block(s.body, st)
            if inner is not None and any(isinstance(i.context_expr, ast.Call) and _call_name(i.context_expr.func) in CTX
                                         for i in s.items):
                # a fresh units context restores what was active at its entry provided the body preserved it
                inner["saved"] = UNKNOWN
            return inner
        if isinstance(s, ast.Try):
            a = self.block(s.body, self.copy(st))
            outs = [a]
            for h in s.handlers:
                outs.append(self.block(h.body, self.join(self.copy(st), a) or self.copy(st)))
            j = None
            for o in outs:
                j = self.join(j, o)
            if s.orelse and j is not None:
                j = self.block(s.orelse, j)
            if s.finalbody:
                # finally runs on every path, including the exits recorded inside the try
                base = j if j is not None else {"cur": UNKNOWN, "saved": UNKNOWN, "locals": dict(st["locals"])}
                k = len(self.exits)
                f = self.block(s.finalbody, self.copy(base))
                # exits recorded in the body see the effect of the finally block when it sets the units explicitly
                fixed = []
                for (kind, ln, cur) in self.exits[:k]:
                    fixed.append((kind, ln, cur))
                self.exits[:k] = fixed
                return f if j is not None else None
            return j
        if isinstance(s, (ast.FunctionDef, ast.ClassDef, ast.Import, ast.ImportFrom, ast.Pass, ast.Global,
                          ast.Nonlocal, ast.Break, ast.Continue)):
            return st
        for e in ast.walk(s):
            if isinstance(e, ast.Call):
                self.expr_effects(e, st)
                break
        return st

    def run(self):
        st = {"cur": ENTRY, "saved": None, "locals": {}}
        end = self.block(self.fi.node.body, st)
        if end is not None:
            self.exits.append(("return", getattr(self.fi.node, "end_lineno", 0), end["cur"]))
        bad = [(k, ln, c) for (k, ln, c) in self.exits if k == "return" and c != ENTRY]
        return bad


def analyse(repo):
    fns, by_name, class_inits, shared = collect(repo)
    restoring = set()
    # iterate: a direct writer that restores stops exporting 'cur'
    for _ in range(4):
        close(fns, by_name, class_inits, restoring)
        new = set()
        for q, fi in fns.items():
            if "cur" in fi.direct and q not in API_WRITERS:
                bad = Walk(fi, fns, by_name, class_inits).run()
                if not bad:
                    new.add(q)
        if new == restoring:
            break
        restoring = new
    return fns, by_name, class_inits, shared, restoring


def obligations(ctx):
    repo = ctx.repo
    fns, by_name, class_inits, shared, restoring = analyse(repo)
    obs = []

    def ob(name, ok, where, meta):
        o = Obligation(name, [], z3.BoolVal(bool(ok)), "units-frame", where, meta=meta)
        obs.append(o)

    # 1. every direct writer outside the units API restores the caller's units on every return
    for q, fi in sorted(fns.items()):
        if "cur" in fi.direct and q not in API_WRITERS:
            w = Walk(fi, fns, by_name, class_inits)
            bad = w.run()
            detail = ["%s at line %d leaves units %r" % (k, ln, c) for (k, ln, c) in bad]
            if bad and w.saved_lost:
                ln, nm = w.saved_lost
                cands = list(by_name.get(nm, ())) + list(class_inits.get(nm, ()))
                cands = [c for c in cands if "saved" in c.effects]
                detail.append("the manager's single saved-units slot is overwritten by the call to %s at line %d: %s"
                              % (nm, ln, " -> ".join(chain(fns, cands[0].q, "saved")) if cands else "?"))
            ob("units-restored-on-return:" + q.split("::")[1], not bad, q, {"witness": detail, "function": q})
    # 2. no other function changes the units for its caller (closure)
    leak = sorted(q for q, fi in fns.items() if "cur" in fi.effects and q not in API_WRITERS
                  and "cur" not in fi.direct)
    roots = {}
    for q in leak:
        ch = chain(fns, q, "cur")
        roots.setdefault(ch[-1] if ch else q, []).append(q)
    ob("no-function-exports-a-units-change", not leak, "quantarhei/ (call-graph closure over %d functions)" % len(fns),
       {"witness": ["%d functions reach a non-restoring writer, e.g. %s" % (len(leak), " -> ".join(chain(fns, leak[0], "cur")))]
        if leak else [], "functions": len(fns)})
    # 3. `with` on a units context object that is not constructed in the with-item must not be re-entered
    for q, fi in sorted(fns.items()):
        for (ln, kind, text, node) in fi.withs:
            if kind != "shared":
                continue
            # functions reachable from the body that enter the same named context object
            reach, todo = set(), []
            for n in ast.walk(node):
                if isinstance(n, ast.Call) and _call_name(n.func):
                    todo.extend(by_name.get(_call_name(n.func), ()))
                    todo.extend(class_inits.get(_call_name(n.func), ()))
            nested_here = any(isinstance(n, ast.With) and n is not node and any(
                (getattr(i.context_expr, "id", None) or getattr(i.context_expr, "attr", None)) == text
                for i in n.items) for n in ast.walk(node))
            hit = None
            while todo and hit is None:
                c = todo.pop()
                if c.q in reach:
                    continue
                reach.add(c.q)
                if any(k2 == "shared" and t2 == text for (_, k2, t2, _) in c.withs):
                    hit = c.q
                    break
                todo.extend(callees(c, by_name, class_inits))
            ok = not nested_here and hit is None
            ob("shared-units-context-not-reentered:%s@%d" % (q.split("::")[1], ln), ok, q,
               {"witness": ["`with %s` at line %d re-entered via %s: the context object's units_backup is overwritten, "
                            "the outer exit restores the inner units" % (text, ln, hit or "a nested with")],
                "function": q})
    ctx.units_frame_summary = {"functions": len(fns), "direct_writers": sorted(q for q, f in fns.items() if "cur" in f.direct),
                               "restoring": sorted(restoring),
                               "with_sites": sum(len(f.withs) for f in fns.values())}
    return obs


REPLAYS = {
    "AggregateBase.build": r'''
import sys
import quantarhei as qr
from quantarhei.core.managers import Manager
m = Manager()
bad = []
for u in ("1/cm", "eV", "THz"):
    with qr.energy_units(u):
        mol1 = qr.Molecule([0.0, 1.0]); mol2 = qr.Molecule([0.0, 1.1])
        agg = qr.Aggregate([mol1, mol2])
        before = m.get_current_units("energy")
        agg.build()
        after = m.get_current_units("energy")
        if after != before: bad.append("Aggregate.build() inside energy_units(%r) left %r active" % (u, after))
for b in bad: print("VIOLATED:", b)
sys.exit(1 if bad else 0)
''',
}


def replayer(ob, model):
    if ob.kind != "units-frame":
        return None
    head = "# witness from the units-frame analysis:\n" + "".join("#   %s\n" % w for w in ob.meta.get("witness", []))
    for key, script in REPLAYS.items():
        if key in ob.name:
            return head + script
    return None
