"""Finite sums as canonical uninterpreted symbols with on-demand unfolding axioms (added when needed)."""
import ast
import z3
from . import values as V
from .values import Unsupported, SymArr, Range, is_z3, arith, fresh, Cx

# registry: function symbol name -> (k, lo, hi, body, params) for axiom generation / Lean printing
SUMS = {}


def mk_sum_term(k, lo, hi, body):
    """Sum_{lo <= k < hi} body as  u_sum(lambda k. body, lo, hi)  -- canonical through z3 hash-consing of the
    lambda term; congruence gives equality of syntactically equal sums."""
    lam = V.canon_lambda([k], V.z3real(body))
    f = _sumfun()
    return f(lam, V.z3int(lo), V.z3int(hi))


_SF = []


def _sumfun():
    if not _SF:
        _SF.append(z3.Function("u_sum", z3.ArraySort(z3.IntSort(), z3.RealSort()), z3.IntSort(), z3.IntSort(),
                               z3.RealSort()))
    return _SF[0]


def sum_axioms():
    """SMT axioms about u_sum; each is the lemma of the same name in qvc.lemmalib, proved by Lean on the runs that
    use sums: extensionality on the summed range, empty range, unfolding at the upper end"""
    if not _SF:
        return []
    f = _sumfun()
    F = z3.Const("F", z3.ArraySort(z3.IntSort(), z3.RealSort()))
    G = z3.Const("G", z3.ArraySort(z3.IntSort(), z3.RealSort()))
    lo, hi, i = z3.Ints("lo hi i")
    return [
        z3.ForAll([F, G, lo, hi],
                  z3.Implies(z3.ForAll([i], z3.Implies(z3.And(lo <= i, i < hi), z3.Select(F, i) == z3.Select(G, i))),
                             f(F, lo, hi) == f(G, lo, hi)),
                  patterns=[z3.MultiPattern(f(F, lo, hi), f(G, lo, hi))]),
        z3.ForAll([F, lo, hi], z3.Implies(hi <= lo, f(F, lo, hi) == 0), patterns=[f(F, lo, hi)]),
        z3.ForAll([F, lo, hi],
                  z3.Implies(z3.ForAll([i], z3.Implies(z3.And(lo <= i, i < hi), z3.Select(F, i) == 0)),
                             f(F, lo, hi) == 0), patterns=[f(F, lo, hi)]),
        z3.ForAll([F, lo, hi], z3.Implies(lo <= hi, f(F, lo, hi + 1) == f(F, lo, hi) + z3.Select(F, hi)),
                  patterns=[f(F, lo, hi + 1)]),
    ]


def uses_sums():
    return bool(_SF)


def mk_sum(ex, n, cell, lo=0):
    k = fresh("k", z3.IntSort())
    v = cell(k)
    if isinstance(v, Cx):
        return Cx(mk_sum_term(k, lo, n, v.re), mk_sum_term(k, lo, n, v.im))
    return mk_sum_term(k, lo, n, v)


def spec_sum(ex, e):
    # Sum(k, range(lo,hi), body)
    name = e.args[0].id
    env = ex.frames[-1].env
    saved = env.get(name, None)
    had = name in env
    k = fresh(name, z3.IntSort())
    env[name] = k
    try:
        rv = ex.eval(e.args[1])
        if not isinstance(rv, Range):
            raise Unsupported("Sum domain must be a range")
        body = ex.eval(e.args[2])
    finally:
        if had:
            env[name] = saved
        else:
            env.pop(name, None)
    if isinstance(body, Cx):
        return Cx(mk_sum_term(k, rv.lo, rv.hi, body.re), mk_sum_term(k, rv.lo, rv.hi, body.im))
    return mk_sum_term(k, rv.lo, rv.hi, body)


def numpy_sum(ex, a, axis=None):
    if isinstance(a, (list, tuple)):
        r = 0
        for x in a:
            r = ex.binop("+", r, x)
        return r
    if not isinstance(a, SymArr):
        raise Unsupported("numpy.sum of %r" % (a,))
    snap = a.snapshot()
    if a.rank == 1 and axis in (None, 0):
        if isinstance(a.shape[0], int) and a.shape[0] <= 8:
            # a short vector of known length: the sum written out (values stay symbolic; cells are simplified so that
            # table look-ups at concrete positions become their entries)
            r = 0
            for k in range(a.shape[0]):
                c = snap.get([k])
                if is_z3(c):
                    c = z3.simplify(c)
                r = arith("+", r, c)
            return r
        return mk_sum(ex, a.shape[0], lambda k: snap.get([k]))
    if a.rank == 2 and axis is None:
        return mk_sum(ex, a.shape[0], lambda i: mk_sum(ex, a.shape[1], lambda j: snap.get([i, j])))
    if a.rank == 2 and axis in (0, 1):
        if axis == 0:
            return V.lam_array((a.shape[1],), a.dtype if a.dtype != "int" else "real",
                               lambda xs: mk_sum(ex, a.shape[0], lambda i: snap.get([i, xs[0]])))
        return V.lam_array((a.shape[0],), a.dtype if a.dtype != "int" else "real",
                           lambda xs: mk_sum(ex, a.shape[1], lambda j: snap.get([xs[0], j])))
    raise Unsupported("numpy.sum rank %d axis %r" % (a.rank, axis))
