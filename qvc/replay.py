"""Native replay of counter-models: the model of a refuted obligation becomes a Python script that drives the
real code (QVC_REPO first on PYTHONPATH, /venv/bin/python) and evaluates the property-level clause natively."""
import json
import os
import re
import subprocess
import sys

VERIF = os.path.dirname(os.path.dirname(os.path.abspath(__file__)))
PY = os.environ.get("QVC_NATIVE_PY", "/venv/bin/python")

HEADER = '''# replay for property %(pid)s
# failed obligation : %(name)s
# generated at      : %(where)s   kind=%(kind)s
# verifier output   : z3 sat; counter-model of the named inputs follows
# exit status: 1 (and a line starting with VIOLATED) = the real code violates the property clause on this input;
#              0 = not reproduced natively
import json
MODEL = json.loads(r"""%(model)s""")
'''


def _safe(name):
    return re.sub(r"[^A-Za-z0-9_.-]+", "_", name)[:120]


def native_env():
    env = dict(os.environ)
    repo = os.environ.get("QVC_REPO", "/repo")
    env["PYTHONPATH"] = repo + os.pathsep + os.path.join(VERIF, "native") + os.pathsep + env.get("PYTHONPATH", "")
    env.setdefault("HOME", os.environ.get("HOME", "/root"))
    env["MPLBACKEND"] = "Agg"
    return env


def write_and_run(pid, ob, plan, ctx):
    d = os.path.join(VERIF, "replays", pid)
    os.makedirs(d, exist_ok=True)
    path = os.path.join(d, _safe(ob.name) + ".py")
    body = None
    for r in plan.replayers:
        try:
            body = r(ob, ob.model or {})
        except Exception as e:      # noqa
            body = None
        if body:
            break
    if not body:
        body = generic_contract_replay(ob)
    head = HEADER % {"pid": pid, "name": ob.name, "where": ob.where, "kind": ob.kind,
                     "model": json.dumps(ob.model, indent=1, default=str)}
    for w in (ob.meta or {}).get("witness", []) or []:
        head += "# witness: %s\n" % str(w).replace("\n", " ")
    if getattr(ob, "reason", None):
        head += "# solver: %s\n" % str(ob.reason).replace("\n", " ")
    if not body:
        with open(path, "w") as f:
            f.write(head + "\n# no native replay is available for this obligation family\n"
                           "GOAL = %r\nimport sys\nprint('obligation %s refuted by the verifier; "
                           "no native replay available')\nsys.exit(0)\n"
                    % ((ob.goal.sexpr() if hasattr(ob.goal, "sexpr") else str(ob.goal))[:4000], ob.name))
        return path, False, ""
    with open(path, "w") as f:
        f.write(head + "\n" + body)
    try:
        p = subprocess.run([PY, "-W", "ignore", path], capture_output=True, text=True, timeout=600, env=native_env(), cwd=d)
        out = (p.stdout or "") + (p.stderr or "")
        reproduced = p.returncode == 1 and "VIOLATED" in out
    except subprocess.TimeoutExpired:
        out, reproduced = "replay timed out", False
    with open(path, "a") as f:
        f.write("\n# --- native run output (%s) ---\n" % ("REPRODUCED" if reproduced else "not reproduced"))
        for ln in out.strip().splitlines()[-30:]:
            f.write("# " + ln + "\n")
    return path, reproduced, out


GENERIC = r'''
import sys
sys.path.insert(0, %(native)r)
import qvc_native as Q
CONTRACT = json.loads(r"""%(contract)s""")
FUNCTION = %(function)r
FOCUS = %(focus)r
singles = MODEL.get("__singletons__") or {}
restore = []
if "Manager" in singles and singles["Manager"]:
    from quantarhei.core.managers import Manager
    m = Manager()
    for f, v in (singles["Manager"].get("fields") or {}).items():
        if f in ("log_conf",):
            continue
        restore.append((m, f, getattr(m, f, None), hasattr(m, f)))
        setattr(m, f, Q.build(v))
MODEL["__raises__"] = CONTRACT.get("raises") or {}
try:
    rc = Q.replay_contract(MODEL, FUNCTION, CONTRACT["requires"], CONTRACT["ensures"],
                           ghost_code=CONTRACT.get("native_ghost") or "", focus=FOCUS)
finally:
    for (o, f, old, had) in reversed(restore):
        if had:
            setattr(o, f, old)
        else:
            try:
                delattr(o, f)
            except Exception:
                pass
sys.exit(rc)
'''


def generic_contract_replay(ob):
    """replay of a function contract on the counter-model: real function, real arguments rebuilt from the model,
    every `ensures` clause evaluated natively (works for functions whose arguments are numbers, arrays and objects
    whose state is a set of plain attributes)"""
    meta = ob.meta or {}
    c = meta.get("contract")
    fn = meta.get("function")
    if not c or not fn or not isinstance(ob.model, dict) or "__args__" not in ob.model:
        return None
    if ".<locals>." in fn:
        return None
    focus = None
    if ob.name.startswith("post:"):
        focus = ob.name.split(":")[2].split("@")[0]
    return GENERIC % {"native": os.path.join(VERIF, "native"), "contract": json.dumps(c), "function": fn,
                      "focus": focus}


def write_bounded(pid, r1):
    d = os.path.join(VERIF, "replays", pid)
    os.makedirs(d, exist_ok=True)
    path = os.path.join(d, _safe("bounded_" + str(r1.get("what"))) + ".py")
    script = r1.get("replay_script")
    with open(path, "w") as f:
        f.write("# replay for property %s\n# failed bounded stand-in : %s\n# bound: %s\n# detail: %s\n"
                % (pid, r1.get("what"), r1.get("bound"), str(r1.get("detail")).replace("\n", "\n# ")))
        if script:
            f.write(script)
        else:
            f.write("import sys\nprint(%r)\nsys.exit(1)\n" % str(r1.get("detail")))
    return path


def _open_findings(pid):
    pth = os.path.join(VERIF, "known_findings.json")
    try:
        with open(pth) as f:
            return [x for x in json.load(f).get("findings", []) if x.get("property") == pid and x.get("status") == "open"]
    except Exception:       # noqa
        return []


def run_oracle(pid, script, doubtful):
    """native property-level oracle (small concrete systems through the public API) as replay of last resort"""
    d = os.path.join(VERIF, "replays", pid)
    os.makedirs(d, exist_ok=True)
    src = os.path.join(VERIF, script)
    path = os.path.join(d, "oracle_" + os.path.basename(script))
    with open(src) as f:
        body = f.read()
    head = "# replay for property %s (native property-level oracle, last resort)\n" % pid
    for ob in doubtful[:12]:
        head += "# obligation without a native failing input of its own: %s [%s] %s\n" % (
            ob.name, ob.verdict, str(getattr(ob, "reason", "") or "")[:160].replace("\n", " "))
    with open(path, "w") as f:
        f.write(head + body)
    try:
        p = subprocess.run([PY, "-W", "ignore", path], capture_output=True, text=True, timeout=900, env=native_env(), cwd=d)
        out = (p.stdout or "") + (p.stderr or "")
        # failing inputs that are listed as open known findings do not count as a reproduction of anything else
        pats = [f.get("oracle_match") for f in _open_findings(pid) if f.get("oracle_match")]
        vio = [ln for ln in out.splitlines() if ln.startswith("VIOLATED") and not any(pt in ln for pt in pats)]
        reproduced = p.returncode == 1 and bool(vio)
    except subprocess.TimeoutExpired:
        out, reproduced = "oracle timed out", False
    with open(path, "a") as f:
        f.write("\n# --- native run output (%s) ---\n" % ("REPRODUCED" if reproduced else "not reproduced"))
        for ln in out.strip().splitlines()[-30:]:
            f.write("# " + ln + "\n")
    return path, reproduced, out


def run_file(path):
    p = subprocess.run([PY, "-W", "ignore", path], env=native_env(), cwd=os.path.dirname(os.path.abspath(path)))
    return p.returncode


def run_native(script_path, args=(), timeout=900, input_json=None):
    """run a helper script under /venv/bin/python against QVC_REPO; returns (rc, stdout, stderr)"""
    p = subprocess.run([PY, script_path] + list(args), capture_output=True, text=True, timeout=timeout,
                       env=native_env(), input=json.dumps(input_json) if input_json is not None else None)
    return p.returncode, p.stdout, p.stderr
