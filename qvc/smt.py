"""Discharging obligations: z3 (in-process, forked worker pool), cvc5 on `unknown` where the query is
expressible in SMT-LIB2 that cvc5 parses.  Verdicts: proved / refuted(model) / undecided(reason)."""
import os
import subprocess
import tempfile
import time
import multiprocessing as mp
import z3

Z3_TIMEOUT_MS = int(os.environ.get("QVC_Z3_TIMEOUT_MS", "20000"))
_OBS = []


def _solve(idx):
    ob, extra_axioms, leaves = _OBS[idx]
    t0 = time.time()
    s = z3.Solver()
    s.set("timeout", Z3_TIMEOUT_MS)
    for h in ob.hyps:
        s.add(h)
    for a in extra_axioms:
        s.add(a)
    goal = ob.goal
    s.add(z3.Not(goal))
    r = s.check()
    dt = time.time() - t0
    if r == z3.unsat:
        return idx, "proved", None, dt, "z3", None
    if r == z3.sat:
        m = s.model()
        return idx, "refuted", extract_model(m, leaves), dt, "z3", None
    reason = s.reason_unknown()
    # second opinion
    smt2 = s.to_smt2()
    v2 = cvc5_check(smt2)
    if v2 == "unsat":
        return idx, "proved", None, time.time() - t0, "cvc5", None
    return idx, "undecided", None, time.time() - t0, "z3", "z3: %s; cvc5: %s" % (reason, v2)


def cvc5_check(smt2, timeout_s=20):
    try:
        with tempfile.NamedTemporaryFile("w", suffix=".smt2", delete=False, dir=os.environ.get("TMPDIR", "/tmp")) as f:
            f.write("(set-logic ALL)\n" + smt2)
            path = f.name
        try:
            p = subprocess.run(["/usr/bin/cvc5", "--tlimit=%d" % (timeout_s * 1000), path],
                               capture_output=True, text=True, timeout=timeout_s + 5)
            out = (p.stdout or "").strip().splitlines()
            if out and out[0] in ("sat", "unsat", "unknown"):
                return out[0]
            return "error: " + ((p.stdout or "") + (p.stderr or "")).strip()[:200]
        finally:
            os.unlink(path)
    except Exception as e:      # noqa
        return "error: %s" % e


def extract_model(m, leaves):
    """concrete values of the named input symbols (ints, reals, bools, strings; small arrays cell by cell)"""
    from .values import SymArr, SymList, Obj, Cx
    out = {}

    def val(t):
        v = m.eval(t, model_completion=True)
        if z3.is_int_value(v):
            return v.as_long()
        if z3.is_rational_value(v):
            return {"num": v.numerator_as_long(), "den": v.denominator_as_long()}
        if z3.is_algebraic_value(v):
            a = v.approx(12)
            return {"num": a.numerator_as_long(), "den": a.denominator_as_long()}
        if z3.is_true(v):
            return True
        if z3.is_false(v):
            return False
        if z3.is_string_value(v):
            return v.as_string()
        return str(v)

    def shape_vals(shape):
        out_ = []
        for s in shape:
            x = val(s) if z3.is_expr(s) else s
            if not isinstance(x, int):
                return None
            out_.append(x)
        return out_

    def conv(name, leaf, depth=0):
        if isinstance(leaf, z3.ExprRef):
            return val(leaf)
        if isinstance(leaf, Cx):
            return {"re": conv(name, leaf.re), "im": conv(name, leaf.im)}
        if isinstance(leaf, SymArr):
            shp = shape_vals(leaf.shape)
            if shp is None or any(n > 6 or n < 0 for n in shp):
                return {"shape": shp, "cells": None}
            import itertools
            cells = {}
            for idx in itertools.product(*[range(n) for n in shp]):
                c = leaf.get(list(idx))
                cells[",".join(map(str, idx))] = conv(name, c)
            return {"shape": shp, "dtype": leaf.dtype, "cells": cells}
        if isinstance(leaf, SymList):
            n = val(leaf.length) if z3.is_expr(leaf.length) else leaf.length
            if not isinstance(n, int) or n > 8 or n < 0:
                return {"length": n, "items": None}
            return {"length": n, "items": [[val(z3.Select(c, k)) for c in leaf.comps] for k in range(n)]}
        if isinstance(leaf, Obj) and depth < 3:
            return {f: conv(f, x, depth + 1) for f, x in leaf.fields.items()
                    if isinstance(x, (z3.ExprRef, Cx, SymArr, SymList, int, float, str, bool)) or x is None}
        if isinstance(leaf, (int, str, bool)) or leaf is None:
            return leaf
        return repr(leaf)

    for name, leaf in (leaves or {}).items():
        try:
            out[name] = conv(name, leaf)
        except Exception as e:      # noqa
            out[name] = "<%s>" % e
    return out


def discharge(obligations, extra_axioms=(), leaves=None, workers=None):
    """fills verdict/model/seconds/backend of each obligation"""
    global _OBS
    if not obligations:
        return
    _OBS = [(ob, list(extra_axioms), leaves if not isinstance(leaves, list) else leaves[i])
            for i, ob in enumerate(obligations)]
    workers = workers or min(16, max(1, len(obligations)))
    results = []
    if workers == 1 or len(obligations) == 1:
        results = [_solve(i) for i in range(len(obligations))]
    else:
        ctx = mp.get_context("fork")
        with ctx.Pool(workers) as pool:
            results = pool.map(_solve, range(len(obligations)), chunksize=1)
    for idx, verdict, model, dt, backend, reason in results:
        ob = obligations[idx]
        ob.verdict, ob.model, ob.seconds, ob.backend = verdict, model, dt, backend
        ob.reason = reason
    _OBS = []


def check_sat(hyps, extra=(), timeout_ms=5000):
    s = z3.Solver()
    s.set("timeout", timeout_ms)
    for h in hyps:
        s.add(h)
    for e in extra:
        s.add(e)
    r = s.check()
    return "sat" if r == z3.sat else "unsat" if r == z3.unsat else "unknown"
