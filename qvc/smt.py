"""Discharging obligations: z3 (in-process, forked worker pool), cvc5 on `unknown` where the query is
expressible in SMT-LIB2 that cvc5 parses.  Verdicts: proved / refuted(model) / undecided(reason)."""
import os
import subprocess
import tempfile
import time
import multiprocessing as mp
import z3

Z3_TIMEOUT_MS = int(os.environ.get("QVC_Z3_TIMEOUT_MS", "20000"))
_OBS = []


def skolemize_goal(goal):
    """strip leading universal quantifiers of the goal (also under `A -> forall..` and conjunctions are left
    alone); returns (goal', skolem constants)"""
    sks = []
    while z3.is_quantifier(goal) and goal.is_forall():
        vs = [z3.FreshConst(goal.var_sort(i), "sk") for i in range(goal.num_vars())]
        sks.extend(vs)
        goal = z3.substitute_vars(goal.body(), *reversed(vs))
    return goal, sks


def _int_consts(t, limit=8):
    out, seen, stack = [], set(), [t]
    while stack and len(out) < limit:
        x = stack.pop()
        if x.get_id() in seen:
            continue
        seen.add(x.get_id())
        if z3.is_quantifier(x):
            stack.append(x.body())
        elif z3.is_app(x):
            if x.num_args() == 0 and x.decl().kind() == z3.Z3_OP_UNINTERPRETED and x.sort() == z3.IntSort():
                out.append(x)
            stack.extend(x.children())
    return out


def manual_instances(hyps, goal, sks, extra_cands=()):
    """instances of universally quantified hypotheses at the goal's skolem constants and free integer constants.
    Needed because bound variables that occur only under a lambda (row sums, traces) give the solver no
    E-matching pattern; every instance is a logical consequence of its hypothesis, so this is sound."""
    cands = list(sks) + [c for c in _int_consts(goal) if not any(c.eq(s_) for s_ in sks)]
    cands = [c for c in cands if c.sort() == z3.IntSort()][:8] + list(extra_cands)[:10]
    out = []
    if not cands:
        return out
    import itertools
    for h in hyps:
        if not (z3.is_quantifier(h) and h.is_forall()):
            continue
        n = h.num_vars()
        if any(h.var_sort(i) != z3.IntSort() for i in range(n)):
            continue
        if n > 2:
            # cell-wise facts about the same index tuple as the goal: instantiate position by position
            if n == len(sks):
                out.append(z3.substitute_vars(h.body(), *reversed(list(sks))))
            elif n == len(sks) + 1 and len(sks) >= 1:
                # one leading index more than the goal (a time / power / component index): try the integer constants
                # of the goal and their neighbours for it
                lead = []
                for c in cands:
                    if not any(c.eq(s_) for s_ in sks):
                        lead.extend([c, c - 1, c + 1])
                for c in lead[:24]:
                    out.append(z3.substitute_vars(h.body(), *reversed([c] + list(sks))))
            continue
        for tup in itertools.product(cands, repeat=n):
            out.append(z3.substitute_vars(h.body(), *reversed(tup)))
            if len(out) > 200:
                return out
    return out


# --------------------------------------------------------------------------------------------------
# concretised refutation search (DESIGN section 5): sizes fixed to small numerals, sums and range-bounded
# quantifiers unrolled.  Only ever produces *candidate* counter-models that the driver replays natively.

def _numeral(t):
    t = z3.simplify(t)
    return t.as_long() if z3.is_int_value(t) else None


def expand_concrete(t, cache, positive=True, span=4):
    k = (t.get_id(), positive)
    if k in cache:
        return cache[k][1]
    r = _expand(t, cache, positive, span)
    cache[k] = (t, r)          # keeping `t` alive keeps its id from being reused by another term
    return r


def _range_guard(body):
    """for  (lo<=q & q<hi) -> B  bodies (as printed by the clause evaluator) nothing special is needed: the guard
    simply evaluates to false outside the range after instantiation"""
    return body


def _expand(t, cache, positive, span):
    if z3.is_quantifier(t):
        if t.is_lambda():
            return t
        n = t.num_vars()
        if any(t.var_sort(i) != z3.IntSort() for i in range(n)) or n > 5:
            return z3.BoolVal(True)
        import itertools
        insts = []
        dom = range(-1, span + 1) if n <= 2 else range(0, span)
        for tup in itertools.product(dom, repeat=n):
            b = z3.substitute_vars(t.body(), *reversed([z3.IntVal(x) for x in tup]))
            insts.append(expand_concrete(z3.simplify(b), cache, positive, span))
        return z3.And(*insts) if t.is_forall() else z3.Or(*insts)
    if not z3.is_app(t):
        return t
    d = t.decl()
    if d.name() == "u_sum" and t.num_args() == 3:
        lo, hi = _numeral(t.arg(1)), _numeral(t.arg(2))
        F = t.arg(0)
        if lo is not None and hi is not None and hi - lo <= 8:
            terms = []
            for k in range(lo, hi):
                c = z3.simplify(z3.Select(F, z3.IntVal(k)))
                terms.append(expand_concrete(c, cache, positive, span))
            return z3.Sum(terms) if terms else z3.RealVal(0)
        return t
    kind = d.kind()
    if kind == z3.Z3_OP_SELECT:
        arr = t.arg(0)
        idx = [expand_concrete(t.arg(i), cache, positive, span) for i in range(1, t.num_args())]
        # push the select through ite / store spines down to lambdas (beta-reduce) or constants
        return _select_concrete(arr, idx, cache, positive, span)
    if kind == z3.Z3_OP_NOT:
        return z3.Not(expand_concrete(t.arg(0), cache, not positive, span))
    if kind == z3.Z3_OP_IMPLIES:
        return z3.Implies(expand_concrete(t.arg(0), cache, not positive, span),
                          expand_concrete(t.arg(1), cache, positive, span))
    if t.num_args() == 0:
        return t
    args = [expand_concrete(c, cache, positive, span) for c in t.children()]
    try:
        return d(*args)
    except Exception:      # noqa
        return t


def _select_concrete(arr, idx, cache, positive, span):
    if z3.is_quantifier(arr) and arr.is_lambda():
        body = z3.substitute_vars(arr.body(), *reversed(idx))
        return expand_concrete(z3.simplify(body), cache, positive, span)
    if z3.is_app(arr):
        k = arr.decl().kind()
        if k == z3.Z3_OP_STORE:
            n = arr.num_args()
            sidx = [expand_concrete(arr.arg(i), cache, positive, span) for i in range(1, n - 1)]
            val = expand_concrete(arr.arg(n - 1), cache, positive, span)
            same = z3.simplify(z3.And(*[a == b for a, b in zip(idx, sidx)]))
            rest = _select_concrete(arr.arg(0), idx, cache, positive, span)
            if z3.is_true(same):
                return val
            if z3.is_false(same):
                return rest
            return z3.If(same, val, rest)
        if k == z3.Z3_OP_ITE:
            c = expand_concrete(arr.arg(0), cache, positive, span)
            return z3.If(c, _select_concrete(arr.arg(1), idx, cache, positive, span),
                         _select_concrete(arr.arg(2), idx, cache, positive, span))
    return z3.Select(arr, *idx)


def abstract_lambdas(t, table, keep):
    """replace closed lambda terms (e.g. array arguments of uninterpreted functions) by fresh array constants: an
    over-approximation that turns the candidate search into a quantifier-free problem"""
    if z3.is_quantifier(t):
        if t.is_lambda():
            k = t.get_id()
            if k not in table:
                table[k] = z3.FreshConst(t.sort(), "lam")
                keep.append(t)
            return table[k]
        return t
    if not z3.is_app(t) or t.num_args() == 0:
        return t
    args = [abstract_lambdas(c, table, keep) for c in t.children()]
    try:
        return t.decl()(*args)
    except Exception:      # noqa
        return t


def concretised_candidate(ob, leaves, sizes, timeout_ms=8000):
    for n in ((2, 3, 4) if sizes else (4,)):
        sub = [(sz, z3.IntVal(n)) for sz in sizes] or [(z3.Int("qvc!none"), z3.IntVal(0))]
        cache = {}
        table, keep = {}, []
        s = z3.Solver()
        s.set("timeout", timeout_ms)
        try:
            for h in ob.hyps:
                s.add(abstract_lambdas(expand_concrete(z3.simplify(z3.substitute(h, *sub)), cache, True, n), table, keep))
            g = expand_concrete(z3.simplify(z3.substitute(ob.goal, *sub)), cache, True, n)
            g = abstract_lambdas(g, table, keep)
            s.add(z3.Not(g))
            for sz in sizes:
                s.add(sz == n)
        except z3.Z3Exception:
            continue
        if s.check() == z3.sat:
            return extract_model(s.model(), leaves)
    return None


def size_symbols(leaves):
    """integer constants used as array shapes / list lengths of the symbolic inputs"""
    from .values import SymArr, SymList, Obj
    out = {}

    def visit(x, depth=0):
        if isinstance(x, SymArr):
            for d in x.shape:
                if z3.is_expr(d) and z3.is_const(d) and d.decl().kind() == z3.Z3_OP_UNINTERPRETED:
                    out[d.get_id()] = d
        elif isinstance(x, SymList):
            d = x.length
            if z3.is_expr(d) and z3.is_const(d) and d.decl().kind() == z3.Z3_OP_UNINTERPRETED:
                out[d.get_id()] = d
        elif isinstance(x, Obj) and depth < 3:
            for v in x.fields.values():
                visit(v, depth + 1)
    for v in (leaves or {}).values():
        visit(v)
    return list(out.values())


def default_ufun_axioms(terms):
    """elementary facts about the uninterpreted real functions that stand for sqrt / exp / cos / sin, added whenever
    the function occurs: without them a counter-model may simply pick sqrt(1) = 7 (a spurious refutation)"""
    from . import values as V
    out = []
    x = z3.Real("ax_x")
    if _mentions_decl(terms, "u_sqrt"):
        f = lambda t: V.ufun("sqrt", t)         # noqa: E731
        out += [f(z3.RealVal(0)) == 0, f(z3.RealVal(1)) == 1,
                z3.ForAll([x], z3.Implies(x >= 0, z3.And(f(x) >= 0, f(x) * f(x) == x)), patterns=[f(x)])]
    if _mentions_decl(terms, "u_exp"):
        f = lambda t: V.ufun("exp", t)          # noqa: E731
        out += [f(z3.RealVal(0)) == 1, z3.ForAll([x], f(x) > 0, patterns=[f(x)])]
    # physical and mathematical constants (scipy.constants / numpy.pi are symbols): what is known about them
    if _mentions_decl(terms, "c_pi"):
        out += list(V.pi_axioms())
    if _mentions_decl(terms, "c_c"):
        out.append(z3.Real("c_c") == 299792458)            # exact SI value
    for nm in ("c_hbar", "c_h", "c_e", "c_k", "c_epsilon_0", "c_N_A"):
        if _mentions_decl(terms, nm):
            out.append(z3.Real(nm) > 0)
    if _mentions_decl(terms, "u_cos") or _mentions_decl(terms, "u_sin"):
        c_ = lambda t: V.ufun("cos", t)         # noqa: E731
        s_ = lambda t: V.ufun("sin", t)         # noqa: E731
        out += [c_(z3.RealVal(0)) == 1, s_(z3.RealVal(0)) == 0]
    return out


def _mentions_decl(terms, name):
    stack, seen = list(terms), set()
    while stack:
        x = stack.pop()
        if x.get_id() in seen:
            continue
        seen.add(x.get_id())
        if z3.is_quantifier(x):
            stack.append(x.body())
        elif z3.is_app(x):
            if x.decl().name() == name:
                return True
            stack.extend(x.children())
    return False


def sum_succ_instances(terms):
    """ground instances of the (Lean-proved) lemma sum_succ for every  u_sum(F, lo, x+1)  occurring outside binders:
    lo <= x  ->  u_sum(F, lo, x+1) == u_sum(F, lo, x) + F[x]"""
    out, seen, stack = [], set(), list(terms)
    while stack:
        t = stack.pop()
        if t.get_id() in seen or z3.is_quantifier(t) or not z3.is_app(t):
            continue
        seen.add(t.get_id())
        if t.decl().name() == "u_sum" and t.num_args() == 3:
            hi = t.arg(2)
            x = None
            if z3.is_add(hi) and hi.num_args() == 2:
                a, b = hi.arg(0), hi.arg(1)
                if z3.is_int_value(b) and b.as_long() == 1:
                    x = a
                elif z3.is_int_value(a) and a.as_long() == 1:
                    x = b
            if x is not None:
                F, lo = t.arg(0), t.arg(1)
                out.append(z3.Implies(lo <= x, t == t.decl()(F, lo, x) + z3.Select(F, x)))
        stack.extend(t.children())
    return out


def _ground_sums(terms):
    """sums occurring outside binders, in the order of `terms` (the goal's sums first: the callers limit the number of
    pairs they look at, and the pairs with a sum of the goal are the ones that matter)"""
    out, seen = [], set()
    for t0 in terms:
        stack = [t0]
        while stack:
            t = stack.pop()
            if t.get_id() in seen or z3.is_quantifier(t) or not z3.is_app(t):
                continue
            seen.add(t.get_id())
            if t.decl().name() == "u_sum" and t.num_args() == 3 and z3.is_quantifier(t.arg(0)):
                out.append(t)
            stack.extend(t.children())
    return out


def _ite_conditions(t):
    """conditions of if-then-else terms occurring in `t` outside binders"""
    out, seen, stack = [], set(), [t]
    while stack:
        x = stack.pop()
        if x.get_id() in seen or z3.is_quantifier(x) or not z3.is_app(x):
            continue
        seen.add(x.get_id())
        if x.decl().kind() == z3.Z3_OP_ITE and not _has_quantifier(x.arg(0)) and not any(x.arg(0).eq(c) for c in out):
            out.append(x.arg(0))
        stack.extend(x.children())
    return out


def _symbols(t):
    out, seen, stack = set(), set(), [t]
    while stack:
        x = stack.pop()
        if x.get_id() in seen:
            continue
        seen.add(x.get_id())
        if z3.is_quantifier(x):
            stack.append(x.body())
        elif z3.is_app(x):
            if x.decl().kind() == z3.Z3_OP_UNINTERPRETED:
                out.add(x.decl().name())
            stack.extend(x.children())
    return out


def sum_ext_instances(terms, depth=2, limit=60, n_goal=0):
    """ground instances of the (Lean-proved) lemma sum_ext for pairs of sums with the same bounds, with the summands
    beta-reduced at a fresh index; repeated for the inner sums that become visible (nested sums).  The solver's
    E-matching does not see sums that only appear after a beta reduction, hence this helper.  The first `n_goal`
    terms are the goal: each of its sums gets its own share of the limit (pairs of two hypothesis sums come last)."""
    from .values import select
    out, keep = [], []
    level = _ground_sums(terms)
    n_first = len(_ground_sums(terms[:n_goal])) if n_goal else 0
    done = set()
    for d_ in range(depth):
        nxt = []
        pairs = []
        if d_ == 0 and n_first:
            share = max(limit // n_first, 20)
            sym = [_symbols(t.arg(0)) for t in level]
            for i in range(n_first):
                # partners most alike the goal's sum first (same functions and constants in the summand)
                js = sorted((j for j in range(len(level)) if j != i),
                            key=lambda j: -len(sym[i] & sym[j]) / float(len(sym[i] | sym[j]) or 1))
                pairs += [(i, j) for j in js][:share]
        pairs += [(i, j) for i in range(len(level)) for j in range(i + 1, len(level))]
        for (i, j) in pairs:
                a, b = level[i], level[j]
                if a.get_id() == b.get_id() or not (a.arg(1).eq(b.arg(1)) and a.arg(2).eq(b.arg(2))):
                    continue
                key = (min(a.get_id(), b.get_id()), max(a.get_id(), b.get_id()))
                if key in done:
                    continue
                done.add(key)
                sk = z3.FreshConst(z3.IntSort(), "ext")
                fa, fb = select(a.arg(0), [sk]), select(b.arg(0), [sk])
                keep.extend([fa, fb])
                out.append(z3.Or(z3.And(a.arg(1) <= sk, sk < a.arg(2), fa != fb), a == b))
                nxt.extend(_ground_sums([fa, fb]))
                if len(out) >= limit:
                    return out
        level = nxt
        if not level:
            break
    return out


WALL_FACTOR = 12
_CLK = os.sysconf("SC_CLK_TCK") if hasattr(os, "sysconf") else 100


def _cpu_seconds(pid):
    """CPU time (user + system) consumed so far by a child process"""
    try:
        with open("/proc/%d/stat" % pid) as f:
            parts = f.read().rsplit(")", 1)[1].split()
        return (int(parts[11]) + int(parts[12])) / float(_CLK)
    except Exception:      # noqa
        return 0.0


def _hard_check_once(assertions, tmo_ms, seed=0, leaves=None, grace_s=2.0, z3_factor=1):
    """z3 check in a forked child with a hard limit on the child's CPU time (z3's own `timeout` is wall-clock and is not
    honoured inside some non-linear / preprocessing phases: the same query then runs for a minute instead of a second;
    a wall-clock limit of ours turned proofs into time-outs on a machine with fewer free cores than workers).  Returns
    (verdict, model, reason) with verdict in unsat / sat / unknown; the model is extracted in the child."""
    import pickle, select, signal
    rfd, wfd = os.pipe()
    pid = os.fork()
    if pid == 0:
        code = 0
        try:
            os.close(rfd)
            sx = z3.Solver()
            # z3's own limit is wall-clock; the parent enforces the budget in CPU time of this child and repeats the
            # attempt with a larger wall-clock limit when the child was starved (see _hard_check)
            sx.set("timeout", int(tmo_ms) * z3_factor)
            sx.set("random_seed", int(seed))
            for a_ in assertions:
                sx.add(a_)
            res = sx.check()
            if res == z3.sat:
                payload = ("sat", extract_model(sx.model(), leaves) if leaves is not None else None, "")
            elif res == z3.unsat:
                payload = ("unsat", None, "")
            else:
                payload = ("unknown", None, sx.reason_unknown())
            data = pickle.dumps(payload)
            off = 0
            while off < len(data):
                off += os.write(wfd, data[off:off + 65536])
        except BaseException as e:      # noqa
            try:
                os.write(wfd, pickle.dumps(("unknown", None, "child error: %s" % e)))
            except Exception:           # noqa
                pass
            code = 1
        finally:
            os._exit(code)
    os.close(wfd)
    cpu_budget = tmo_ms / 1000.0 + grace_s
    deadline = time.time() + cpu_budget * max(2, z3_factor) * 1.5          # wall-clock cap of this attempt
    chunks = []
    timed_out = False
    cpu_used = [0.0]
    while True:
        left = deadline - time.time()
        cpu_used[0] = max(cpu_used[0], _cpu_seconds(pid))
        if left <= 0 or cpu_used[0] > cpu_budget:
            timed_out = True
            break
        rl, _, _ = select.select([rfd], [], [], min(left, 0.1))
        if not rl:
            continue
        b = os.read(rfd, 1 << 16)
        if not b:
            break
        chunks.append(b)
    os.close(rfd)
    if timed_out:
        try:
            os.kill(pid, signal.SIGKILL)
        except OSError:
            pass
    try:
        os.waitpid(pid, 0)
    except OSError:
        pass
    if timed_out:
        return "unknown", None, "hard timeout (%d ms)" % tmo_ms, cpu_used[0]
    try:
        return tuple(pickle.loads(b"".join(chunks))) + (cpu_used[0],)
    except Exception as e:      # noqa
        return "unknown", None, "no answer from the solver process: %s" % e, cpu_used[0]


def _hard_check(assertions, tmo_ms, seed=0, leaves=None, grace_s=2.0):
    """the attempt with z3's own (wall-clock) limit equal to the nominal budget - the configuration all proofs were
    developed with; if z3 gives up on its wall-clock limit although the child has used well under the budget in CPU
    time (a machine with fewer free cores than workers), the same attempt is repeated with twice the wall-clock limit,
    up to 16 times the nominal one.  On a machine with enough cores nothing is ever repeated."""
    factor = 1
    while True:
        verdict, model, reason, cpu = _hard_check_once(assertions, tmo_ms, seed, leaves, grace_s, z3_factor=factor)
        starved = verdict == "unknown" and cpu < 0.6 * (tmo_ms / 1000.0) and \
            any(w in (reason or "") for w in ("timeout", "canceled", "hard timeout"))
        if not starved or factor >= 16:
            return verdict, model, reason
        factor *= 2


_EUF_KINDS = None


def euf_abstract(terms):
    """arithmetic operators replaced by uninterpreted functions (per operator and arity): what is valid under this
    abstraction is valid in arithmetic (only congruence and equality reasoning are left), so `unsat` is a proof.
    Used for goals that follow from proved equalities by substitution inside large non-linear terms."""
    global _EUF_KINDS
    if _EUF_KINDS is None:
        _EUF_KINDS = {z3.Z3_OP_ADD: "add", z3.Z3_OP_MUL: "mul", z3.Z3_OP_SUB: "sub", z3.Z3_OP_DIV: "div",
                      z3.Z3_OP_UMINUS: "neg", z3.Z3_OP_IDIV: "idiv", z3.Z3_OP_MOD: "mod", z3.Z3_OP_POWER: "pow",
                      z3.Z3_OP_TO_REAL: "toreal", z3.Z3_OP_TO_INT: "toint"}
    cache = {}
    funs = {}
    keep = []

    def go(t):
        key = t.get_id()
        if key in cache:
            return cache[key]
        if z3.is_quantifier(t):
            if t.is_lambda():
                # a summand / array comprehension: an opaque array constant (the same term gives the same constant)
                r = z3.Const("euf_lam_%d" % key, t.sort())
                keep.append(t)
                cache[key] = r
                return r
            raise ValueError("quantifier")
        if not z3.is_app(t) or t.num_args() == 0:
            cache[key] = t
            return t
        args = [go(c) for c in t.children()]
        k = t.decl().kind()
        if k in _EUF_KINDS:
            sig = (_EUF_KINDS[k], tuple(a.sort().name() for a in args), t.sort().name())
            f = funs.get(sig)
            if f is None:
                f = funs[sig] = z3.Function("euf_%s_%d_%d" % (sig[0], len(args), len(funs)),
                                            *([a.sort() for a in args] + [t.sort()]))
            r = f(*args)
        else:
            r = t.decl()(*args)
        keep.append(t)
        cache[key] = r
        return r
    return [go(t) for t in terms]


_FAILS = None          # shared counter of obligations that were not proved in this discharge (set before the fork)
FAIL_LIMIT = int(os.environ.get("QVC_FAIL_LIMIT", "32"))


def _solve(idx):
    r = _solve_inner(idx)
    if _FAILS is not None and r[1] != "proved":
        _FAILS.value += 1
    return r


def _short_mode():
    """after many obligations of one run failed (a broken tree: hundreds of downstream obligations fail with it) the
    remaining ones get the short attempts only; nothing changes on a tree where the obligations hold"""
    return _FAILS is not None and _FAILS.value > FAIL_LIMIT


def _solve_inner(idx):
    ob, extra_axioms, leaves = _OBS[idx]
    t0 = time.time()
    s = z3.Solver()
    s.set("timeout", Z3_TIMEOUT_MS)
    for h in ob.hyps:
        s.add(h)
    plain_axioms, sum_axioms = extra_axioms if isinstance(extra_axioms, tuple) else (extra_axioms, [])
    plain_axioms = list(plain_axioms) + default_ufun_axioms(list(ob.hyps) + [ob.goal])
    for a in plain_axioms:
        s.add(a)
    goal, sks = skolemize_goal(ob.goal)
    if sum_axioms and _mentions_decl(list(ob.hyps) + [ob.goal], "u_sum"):
        for a in sum_axioms:
            s.add(a)
        for a in sum_succ_instances([goal]):
            s.add(a)
    insts = manual_instances(ob.hyps, goal, sks)
    if sum_axioms and _mentions_decl(list(ob.hyps) + [ob.goal], "u_sum"):
        # ground instances of sum_empty for every sum outside binders: needed by the attempts that leave the quantified
        # sum axioms out (loop-invariant initialisation is typically "sum over an empty range is zero")
        for t_ in _ground_sums([goal] + [h for h in ob.hyps if not _has_quantifier(h)] + list(insts))[:80]:
            s.add(z3.Implies(t_.arg(2) <= t_.arg(1), t_ == 0))
    more_insts = []
    if sum_axioms and _mentions_decl([goal], "u_sum"):
        ext = sum_ext_instances([goal] + list(insts), n_goal=1)
        for a in ext:
            s.add(a)
        # cell-wise hypotheses are also needed at the fresh indices introduced by the extensionality instances
        ext_sk = []
        for a in ext:
            for c in _int_consts(a, limit=40):
                if c.decl().name().startswith("ext") and not any(c.eq(x) for x in ext_sk):
                    ext_sk.append(c)
        if ext_sk:
            more_insts = manual_instances(ob.hyps, goal, sks, extra_cands=ext_sk)
    # stage 0: quantifier-free hypotheses and ground instances only (fewer hypotheses: a proof here is a proof);
    # quantified hypotheses that are irrelevant to the goal otherwise make the solver diverge on non-linear goals
    if not _has_quantifier(goal):
        a0 = [h for h in list(ob.hyps) + list(plain_axioms) + list(insts) if not _has_quantifier(h)]
        a0.append(z3.Not(goal))
        if _hard_check(a0, 1200, grace_s=0.8)[0] == "unsat":
            return idx, "proved", None, time.time() - t0, "z3", None
    for inst in insts:
        s.add(inst)
    s.add(z3.Not(goal))
    # congruence-only attempt on the quantifier-free part (cheap; decides goals that follow from proved equalities by
    # substitution inside non-linear terms, where the arithmetic solvers do not terminate)
    try:
        qf = [a_ for a_ in s.assertions() if not _has_quantifier(a_)]
        if len(qf) < len(s.assertions()) or True:
            ab = euf_abstract(qf)
            if _hard_check(ab, 3000, grace_s=1.0)[0] == "unsat":
                return idx, "proved", None, time.time() - t0, "z3-euf", None
    except ValueError:
        pass
    # portfolio with restarts: the sum/extensionality queries have heavy-tailed running times (the same obligation takes
    # 2 s or 60 s depending on the fresh names), so several short attempts with different seeds and with / without the
    # additional ground instances are far more stable than a single long one.  Every added instance is a consequence of
    # a hypothesis, so `unsat` of any attempt is a proof and `sat` of any attempt is a counter-model of the obligation.
    base = list(s.assertions())
    budget = Z3_TIMEOUT_MS
    ids = set(a_.get_id() for a_ in (sum_axioms or []))
    lean_ = [a_ for a_ in base if a_.get_id() not in ids]
    if sum_axioms and _mentions_decl([goal], "u_sum"):
        # first without the quantified sum axioms: their ground instances above (extensionality at fresh indices,
        # unfolding at the upper end, empty ranges) are usually all that is needed, and with many sums around the
        # quantified extensionality axiom makes the search diverge.  Fewer hypotheses: unsat here is a proof.
        if _hard_check(lean_ + list(more_insts), 3000 if _short_mode() else 12000, 3)[0] == "unsat":
            return idx, "proved", None, time.time() - t0, "z3", None
    # split on the condition of a conditional in the goal (a store into one slab of an array read back at an arbitrary
    # index: `k == i` / `k != i`): both cases unsat is a proof, and each case is far easier - often pure congruence
    conds = _ite_conditions(goal)[:2]
    if conds and not _short_mode():
        import itertools as _it
        ok = True
        for signs in _it.product((True, False), repeat=len(conds)):
            case = [c if sg else z3.Not(c) for c, sg in zip(conds, signs)]
            try:
                qf_ = [a_ for a_ in lean_ + list(more_insts) + case if not _has_quantifier(a_)]
                if _hard_check(euf_abstract(qf_), 3000, grace_s=1.0)[0] == "unsat":
                    continue
            except ValueError:
                pass
            if _hard_check(lean_ + list(more_insts) + case, 8000, 5)[0] != "unsat":
                ok = False
                break
        if ok:
            return idx, "proved", None, time.time() - t0, "z3", None
    attempts = [(True, budget // 6, 0), (False, budget // 6, 0), (True, budget // 3, 7), (False, budget // 3, 7),
                (True, budget, 13), (False, budget, 13)]
    if not more_insts:
        attempts = [(False, budget // 6, 0), (False, budget // 3, 7), (False, budget, 13)]
    if _short_mode():
        attempts = attempts[:2]
    verdict, model, reason = "unknown", None, ""
    import random
    for k_att, (with_more, tmo, seed) in enumerate(attempts):
        asserts = base + (list(more_insts) if with_more else [])
        if k_att >= 2:
            # restarts also permute the assertions: the search is sensitive to their order
            random.Random(seed + k_att).shuffle(asserts)
        verdict, model, why = _hard_check(asserts, tmo, seed, leaves)
        if verdict != "unknown":
            break
        reason = why
        if os.environ.get("QVC_DUMP_SLOW"):
            sx = z3.Solver()
            for a_ in base + (list(more_insts) if with_more else []):
                sx.add(a_)
            with open(os.path.join(os.environ["QVC_DUMP_SLOW"], "slow_%d_%d_%s.smt2" % (os.getpid(), tmo, with_more)), "w") as f_:
                f_.write(sx.to_smt2())
    dt = time.time() - t0
    if verdict == "unsat":
        return idx, "proved", None, dt, "z3", None
    if verdict == "sat":
        return idx, "refuted", model, dt, "z3", None
    insts = list(insts) + list(more_insts)
    # second opinion
    smt2 = s.to_smt2()
    v2 = cvc5_check(smt2)
    if v2 == "unsat":
        return idx, "proved", None, time.time() - t0, "cvc5", None
    # relaxation: quantified hypotheses/axioms replaced by their manual instances.  A model of the relaxation is only
    # a *candidate* counter-model; the driver replays it natively and reports a violation only if the real code
    # violates the property on it.
    s2 = z3.Solver()
    s2.set("timeout", Z3_TIMEOUT_MS // 2)
    for h in list(ob.hyps) + list(plain_axioms):
        if not _has_quantifier(h):
            s2.add(h)
    for inst in insts:
        if not _has_quantifier(inst):
            s2.add(inst)
    if not _has_quantifier(goal):
        s2.add(z3.Not(goal))
        if s2.check() == z3.sat:
            return (idx, "candidate", extract_model(s2.model(), leaves), time.time() - t0, "z3",
                    "z3: %s; cvc5: %s; counter-model of the quantifier-free relaxation" % (reason, v2))
    try:
        cm = None if _short_mode() else concretised_candidate(ob, leaves, size_symbols(leaves))
    except Exception as e:      # noqa
        cm = None
    if cm is not None:
        return (idx, "candidate", cm, time.time() - t0, "z3",
                "z3: %s; cvc5: %s; counter-model of the concretised obligation (sizes 2..3, sums unrolled)" % (reason, v2))
    return idx, "undecided", None, time.time() - t0, "z3", "z3: %s; cvc5: %s" % (reason, v2)


def cvc5_check(smt2, timeout_s=20):
    try:
        with tempfile.NamedTemporaryFile("w", suffix=".smt2", delete=False, dir=os.environ.get("TMPDIR", "/tmp")) as f:
            f.write("(set-logic ALL)\n" + smt2)
            path = f.name
        try:
            p = subprocess.run(["/usr/bin/cvc5", "--tlimit=%d" % (timeout_s * 1000), path],
                               capture_output=True, text=True, timeout=timeout_s + 5)
            out = (p.stdout or "").strip().splitlines()
            if out and out[0] in ("sat", "unsat", "unknown"):
                return out[0]
            return "error: " + ((p.stdout or "") + (p.stderr or "")).strip()[:200]
        finally:
            os.unlink(path)
    except Exception as e:      # noqa
        return "error: %s" % e


def extract_model(m, leaves):
    """concrete values of the named input symbols (ints, reals, bools, strings; small arrays cell by cell);
    the entry `__args__` (pre-state snapshot of the arguments) is converted structurally for the generic replay"""
    from .values import SymArr, SymList, Obj, Cx, Range
    out = {}

    def val(t):
        v = m.eval(t, model_completion=True)
        if z3.is_int_value(v):
            return v.as_long()
        if z3.is_rational_value(v):
            return {"num": v.numerator_as_long(), "den": v.denominator_as_long()}
        if z3.is_algebraic_value(v):
            a = v.approx(12)
            return {"num": a.numerator_as_long(), "den": a.denominator_as_long()}
        if z3.is_true(v):
            return True
        if z3.is_false(v):
            return False
        if z3.is_string_value(v):
            return v.as_string()
        return str(v)

    def shape_vals(shape):
        out_ = []
        for s in shape:
            x = val(s) if z3.is_expr(s) else s
            if not isinstance(x, int):
                return None
            out_.append(x)
        return out_

    def conv(leaf, depth=0, tree=False):
        if isinstance(leaf, z3.ExprRef):
            return val(leaf)
        if isinstance(leaf, Cx):
            return {"re": conv(leaf.re), "im": conv(leaf.im)}
        if isinstance(leaf, SymArr):
            shp = shape_vals(leaf.shape)
            if shp is None or any(n > 6 or n < 0 for n in shp) or len(shp) > 4:
                return {"__array__": 1, "shape": shp, "dtype": leaf.dtype, "cells": None, "__id__": id(leaf)}
            import itertools
            cells = {}
            for idx in itertools.product(*[range(n) for n in shp]):
                c = leaf.get(list(idx))
                cells[",".join(map(str, idx))] = conv(c)
            return {"__array__": 1, "shape": shp, "dtype": leaf.dtype, "cells": cells, "__id__": id(leaf)}
        if isinstance(leaf, SymList):
            n = val(leaf.length) if z3.is_expr(leaf.length) else leaf.length
            if not isinstance(n, int) or n > 8 or n < 0:
                return {"__symlist__": 1, "width": leaf.width, "length": n, "items": None}
            return {"__symlist__": 1, "width": leaf.width, "length": n,
                    "items": [[val(z3.Select(c, k)) for c in leaf.comps] for k in range(n)]}
        if isinstance(leaf, Obj):
            if depth > 4:
                return None
            cls = getattr(leaf.cls, "qualname", None) or str(leaf.cls)
            fields = {}
            for f, x in leaf.fields.items():
                try:
                    fields[f] = conv(x, depth + 1, tree)
                except Exception:      # noqa
                    pass
            if tree:
                return {"__obj__": cls, "fields": fields, "__id__": id(leaf)}
            return fields
        if isinstance(leaf, Range):
            return {"__range__": [conv(leaf.lo), conv(leaf.hi)]}
        if isinstance(leaf, tuple):
            return {"__tuple__": [conv(x, depth + 1, tree) for x in leaf]}
        if isinstance(leaf, list):
            return [conv(x, depth + 1, tree) for x in leaf]
        if isinstance(leaf, dict):
            maybe = getattr(leaf, "maybe", {})
            return {str(k): conv(x, depth + 1, tree) for k, x in leaf.items() if isinstance(k, (str, int))
                    and (k not in maybe or z3.is_true(m.eval(maybe[k], model_completion=True)))}
        if isinstance(leaf, (int, str, bool, float)) or leaf is None:
            return leaf
        from fractions import Fraction
        if isinstance(leaf, Fraction):
            return {"num": leaf.numerator, "den": leaf.denominator}
        return None

    for name, leaf in (leaves or {}).items():
        try:
            if name == "__args__":
                out[name] = {k: conv(v, 0, True) for k, v in leaf.items()
                             if k not in ("__memo__", "__closure_parent__")}
            elif name == "__singletons__":
                out[name] = {k: conv(v, 0, True) for k, v in leaf.items()}
            elif name.startswith("__"):
                out[name] = leaf
            else:
                out[name] = conv(leaf)
        except Exception as e:      # noqa
            out[name] = "<%s>" % e
    return out


def _robust_map(fn, indices, workers, on_crash, per_task_timeout_s=900):
    """fn over indices in forked worker processes.  A worker that dies (a segmentation fault inside the solver library
    has been seen) must neither hang the run (multiprocessing.Pool.map waits forever for the lost task) nor take the
    other tasks with it: after a broken pool the tasks without a result are re-run one process per task, and a task
    whose own process dies or exceeds the time limit gets `on_crash(index, reason)` - an undecided verdict, never a
    proof and never a violation."""
    from concurrent.futures import ProcessPoolExecutor, as_completed
    from concurrent.futures.process import BrokenProcessPool
    ctx = mp.get_context("fork")
    results = {}
    try:
        with ProcessPoolExecutor(max_workers=workers, mp_context=ctx) as ex:
            futs = {ex.submit(fn, i): i for i in indices}
            for f in as_completed(futs):
                try:
                    results[futs[f]] = f.result()
                except BrokenProcessPool:
                    break
    except BrokenProcessPool:
        pass
    rest = [i for i in indices if i not in results]
    if rest:
        def child(i, conn):
            try:
                conn.send(fn(i))
            finally:
                conn.close()
        running = {}
        todo = list(rest)
        while todo or running:
            while todo and len(running) < workers:
                i = todo.pop(0)
                a, b = ctx.Pipe(duplex=False)
                pr = ctx.Process(target=child, args=(i, b))
                pr.start()
                b.close()
                running[i] = (pr, a, time.time())
            for i, (pr, a, t0) in list(running.items()):
                if a.poll(0.05):
                    try:
                        results[i] = a.recv()
                    except EOFError:
                        results[i] = on_crash(i, "exit code %s" % pr.exitcode)
                    pr.join(5)
                    del running[i]
                elif not pr.is_alive():
                    pr.join(1)
                    if a.poll(0):
                        try:
                            results[i] = a.recv()
                        except EOFError:
                            results[i] = on_crash(i, "exit code %s" % pr.exitcode)
                    else:
                        results[i] = on_crash(i, "exit code %s" % pr.exitcode)
                    del running[i]
                elif time.time() - t0 > per_task_timeout_s:
                    pr.kill()
                    pr.join(5)
                    results[i] = on_crash(i, "no answer within %d s" % per_task_timeout_s)
                    del running[i]
    return [results[i] for i in indices]


def discharge(obligations, extra_axioms=(), leaves=None, workers=None):
    """fills verdict/model/seconds/backend of each obligation"""
    global _OBS
    if not obligations:
        return
    _OBS = [(ob, extra_axioms if isinstance(extra_axioms, tuple) else list(extra_axioms),
             leaves if not isinstance(leaves, list) else leaves[i])
            for i, ob in enumerate(obligations)]
    global _FAILS
    _FAILS = mp.Value("i", 0, lock=False)       # a heuristic counter: races only delay the switch to short attempts
    workers = workers or min(16, max(1, len(obligations)))
    results = []
    if workers == 1 or len(obligations) == 1:
        results = [_solve(i) for i in range(len(obligations))]
    else:
        results = _robust_map(_solve, list(range(len(obligations))), workers,
                              lambda i, why: (i, "undecided", None, 0.0, "z3", "solver process crashed (%s)" % why))
    for idx, verdict, model, dt, backend, reason in results:
        ob = obligations[idx]
        ob.verdict, ob.model, ob.seconds, ob.backend = verdict, model, dt, backend
        ob.reason = reason
    _OBS = []


_VAC = []


def _vac_one(i):
    hyps, goal, full, extra = _VAC[i]
    if not full:
        hyps = [h for h in hyps if not _has_quantifier(h)]
        extra = []
    r = check_sat(hyps, extra, 10000 if full else 2000)
    r2 = "n/a"
    if r != "unsat" and goal is not None and (full or not _has_quantifier(goal)):
        r2 = check_sat(list(hyps) + [goal], extra, 10000 if full else 2000)
    return r, r2


def _has_quantifier(t):
    stack, seen = [t], set()
    while stack:
        x = stack.pop()
        if x.get_id() in seen:
            continue
        seen.add(x.get_id())
        if z3.is_quantifier(x):
            if not x.is_lambda():
                return True
            stack.append(x.body())
        elif z3.is_app(x):
            stack.extend(x.children())
    return False


def vacuity(items, full=False, extra=()):
    """items: [(hyps, goal)] -> [(hyps sat?, hyps+goal sat?)]; quick tier checks the quantifier-free part of the
    hypotheses (a contradiction there is what a wrong `requires` produces), thorough tier the whole set"""
    global _VAC
    _VAC = [(h, g, full, list(extra)) for h, g in items]
    if not _VAC:
        return []
    out = _robust_map(_vac_one, list(range(len(_VAC))), min(16, len(_VAC)), lambda i, why: ("unknown", "n/a"),
                      per_task_timeout_s=120)
    _VAC = []
    return out


def check_sat(hyps, extra=(), timeout_ms=5000):
    s = z3.Solver()
    s.set("timeout", timeout_ms)
    for h in hyps:
        s.add(h)
    for e in extra:
        s.add(e)
    r = s.check()
    return "sat" if r == z3.sat else "unsat" if r == z3.unsat else "unknown"
