"""Symbolic values of the qvc executor.

Shape-concrete / leaf-symbolic: containers (lists of static length, tuples, dicts with concrete keys,
objects) are ordinary Python structures shared by reference exactly as in CPython; leaves are either
concrete Python scalars or z3 terms.  NumPy arrays are `SymArr` (a z3 array term Int^r -> Real/Int plus a
ghost shape; complex arrays carry a second term for the imaginary part).
"""
import itertools
from fractions import Fraction
import z3

_counter = itertools.count()


def fresh(prefix, sort):
    return z3.Const("%s!%d" % (prefix, next(_counter)), sort)


def fresh_name(prefix):
    return "%s!%d" % (prefix, next(_counter))


class Unsupported(Exception):
    """Construct outside the modelled subset; reported, never ignored."""


# --------------------------------------------------------------------------------------------------
# scalars

def is_z3(v):
    return isinstance(v, z3.ExprRef)


def is_sym(v):
    return isinstance(v, (z3.ExprRef, Cx)) and not is_concrete(v)


def is_concrete(v):
    if isinstance(v, Cx):
        return is_concrete(v.re) and is_concrete(v.im)
    return not isinstance(v, z3.ExprRef)


def z3real(v):
    """Coerce a scalar to a z3 Real term."""
    if isinstance(v, z3.ExprRef):
        if v.sort() == z3.RealSort():
            return v
        if v.sort() == z3.IntSort():
            return z3.ToReal(v)
        if v.sort() == z3.BoolSort():
            return z3.If(v, z3.RealVal(1), z3.RealVal(0))
        raise Unsupported("cannot coerce %s to Real" % v.sort())
    if isinstance(v, bool):
        return z3.RealVal(1 if v else 0)
    if isinstance(v, int):
        return z3.RealVal(v)
    if isinstance(v, float):
        return z3.RealVal(Fraction(repr(v))) if v == v and abs(v) != float("inf") \
            else _unsup("non-finite float literal")
    if isinstance(v, Fraction):
        return z3.RealVal(v)
    raise Unsupported("cannot coerce %r to Real" % (v,))


def _unsup(msg):
    raise Unsupported(msg)


def z3int(v):
    if isinstance(v, z3.ExprRef):
        if v.sort() == z3.IntSort():
            return v
        if v.sort() == z3.BoolSort():
            return z3.If(v, z3.IntVal(1), z3.IntVal(0))
        raise Unsupported("cannot coerce %s to Int" % v.sort())
    if isinstance(v, bool):
        return z3.IntVal(1 if v else 0)
    if isinstance(v, int):
        return z3.IntVal(v)
    raise Unsupported("cannot coerce %r to Int" % (v,))


def z3bool(v):
    if isinstance(v, z3.ExprRef):
        if v.sort() == z3.BoolSort():
            return v
        if v.sort() == z3.IntSort():
            return v != 0
        if v.sort() == z3.RealSort():
            return v != 0
        raise Unsupported("truthiness of %s" % v.sort())
    return z3.BoolVal(bool(v))


def z3str(v):
    if isinstance(v, z3.ExprRef):
        return v
    if isinstance(v, str):
        return z3.StringVal(v)
    raise Unsupported("cannot coerce %r to String" % (v,))


def sort_of(v):
    """'int' | 'real' | 'bool' | 'str' | 'cx' | None for non-scalars"""
    if isinstance(v, Cx):
        return "cx"
    if isinstance(v, z3.ExprRef):
        s = v.sort()
        if s == z3.IntSort():
            return "int"
        if s == z3.RealSort():
            return "real"
        if s == z3.BoolSort():
            return "bool"
        if s == z3.StringSort():
            return "str"
        return None
    if isinstance(v, bool):
        return "bool"
    if isinstance(v, int):
        return "int"
    if isinstance(v, (float, Fraction)):
        return "real"
    if isinstance(v, complex):
        return "cx"
    if isinstance(v, str):
        return "str"
    return None


class Cx:
    """complex scalar as a pair of reals (exact field arithmetic)"""
    __slots__ = ("re", "im")

    def __init__(self, re, im=0):
        self.re = re
        self.im = im

    @staticmethod
    def of(v):
        if isinstance(v, Cx):
            return v
        if isinstance(v, complex):
            return Cx(v.real, v.imag)
        return Cx(v, 0)

    def __repr__(self):
        return "Cx(%s, %s)" % (self.re, self.im)


def _num(v):
    """python float -> Fraction so that concrete arithmetic stays exact"""
    if isinstance(v, float):
        # the decimal the programmer wrote (shortest round-trip representation), exactly
        if v != v or abs(v) == float("inf"):
            raise Unsupported("non-finite float")
        return Fraction(repr(v))
    return v


def arith(op, a, b):
    """op in + - * / // % ** on scalars (python, z3, Cx)"""
    if isinstance(a, complex):
        a = Cx.of(a)
    if isinstance(b, complex):
        b = Cx.of(b)
    if isinstance(a, Cx) or isinstance(b, Cx):
        return _cx_arith(op, Cx.of(a), Cx.of(b))
    a, b = _num(a), _num(b)
    ca, cb = not is_z3(a), not is_z3(b)
    if ca and cb:
        return _py_arith(op, a, b)
    sa, sb = sort_of(a), sort_of(b)
    if sa == "str" or sb == "str":
        if op == "+":
            return z3.Concat(z3str(a), z3str(b))
        raise Unsupported("string op " + op)
    both_int = sa in ("int", "bool") and sb in ("int", "bool")
    if op in ("+", "-", "*"):
        # algebraic short cuts keep terms small
        if cb and b == 0 and op in ("+", "-"):
            return a
        if ca and a == 0 and op == "+":
            return b
        if op == "*" and ((ca and a == 0) or (cb and b == 0)):
            return 0
        if op == "*" and ca and a == 1:
            return b
        if op == "*" and cb and b == 1:
            return a
        x, y = (z3int(a), z3int(b)) if both_int else (z3real(a), z3real(b))
        return x + y if op == "+" else x - y if op == "-" else x * y
    if op == "/":
        return z3real(a) / z3real(b)
    if op == "//":
        if both_int:
            return z3int(a) / z3int(b)          # z3 Int division: floor for positive divisor
        raise Unsupported("// on reals")
    if op == "%":
        if both_int:
            return z3int(a) % z3int(b)
        raise Unsupported("% on reals")
    if op == "**":
        if cb and isinstance(b, int) and 0 <= b <= 8:
            r = 1
            for _ in range(b):
                r = arith("*", r, a)
            return r
        if cb and isinstance(b, int) and -8 <= b < 0:
            return arith("/", 1, arith("**", a, -b))
        if cb and b == Fraction(1, 2):
            return ufun("sqrt", a)
        return ufun2("pow", a, b)
    raise Unsupported("operator " + op)


def _py_arith(op, a, b):
    if op == "+":
        return a + b
    if op == "-":
        return a - b
    if op == "*":
        return a * b
    if op == "/":
        if b == 0:
            raise Unsupported("concrete division by zero")
        return Fraction(a) / Fraction(b)
    if op == "//":
        return a // b
    if op == "%":
        return a % b
    if op == "**":
        if isinstance(b, Fraction) and b.denominator != 1:
            return ufun2("pow", a, b)
        return a ** int(b)
    raise Unsupported("operator " + op)


def _is_zero(x):
    return not is_z3(x) and x == 0


def _cx_arith(op, a, b):
    # a purely real operand scales / divides component-wise (keeps the terms linear in the real factor)
    if op == "*" and _is_zero(b.im):
        return Cx(arith("*", a.re, b.re), arith("*", a.im, b.re))
    if op == "*" and _is_zero(a.im):
        return Cx(arith("*", a.re, b.re), arith("*", a.re, b.im))
    if op == "/" and _is_zero(b.im):
        return Cx(arith("/", a.re, b.re), arith("/", a.im, b.re))
    if op == "+":
        return Cx(arith("+", a.re, b.re), arith("+", a.im, b.im))
    if op == "-":
        return Cx(arith("-", a.re, b.re), arith("-", a.im, b.im))
    if op == "*":
        return Cx(arith("-", arith("*", a.re, b.re), arith("*", a.im, b.im)),
                  arith("+", arith("*", a.re, b.im), arith("*", a.im, b.re)))
    if op == "/":
        den = arith("+", arith("*", b.re, b.re), arith("*", b.im, b.im))
        num = _cx_arith("*", a, Cx(b.re, arith("-", 0, b.im)))
        return Cx(arith("/", num.re, den), arith("/", num.im, den))
    if op == "**" and not is_z3(b.re) and b.im == 0 and isinstance(b.re, int) and 0 <= b.re <= 8:
        r = Cx(1, 0)
        for _ in range(b.re):
            r = _cx_arith("*", r, a)
        return r
    raise Unsupported("complex operator " + op)


_ufuns = {}


def ufun(name, x):
    """uninterpreted real function (exp, sqrt, ...); axioms are supplied by numpy_model"""
    f = _ufuns.get(name)
    if f is None:
        f = _ufuns[name] = z3.Function("u_" + name, z3.RealSort(), z3.RealSort())
    # the argument in simplified form: equal arguments written differently (-(−1)·x, 1·x) become the same term, so that
    # equal function values are found by congruence instead of by non-linear arithmetic
    return f(z3.simplify(z3real(x)))


def ufun2(name, x, y):
    key = name + "/2"
    f = _ufuns.get(key)
    if f is None:
        f = _ufuns[key] = z3.Function("u_" + name, z3.RealSort(), z3.RealSort(), z3.RealSort())
    return f(z3real(x), z3real(y))


def const_pi():
    return z3.Real("c_pi")


def pi_axioms():
    p = const_pi()
    return [p > z3.RealVal("3.14159265"), p < z3.RealVal("3.14159266")]


def compare(op, a, b):
    """== != < <= > >= on scalars; returns python bool or z3 Bool"""
    if isinstance(a, (Cx, complex)) or isinstance(b, (Cx, complex)):
        a, b = Cx.of(a), Cx.of(b)
        if op == "==":
            return band(compare("==", a.re, b.re), compare("==", a.im, b.im))
        if op == "!=":
            return bnot(compare("==", a, b))
        raise Unsupported("ordering of complex")
    a, b = _num(a), _num(b)
    if not is_z3(a) and not is_z3(b):
        if a is None or b is None:
            if op == "==":
                return a is b
            if op == "!=":
                return a is not b
        return {"==": lambda: a == b, "!=": lambda: a != b, "<": lambda: a < b, "<=": lambda: a <= b,
                ">": lambda: a > b, ">=": lambda: a >= b}[op]()
    if a is None or b is None:
        # symbolic scalar is never None
        return op == "!="
    sa, sb = sort_of(a), sort_of(b)
    if sa == "str" or sb == "str":
        if (sa == "str") != (sb == "str"):
            return op == "!="
        x, y = z3str(a), z3str(b)
    elif sa in ("int", "bool") and sb in ("int", "bool"):
        x, y = z3int(a), z3int(b)
    else:
        x, y = z3real(a), z3real(b)
    return {"==": lambda: x == y, "!=": lambda: x != y, "<": lambda: x < y, "<=": lambda: x <= y,
            ">": lambda: x > y, ">=": lambda: x >= y}[op]()


def band(*xs):
    out = []
    for x in xs:
        if is_z3(x):
            out.append(x)
        elif not x:
            return False
    if not out:
        return True
    return z3.And(*out) if len(out) > 1 else out[0]


def bor(*xs):
    out = []
    for x in xs:
        if is_z3(x):
            out.append(x)
        elif x:
            return True
    if not out:
        return False
    return z3.Or(*out) if len(out) > 1 else out[0]


def bnot(x):
    if is_z3(x):
        return z3.Not(x)
    return not x


def implies(a, b):
    return bor(bnot(a), b)


def ite(c, a, b):
    """scalar if-then-else"""
    if not is_z3(c):
        return a if c else b
    if a is b:
        return a
    if isinstance(a, (Cx, complex)) or isinstance(b, (Cx, complex)):
        a, b = Cx.of(a), Cx.of(b)
        return Cx(ite(c, a.re, b.re), ite(c, a.im, b.im))
    sa, sb = sort_of(a), sort_of(b)
    if sa is None or sb is None:
        raise Unsupported("ite over non-scalars")
    if sa == "str" or sb == "str":
        return z3.If(c, z3str(a), z3str(b))
    if sa == "bool" and sb == "bool":
        return z3.If(c, z3bool(a), z3bool(b))
    if sa in ("int", "bool") and sb in ("int", "bool"):
        return z3.If(c, z3int(a), z3int(b))
    return z3.If(c, z3real(_num(a)), z3real(_num(b)))


# --------------------------------------------------------------------------------------------------
# arrays

def _leaf_simplify(t):
    """an index expression that simplifies to a variable or a numeral (e.g. H + (k - H)) is replaced by it; anything
    else is left exactly as written (other proofs match index expressions syntactically)"""
    if not z3.is_expr(t) or t.num_args() == 0:
        return t
    r = z3.simplify(t)
    if r.num_args() == 0:
        return r
    return t


def select(arr, idx, _depth=0):
    """Select with eager beta-reduction: through store / ite spines down to lambdas, so that the solver is not
    asked to combine the array theory with lambda terms"""
    if z3.is_quantifier(arr) and arr.is_lambda() and arr.num_vars() == len(idx):
        return z3.substitute_vars(arr.body(), *reversed([_leaf_simplify(i) for i in idx]))
    if _depth < 12 and z3.is_app(arr):
        k = arr.decl().kind()
        if k == z3.Z3_OP_STORE and _spine_has_lambda(arr):
            n = arr.num_args()
            sidx = [arr.arg(i) for i in range(1, n - 1)]
            same = z3.simplify(z3.And(*[a == b for a, b in zip(idx, sidx)])) if sidx else z3.BoolVal(True)
            if z3.is_true(same):
                return arr.arg(n - 1)
            rest = select(arr.arg(0), idx, _depth + 1)
            if z3.is_false(same):
                return rest
            return z3.If(same, arr.arg(n - 1), rest)
        if k == z3.Z3_OP_ITE and _spine_has_lambda(arr):
            return z3.If(arr.arg(0), select(arr.arg(1), idx, _depth + 1), select(arr.arg(2), idx, _depth + 1))
    return z3.Select(arr, *idx)


def _spine_has_lambda(arr):
    for _ in range(64):
        if z3.is_quantifier(arr):
            return arr.is_lambda()
        if not z3.is_app(arr):
            return False
        k = arr.decl().kind()
        if k == z3.Z3_OP_STORE:
            arr = arr.arg(0)
        elif k == z3.Z3_OP_ITE:
            return _spine_has_lambda(arr.arg(1)) or _spine_has_lambda(arr.arg(2))
        else:
            return False
    return False


_CANON = {}


def canon_lambda(vs, body):
    """Lambda with canonical bound-variable names, so that structurally equal lambdas are the same z3 term"""
    cs = []
    for k, v in enumerate(vs):
        key = (k, v.sort().name())
        c = _CANON.get(key)
        if c is None:
            c = _CANON[key] = z3.Const("b#%d%s" % (k, v.sort().name()[0]), v.sort())
        cs.append(c)
    body = z3.substitute(body, *list(zip(vs, cs)))
    return z3.Lambda(cs, body)


def canon_quant(vs, body, exists=False):
    """ForAll/Exists with canonical bound-variable names (alpha-equivalent clauses become identical terms)"""
    cs = []
    for k, v in enumerate(vs):
        key = ("q", k, v.sort().name())
        c = _CANON.get(key)
        if c is None:
            c = _CANON[key] = z3.Const("q#%d%s" % (k, v.sort().name()[0]), v.sort())
        cs.append(c)
    body = z3.substitute(body, *list(zip(vs, cs)))
    return z3.Exists(cs, body) if exists else z3.ForAll(cs, body)


def _elem_sort(dtype):
    return z3.IntSort() if dtype == "int" else z3.BoolSort() if dtype == "bool" else z3.RealSort()


def mk_array_const(name, rank, dtype):
    dom = [z3.IntSort()] * rank
    return z3.Array(name, *dom, _elem_sort(dtype))


def _to_int_cell(v):
    """value stored into an integer array: NumPy casts on assignment, truncating a real value toward zero"""
    if isinstance(v, Cx):
        v = v.re
    if sort_of(v) in ("int", "bool"):
        return z3int(v)
    r = z3real(_num(v))
    return z3.If(r >= 0, z3.ToInt(r), -z3.ToInt(-r))


class SymArr:
    """numpy.ndarray.  dtype in {'int','real','cx','bool'}.  Either owns `re` (and `im`) array terms or is a
    view (`base`, `imap`) onto another SymArr, as basic slicing gives in NumPy."""

    def __init__(self, shape, dtype, re=None, im=None, base=None, imap=None, name=None):
        self.shape = tuple(shape)
        self.dtype = dtype
        self.base = base
        self.imap = imap
        self.name = name
        if base is None:
            rank = len(self.shape)
            if re is None:
                re = mk_array_const(fresh_name(name or "arr"), rank, "real" if dtype == "cx" else dtype)
            if dtype == "cx" and im is None:
                im = mk_array_const(fresh_name((name or "arr") + "_im"), rank, "real")
            self.re = re
            self.im = im

    @property
    def rank(self):
        return len(self.shape)

    # -- cell access -------------------------------------------------------------------------------
    def get(self, idx):
        if self.base is not None:
            return self.base.get(self.imap(idx))
        idx = [z3int(i) for i in idx]
        if self.rank == 0:
            raise Unsupported("rank-0 array")
        r = select(self.re, idx)
        if self.dtype == "cx":
            return Cx(r, select(self.im, idx))
        return r

    def set(self, idx, v, guard=True):
        if self.base is not None:
            return self.base.set(self.imap(idx), v, guard)
        idx = [z3int(i) for i in idx]
        if guard is not True:
            v = ite(guard, v, self.get(idx))
        if self.dtype == "cx":
            v = Cx.of(v)
            self.re = z3.Store(self.re, *idx, z3real(v.re))
            self.im = z3.Store(self.im, *idx, z3real(v.im))
        elif self.dtype == "int":
            self.re = z3.Store(self.re, *idx, _to_int_cell(v))
        elif self.dtype == "bool":
            self.re = z3.Store(self.re, *idx, z3bool(v))
        else:
            if isinstance(v, Cx):
                # numpy discards the imaginary part with a warning
                v = v.re
            self.re = z3.Store(self.re, *idx, z3real(_num(v)))

    def set_all(self, fn, guard=True, region=None):
        """simultaneous update: cell idx := fn(idx) for idx in region (a predicate on idx; None = all)"""
        if self.base is not None:
            raise Unsupported("bulk assignment through a view")
        xs = [fresh("x", z3.IntSort()) for _ in range(self.rank)]
        old = self.get(xs)
        new = fn(xs)
        cond = True
        if region is not None:
            cond = region(xs)
        if guard is not True:
            cond = band(cond, guard)
        if cond is not True:
            new = ite(cond, new, old)
        if self.dtype == "cx":
            new = Cx.of(new)
            self.re = canon_lambda(xs, z3real(new.re))
            self.im = canon_lambda(xs, z3real(new.im))
        elif self.dtype == "int":
            self.re = canon_lambda(xs, _to_int_cell(new))
        else:
            if isinstance(new, Cx):
                new = new.re
            self.re = canon_lambda(xs, z3real(_num(new)))

    def terms(self):
        """materialise (re, im) array terms (for views: lambdas)"""
        if self.base is None:
            return self.re, self.im
        xs = [fresh("x", z3.IntSort()) for _ in range(self.rank)]
        v = self.get(xs)
        if self.dtype == "cx":
            return canon_lambda(xs, z3real(v.re)), canon_lambda(xs, z3real(v.im))
        return canon_lambda(xs, v), None

    def snapshot(self):
        """immutable copy of the current contents (numpy .copy())"""
        re, im = self.terms()
        return SymArr(self.shape, self.dtype, re=re, im=im, name=self.name)

    def inbounds(self, idx):
        return band(*[band(compare("<=", 0, i), compare("<", i, n)) for i, n in zip(idx, self.shape)])

    def __repr__(self):
        return "<SymArr %s %s%s>" % (self.name or "", self.dtype, list(self.shape))


def lam_array(shape, dtype, fn, name=None):
    """array defined cell-wise by fn(idx)"""
    xs = [fresh("x", z3.IntSort()) for _ in shape]
    v = fn(xs)
    if dtype == "cx":
        v = Cx.of(v)
        return SymArr(shape, "cx", re=canon_lambda(xs, z3real(v.re)), im=canon_lambda(xs, z3real(v.im)), name=name)
    if dtype == "int":
        return SymArr(shape, "int", re=canon_lambda(xs, z3int(v)), name=name)
    if dtype == "bool":
        return SymArr(shape, "bool", re=canon_lambda(xs, z3bool(v)), name=name)
    if isinstance(v, Cx):
        v = v.re
    return SymArr(shape, "real", re=canon_lambda(xs, z3real(_num(v))), name=name)


def join_dtype(a, b):
    order = ["bool", "int", "real", "cx"]
    return order[max(order.index(a), order.index(b))]


def dtype_of_scalar(v):
    s = sort_of(v)
    return {"int": "int", "bool": "bool", "real": "real", "cx": "cx"}.get(s, "real")


# --------------------------------------------------------------------------------------------------
# structured values

class OptDict(dict):
    """a dict some of whose keys may be absent: maybe[key] is the (boolean term) presence of a key that is stored here.
    The executor resolves the presence of a key by a case split when the program first touches it; keys the program
    never touches keep their symbolic presence, so a proof covers every combination of present / absent keys."""

    def __init__(self, *a, maybe=None, **k):
        super().__init__(*a, **k)
        self.maybe = dict(maybe or {})


class Range:
    def __init__(self, lo, hi):
        self.lo = lo
        self.hi = hi

    def concrete(self):
        return not is_z3(self.lo) and not is_z3(self.hi)

    def __repr__(self):
        return "range(%s, %s)" % (self.lo, self.hi)


class Obj:
    """instance of a repo class (or a stub); fields are ordinary Python references"""

    def __init__(self, cls, fields=None, label=None):
        self.cls = cls                      # ClassInfo or a plain string for stubs
        self.fields = dict(fields or {})
        self.label = label

    def __repr__(self):
        return "<Obj %s %s>" % (getattr(self.cls, "name", self.cls), self.label or "")


class SymList:
    """list of symbolic length whose elements are tuples/lists of `width` scalars (width None: plain scalars).
    Components are z3 arrays Int -> Int/Real; `dtype` is one of int/real or a list per component."""

    def __init__(self, length, width, dtype="int", comps=None, name="lst"):
        self.length = length
        self.width = width
        self.dtype = dtype
        n = 1 if width is None else width
        dts = dtype if isinstance(dtype, (list, tuple)) else [dtype] * n
        self.comps = comps or [mk_array_const(fresh_name(name), 1, d) for d in dts]
        self.rank = 1

    def get(self, i):
        i = z3int(i)
        if self.width is None:
            return select(self.comps[0], [i])
        return [select(c, [i]) for c in self.comps]

    def set(self, i, v, guard=True):
        i = z3int(i)
        vs = [v] if self.width is None else list(v)
        if len(vs) != len(self.comps):
            raise Unsupported("element width mismatch in symbolic list")
        for k, x in enumerate(vs):
            x = z3int(x) if self.comps[k].sort().range() == z3.IntSort() else z3real(x)
            if guard is not True:
                x = z3.If(guard, x, z3.Select(self.comps[k], i))
            self.comps[k] = z3.Store(self.comps[k], i, x)

    def __repr__(self):
        return "<SymList len=%s width=%s>" % (self.length, self.width)


class FuncRef:
    """reference to a repo function/method (FunctionInfo) optionally bound to self"""

    def __init__(self, info, bound=None, raw=False):
        self.info = info
        self.bound = bound
        self.raw = raw          # the undecorated function (argument of a decorator whose wrapper is executed)

    def __repr__(self):
        return "<FuncRef %s>" % self.info.qualname


class ClassRef:
    def __init__(self, info):
        self.info = info

    def __repr__(self):
        return "<ClassRef %s>" % self.info.name


class ModRef:
    """external or repo module reference by dotted name"""

    def __init__(self, dotted):
        self.dotted = dotted

    def __repr__(self):
        return "<ModRef %s>" % self.dotted


class Builtin:
    """modelled library function: fn(ex, args, kwargs) -> value"""

    def __init__(self, name, fn):
        self.name = name
        self.fn = fn

    def __repr__(self):
        return "<Builtin %s>" % self.name


class Opaque:
    """a value the executor carries around but cannot look into (e.g. an MPI communicator)"""

    def __init__(self, what):
        self.what = what

    def __repr__(self):
        return "<Opaque %s>" % self.what
