"""Loops: concrete unrolling, automatic map-nest summaries, sidecar invariants."""
import ast
import z3

from . import values as V
from .values import (Unsupported, SymArr, SymList, Obj, Range, OptDict, is_z3, compare, band, bnot, fresh, arith)
from .symex import (MergeAbort, BreakSignal, ContinueSignal, PathEnd, Poison, ReturnSignal, RaiseSignal)


def loop_ordinal(finfo, node):
    """syntactic ordinal of a loop among the For/While nodes of its function (pre-order)"""
    k = 0
    for n in _preorder(finfo.node):
        if isinstance(n, (ast.For, ast.While)):
            if n is node:
                return k
            k += 1
    return -1


def _preorder(node):
    yield node
    for c in ast.iter_child_nodes(node):
        yield from _preorder(c)


def _reachable_arrays(ex):
    out = {}
    env = ex.frames[-1].env
    for nm, v in list(env.items()):
        if isinstance(v, SymArr):
            out[id(_root(v))] = (_root(v), nm)
        elif isinstance(v, Obj) and nm == "self":
            for f, w in v.fields.items():
                if isinstance(w, SymArr):
                    out[id(_root(w))] = (_root(w), "self." + f)
    return out


def _root(a):
    while a.base is not None:
        a = a.base
    return a


class Enumerated:
    """enumerate(seq) over a sequence of symbolic length (only as the iterable of a loop with a sidecar invariant)"""

    def __init__(self, seq):
        self.seq = seq


def exec_for(ex, st):
    """`for` statement.  Ghost protocol for distributed loops: arrays written inside a loop over a block-distributed
    range hold per-process partial results until they pass through allreduce (checked when the region is closed)."""
    if ex.guard is not True:
        raise MergeAbort("loop under guard")
    it = ex.eval(st.iter)
    if getattr(it, "distributed", False) and not getattr(ex, "_in_distributed_loop", False):
        before = {k: (a, a.re, a.im) for k, (a, nm) in _reachable_arrays(ex).items()}
        ex._in_distributed_loop = True
        try:
            _exec_for_inner(ex, st, it)
        finally:
            ex._in_distributed_loop = False
        part = ex.__dict__.setdefault("partial_results", {})
        for k, (a, nm) in _reachable_arrays(ex).items():
            b = before.get(k)
            if b is None or not (b[1] is a.re or (b[1] is not None and a.re is not None and b[1].eq(a.re))) \
                    or not (b[2] is a.im or (b[2] is not None and a.im is not None and b[2].eq(a.im))):
                part[k] = (a, nm, st.lineno)
        return
    return _exec_for_inner(ex, st, it)


def _exec_for_inner(ex, st, it):
    if isinstance(it, OptDict) and it.maybe and _guarded_key_loop(ex, st, it):
        return
    items = _concrete_items(ex, it, st.lineno)
    fr = ex.frames[-1]
    if items is not None:
        broke = False
        for x in items:
            ex.assign(st.target, x)
            try:
                ex.exec_block(st.body)
            except BreakSignal:
                broke = True
                break
            except ContinueSignal:
                continue
        if not broke:
            ex.exec_block(st.orelse)
        return
    ordinal = loop_ordinal(fr.finfo, st)
    spec = ex.registry.loop_spec(fr.finfo.qualname, ordinal)
    if isinstance(it, (SymArr, SymList)) and spec is not None:
        # iteration over the elements of a sequence of symbolic length: a counter loop with target = seq[_i]
        n = it.shape[0] if isinstance(it, SymArr) else it.length
        seq = it.snapshot() if isinstance(it, SymArr) else it

        def elem(i):
            return ex.getitem(seq, i, st.lineno)
        return invariant_for(ex, st, Range(0, n), spec, ordinal, elem_fn=elem)
    if isinstance(it, Enumerated) and spec is not None:
        seq_ = it.seq.snapshot() if isinstance(it.seq, SymArr) else it.seq
        n_ = it.seq.shape[0] if isinstance(it.seq, SymArr) else it.seq.length
        return invariant_for(ex, st, Range(0, n_), spec, ordinal, elem_fn=lambda i: (i, ex.getitem(seq_, i, st.lineno)))
    if not isinstance(it, Range):
        raise Unsupported("iteration over %r @%d" % (it, st.lineno))
    if getattr(ex, "fixed_mode", False):
        # bounded mode (sizes fixed): loop bounds that the path condition pins to a single value are unrolled
        lo, hi = concretize_int(ex, it.lo), concretize_int(ex, it.hi)
        if lo is not None and hi is not None:
            broke = False
            for x in range(lo, hi):
                ex.assign(st.target, x)
                try:
                    ex.exec_block(st.body)
                except BreakSignal:
                    broke = True
                    break
                except ContinueSignal:
                    continue
            if not broke:
                ex.exec_block(st.orelse)
            return
    if spec is not None:
        return invariant_for(ex, st, it, spec, ordinal)
    return auto_nest(ex, st, it, ordinal)


def _guarded_key_loop(ex, st, d):
    """`for key in d` over a dict with possibly-absent keys: the body is executed once per potential key under the
    guard `key is present` (as an if-merge), so the presence pattern needs no case split.  Returns False (state rolled
    back) when the body cannot be merged; the caller then decides the presence of the keys by case split."""
    if st.orelse:
        return False
    log = []
    outer = ex.undo
    ex.undo = log
    ok = True
    try:
        try:
            for k in list(d.keys()):
                p = d.maybe.get(k, True)
                ex.assign(st.target, k)
                if p is True:
                    ex.exec_block(st.body)
                else:
                    ex.guard = p
                    try:
                        ex.exec_block(st.body)
                    finally:
                        ex.guard = True
        except (MergeAbort, BreakSignal, ContinueSignal):
            ok = False
    finally:
        ex.guard = True
        ex.undo = outer
    if ok:
        if outer is not None:
            outer.extend(log)
        return True
    ex.rollback(log)
    return False


def concretize_int(ex, t):
    """the unique integer value of t under the path condition, or None"""
    if not is_z3(t):
        return t if isinstance(t, int) else None
    sol = z3.Solver()
    sol.set("timeout", 2000)
    for h in ex.pc:
        sol.add(h)
    if sol.check() != z3.sat:
        return None
    v = sol.model().eval(t, model_completion=True)
    if not z3.is_int_value(v):
        return None
    sol.add(t != v)
    if sol.check() != z3.unsat:
        return None
    return v.as_long()


def _concrete_items(ex, it, line):
    if isinstance(it, Range):
        if it.concrete():
            return list(range(it.lo, it.hi))
        return None
    if isinstance(it, (list, tuple)):
        return list(it)
    if isinstance(it, dict):
        ex.resolve_opt(it)
        return list(it.keys())
    if isinstance(it, SymArr) and not is_z3(it.shape[0]):
        return [ex.getitem(it, k, line) for k in range(it.shape[0])]
    if isinstance(it, str):
        return list(it)
    return None


# --------------------------------------------------------------------------------------------------
# automatic summary of perfect map nests

def assigned_names(stmts):
    out = set()
    for st in stmts:
        for n in ast.walk(st):
            if isinstance(n, ast.Name) and isinstance(n.ctx, (ast.Store, ast.Del)):
                out.add(n.id)
    return out


def auto_nest(ex, st, first_range, ordinal):
    fr = ex.frames[-1]
    env = fr.env
    pc_len = len(ex.pc)
    outer_undo = ex.undo
    outer_wlog = ex.write_log
    loop_vars = []
    cur, rng = st, first_range
    while True:
        if not isinstance(cur.target, ast.Name):
            raise Unsupported("loop target @%d" % cur.lineno)
        if cur.orelse:
            raise Unsupported("for-else on symbolic range @%d" % cur.lineno)
        v = fresh(cur.target.id, z3.IntSort())
        loop_vars.append((v, rng, cur.target.id))
        ex.set_env(env, cur.target.id, v)
        ex.pc.append(z3.And(V.z3int(rng.lo) <= v, v < V.z3int(rng.hi)))
        if len(cur.body) == 1 and isinstance(cur.body[0], ast.For):
            nxt = cur.body[0]
            try:
                r2 = ex.eval(nxt.iter)
            except Unsupported:
                break
            if isinstance(r2, Range):
                cur, rng = nxt, r2
                continue
        break
    body = cur.body
    names = assigned_names(body)
    for n in names:
        if not any(n == t for _, _, t in loop_vars):
            ex.set_env(env, n, Poison("loop-carried or loop-local variable %s" % n))

    def run_body(probe):
        old = (ex.probe, ex.undo, ex.write_log, getattr(ex, "body_fresh", None))
        ex.probe = probe
        ex.undo = []
        ex.write_log = []
        ex.body_fresh = []
        try:
            try:
                ex.exec_block(body)
            except MergeAbort as m:
                ex.rollback(ex.undo)
                raise Unsupported("loop body @%d is not a map body (%s); a sidecar invariant is needed"
                                  % (st.lineno, m))
            except (BreakSignal, ContinueSignal, ReturnSignal, RaiseSignal, PathEnd) as s:
                ex.rollback(ex.undo)
                raise Unsupported("control transfer %s in loop body @%d; a sidecar invariant is needed"
                                  % (type(s).__name__, st.lineno))
            return ex.undo, ex.write_log, ex.body_fresh
        finally:
            ex.probe, ex.undo, ex.write_log, ex.body_fresh = old

    # -- probe: which array roots does one iteration touch? ----------------------------------------
    undo, wlog, fresh_objs = run_body(True)
    roots = []
    for (root, idx, g) in wlog:
        if not any(root is r for r in roots):
            roots.append(root)
    fresh_ids = set(id(o) for o in fresh_objs)
    append_lists = []
    for e in undo:
        if e[0] == "field":
            raise Unsupported("object field written in a summarised loop body @%d" % st.lineno)
        if e[0] == "pydict" and id(e[1]) not in fresh_ids:
            raise Unsupported("outer dict mutated in a summarised loop body @%d" % st.lineno)
        if e[0] == "pylist" and id(e[1]) not in fresh_ids:
            # the only supported mutation of an outer list: exactly one append per iteration onto a list that
            # is empty at loop entry (list-building loop)
            lst, before = e[1], e[2]
            if any(lst is a for a in append_lists):
                raise Unsupported("outer list mutated more than once per iteration @%d" % st.lineno)
            if len(loop_vars) != 1 or before or len(lst) != 1:
                raise Unsupported("outer list mutated in a summarised loop body @%d (only single-append "
                                  "list building from an empty list is summarised)" % st.lineno)
            append_lists.append(lst)
    roots = [r for r in roots if id(r) not in fresh_ids]
    ex.rollback(undo)
    for n in names:
        if not any(n == t for _, _, t in loop_vars):
            env[n] = Poison("loop-carried or loop-local variable %s" % n)

    # -- real run from arbitrary intermediate contents ----------------------------------------------
    pre = {}
    mids = {}
    for r in roots:
        if outer_undo is not None:
            if isinstance(r, SymArr):
                outer_undo.append(("arr", r, r.re, r.im))
            else:
                outer_undo.append(("lst", r, list(r.comps)))
        slots = _slots(r)
        pre[id(r)] = [g() for g, s in slots]
        mid_terms = []
        for (g, s), t0 in zip(slots, pre[id(r)]):
            if t0 is None:
                mid_terms.append(None)
                continue
            m = z3.Const(V.fresh_name("mid"), t0.sort())
            s(m)
            mid_terms.append(m)
        mids[id(r)] = mid_terms
    undo, wlog, fresh_objs = run_body(False)
    fresh_ids = set(id(o) for o in fresh_objs)
    appended = []
    for lst in append_lists:
        if len(lst) != 1:
            raise Unsupported("list-building loop @%d: append count differs between runs" % st.lineno)
        appended.append((lst, lst.pop()))

    # -- ownership of written cells -----------------------------------------------------------------
    import itertools as _it
    cand_pos = {}
    for r in roots:
        writes = [(idx, g) for (root, idx, g) in wlog if root is r]
        if any(idx is None for idx, g in writes):
            raise Unsupported("whole-array / masked assignment inside a summarised loop @%d" % st.lineno)
        per_var = []
        for (v, rng_, tname) in loop_vars:
            cands = None
            for idx, g in writes:
                here = set(p for p, x in enumerate(idx) if x is not None and is_z3(x) and z3.eq(z3.simplify(x), v))
                cands = here if cands is None else cands & here
            if not cands:
                raise Unsupported("loop variable %s does not own a position of every write to %r @%d; "
                                  "a sidecar invariant is needed" % (tname, r, st.lineno))
            per_var.append(sorted(cands))
        cand_pos[id(r)] = per_var
    all_mids = {}
    for r in roots:
        for m in mids[id(r)]:
            if m is not None:
                all_mids[m.get_id()] = r
    ends = {}
    for r in roots:
        ends[id(r)] = [g() for g, s in _slots(r)]
    # choose, per array, positions that also make every read of the array an owned read
    owner = {}
    choices = [list(_it.product(*cand_pos[id(r)])) for r in roots]
    last_err = None
    for combo in _it.islice(_it.product(*choices), 64):
        owner = {}
        for r, tup in zip(roots, combo):
            owner[id(r)] = {str(v): p for (v, _, _), p in zip(loop_vars, tup)}
        try:
            seen = set()
            for r in roots:
                for t in ends[id(r)]:
                    if t is not None:
                        _check_reads(t, all_mids, owner, loop_vars, seen, st.lineno)
            last_err = None
            break
        except Unsupported as u:
            last_err = u
    if last_err is not None:
        raise last_err
    seen = set()
    for lst, elem in appended:
        for c in (elem if isinstance(elem, (tuple, list)) else [elem]):
            if V.sort_of(c) not in ("int", "real", "bool"):
                raise Unsupported("list-building loop @%d appends non-scalar components" % st.lineno)
            if is_z3(c):
                _check_reads(c, all_mids, owner, loop_vars, seen, st.lineno)

    # -- closed form ---------------------------------------------------------------------------------
    sub_mid = []
    for r in roots:
        for m, t0 in zip(mids[id(r)], pre[id(r)]):
            if m is not None:
                sub_mid.append((m, t0))
    for r in roots:
        rank = r.rank if isinstance(r, SymArr) else 1
        xs = [fresh("x", z3.IntSort()) for _ in range(rank)]
        pos = owner[id(r)]
        sub = list(sub_mid) + [(v, xs[pos[str(v)]]) for (v, _, _) in loop_vars]
        box = []
        for (v, rng_, _) in loop_vars:
            lo = z3.substitute(V.z3int(rng_.lo), *sub)
            hi = z3.substitute(V.z3int(rng_.hi), *sub)
            box.append(z3.And(lo <= xs[pos[str(v)]], xs[pos[str(v)]] < hi))
        box = z3.And(*box)
        new_terms = []
        for t_end, t0 in zip(ends[id(r)], pre[id(r)]):
            if t0 is None:
                new_terms.append(None)
                continue
            body_val = V.select(z3.substitute(t_end, *sub), xs)
            new_terms.append(V.canon_lambda(xs, z3.If(box, body_val, V.select(t0, xs))))
        for (g, s), t in zip(_slots(r), new_terms):
            if t is not None:
                s(t)
        # tell an enclosing summarised loop what this nest wrote: positions owned by this nest's variables are
        # "sliced" (None), positions where every write used the same outer expression keep that expression
        if outer_wlog is not None:
            writes = [idx for (root, idx, g) in wlog if root is r]
            owned = set(pos.values())
            pattern = []
            for p_ in range(rank):
                if p_ in owned:
                    pattern.append(None)
                    continue
                exprs = [w[p_] for w in writes]
                e0 = exprs[0]
                same = e0 is not None and all(
                    e is not None and ((is_z3(e) and is_z3(e0) and z3.eq(z3.simplify(V.z3int(e)), z3.simplify(V.z3int(e0))))
                                       or (not is_z3(e) and not is_z3(e0) and e == e0)) for e in exprs)
                pattern.append(e0 if same else None)
            outer_wlog.append((r, tuple(pattern), True))
    # list-building loops: the Python list becomes a list of symbolic length
    for lst, elem in appended:
        (v, rng_, _) = loop_vars[0]
        k = fresh("k", z3.IntSort())
        comps_src = list(elem) if isinstance(elem, (tuple, list)) else [elem]
        comps, dts = [], []
        for c in comps_src:
            dt = "real" if V.sort_of(c) == "real" else "int"
            t = V.z3real(c) if dt == "real" else V.z3int(c)
            t = z3.substitute(t, *(list(sub_mid) + [(v, V.z3int(rng_.lo) + k)]))
            comps.append(V.canon_lambda([k], t))
            dts.append(dt)
        n = V.ite(compare("<", rng_.hi, rng_.lo), 0, arith("-", rng_.hi, rng_.lo))
        sl = SymList(n, len(comps) if isinstance(elem, (tuple, list)) else None, dts, comps=comps)
        for nme, val in list(env.items()):
            if val is lst:
                ex.set_env(env, nme, sl)
    del ex.pc[pc_len:]
    for n in names | set(t for _, _, t in loop_vars):
        ex.set_env(env, n, Poison("value after a summarised loop"))
    ex.notes.append({"loop": "%s#%d@%d" % (fr.finfo.qualname, ordinal, st.lineno),
                     "handled": "automatic map-nest summary",
                     "vars": [t for _, _, t in loop_vars],
                     "arrays": [repr(r) for r in roots]})


def _slots(root):
    """[(getter, setter)] of the raw z3 array terms that make up an array-like root"""
    if isinstance(root, SymArr):
        def g_re():
            return root.re

        def s_re(t):
            root.re = t

        def g_im():
            return root.im

        def s_im(t):
            root.im = t
        return [(g_re, s_re), (g_im, s_im)]
    if isinstance(root, SymList):
        out = []
        for k in range(len(root.comps)):
            def g(k=k):
                return root.comps[k]

            def s(t, k=k):
                root.comps[k] = t
            out.append((g, s))
        return out
    raise Unsupported("array-like root %r" % (root,))


def _spine(arr):
    """array constants at the bottom of a Store/If spine"""
    if z3.is_app(arr):
        k = arr.decl().kind()
        if k == z3.Z3_OP_STORE:
            return _spine(arr.arg(0))
        if k == z3.Z3_OP_ITE:
            return _spine(arr.arg(1)) + _spine(arr.arg(2))
        if arr.num_args() == 0:
            return [arr]
    return [None]


def _check_reads(t, all_mids, owner, loop_vars, seen, line, binders=()):
    if t.get_id() in seen:
        return
    seen.add(t.get_id())
    if z3.is_quantifier(t):
        # slice assignments produce  lambda xs. ite(region(xs), new(xs), A[xs]) : the identity read A[xs] copies the
        # untouched cells and is harmless; every other read under the binder is checked like a plain read (loop
        # variables are constants, so the ownership test is meaningful under binders too)
        n = t.num_vars()
        _check_reads(t.body(), all_mids, owner, loop_vars, seen, line, binders + ((t, n, "array"),))
        return
    if not z3.is_app(t):
        return
    if t.decl().kind() == z3.Z3_OP_SELECT:
        arr = t.arg(0)
        for c in _spine(arr):
            if c is None:
                if _mentions(arr, all_mids):
                    raise Unsupported("modified array read through a non-store spine @%d" % line)
                continue
            r = all_mids.get(c.get_id())
            if r is None:
                continue
            if len(binders) == 1 and binders[-1][2] == "array" and _is_identity_read(t, binders[-1][1]):
                continue
            pos = owner[id(r)]
            for (v, _, tname) in loop_vars:
                ix = t.arg(1 + pos[str(v)])
                if not z3.eq(z3.simplify(ix), v):
                    raise Unsupported("iteration reads cell of %r it does not own (index %s at position %d "
                                      "is not %s) @%d; a sidecar invariant is needed"
                                      % (r, ix, pos[str(v)], tname, line))
    elif t.num_args() == 0 and t.get_id() in all_mids:
        # bare occurrence of the array (e.g. passed whole to a function)
        raise Unsupported("whole modified array used as a value in a summarised loop @%d" % line)
    if t.decl().name() == "u_sum":
        # the summand lambda is not an array value: no identity exception inside it
        lam = t.arg(0)
        if z3.is_quantifier(lam):
            _check_reads(lam.body(), all_mids, owner, loop_vars, seen, line, binders + ((lam, lam.num_vars(), "sum"),))
        else:
            _check_reads(lam, all_mids, owner, loop_vars, seen, line, binders)
        for i in (1, 2):
            _check_reads(t.arg(i), all_mids, owner, loop_vars, seen, line, binders)
        return
    for c in t.children():
        if t.decl().kind() == z3.Z3_OP_SELECT and c.get_id() == t.arg(0).get_id():
            _check_spine_children(c, all_mids, owner, loop_vars, seen, line, binders)
        elif t.decl().kind() == z3.Z3_OP_STORE and c.get_id() == t.arg(0).get_id():
            _check_spine_children(c, all_mids, owner, loop_vars, seen, line, binders)
        else:
            _check_reads(c, all_mids, owner, loop_vars, seen, line, binders)


def _is_identity_read(sel, n):
    """Select(A, Var(n-1), ..., Var(0)) : the cell addressed by the innermost lambda's own bound variables"""
    if sel.num_args() != n + 1:
        return False
    for k in range(n):
        a = sel.arg(1 + k)
        if not (z3.is_var(a) and z3.get_var_index(a) == n - 1 - k):
            return False
    return True


def _check_spine_children(arr, all_mids, owner, loop_vars, seen, line, binders=()):
    """walk a store spine: the spine constant itself is fine, indices and stored values are checked"""
    if z3.is_app(arr):
        k = arr.decl().kind()
        if k == z3.Z3_OP_STORE:
            _check_spine_children(arr.arg(0), all_mids, owner, loop_vars, seen, line, binders)
            for i in range(1, arr.num_args()):
                _check_reads(arr.arg(i), all_mids, owner, loop_vars, seen, line, binders)
            return
        if k == z3.Z3_OP_ITE:
            _check_reads(arr.arg(0), all_mids, owner, loop_vars, seen, line, binders)
            _check_spine_children(arr.arg(1), all_mids, owner, loop_vars, seen, line, binders)
            _check_spine_children(arr.arg(2), all_mids, owner, loop_vars, seen, line, binders)
            return
        if arr.num_args() == 0:
            return
    _check_reads(arr, all_mids, owner, loop_vars, seen, line, binders)


def _mentions(t, all_mids):
    stack = [t]
    seen = set()
    while stack:
        x = stack.pop()
        if x.get_id() in seen:
            continue
        seen.add(x.get_id())
        if x.get_id() in all_mids:
            return True
        if z3.is_quantifier(x):
            stack.append(x.body())
        elif z3.is_app(x):
            stack.extend(x.children())
    return False


# --------------------------------------------------------------------------------------------------
# sidecar invariants

def modified_targets(ex, stmts, extra=()):
    """what a loop body may modify: ('name', id) | ('arr', SymArr) | ('lst', SymList) | ('field', Obj, f)"""
    fr = ex.frames[-1]
    out = []

    def add(x):
        for y in out:
            if len(y) == len(x) and all(a is b or a == b for a, b in zip(y, x) if not isinstance(a, (SymArr, SymList, Obj))) \
                    and all(a is b for a, b in zip(y, x) if isinstance(a, (SymArr, SymList, Obj))):
                return
        out.append(x)

    def base_value(e):
        try:
            old = ex.probe
            ex.probe = True
            try:
                return ex.eval(e)
            finally:
                ex.probe = old
        except (Unsupported, RaiseSignal, MergeAbort):
            return None

    def target(t):
        if isinstance(t, ast.Name):
            add(("name", t.id))
        elif isinstance(t, (ast.Tuple, ast.List)):
            for x in t.elts:
                target(x)
        elif isinstance(t, ast.Subscript):
            b = base_value(t.value)
            if isinstance(b, SymArr):
                while b.base is not None:
                    b = b.base
                add(("arr", b))
            elif isinstance(b, SymList):
                add(("lst", b))
            elif b is None:
                add(("unknown", ast.dump(t.value)))
            else:
                add(("py", b))
        elif isinstance(t, ast.Attribute):
            b = base_value(t.value)
            if isinstance(b, Obj):
                add(("field", b, t.attr))
            else:
                add(("unknown", ast.dump(t)))

    for st in stmts:
        for n in ast.walk(st):
            if isinstance(n, ast.Assign):
                for t in n.targets:
                    target(t)
            elif isinstance(n, ast.AugAssign) and isinstance(n.target, ast.Name):
                # `a += x` on a NumPy array (or list) changes the object in place: whoever else holds it (the caller
                # of a function that accumulates into its argument) sees the change; the binding stays
                v = base_value(ast.copy_location(ast.Name(id=n.target.id, ctx=ast.Load()), n.target))
                if isinstance(v, SymArr):
                    while v.base is not None:
                        v = v.base
                    add(("arr", v))
                elif isinstance(v, SymList):
                    add(("lst", v))
                else:
                    target(n.target)
            elif isinstance(n, (ast.AugAssign, ast.AnnAssign)):
                target(n.target)
            elif isinstance(n, ast.For):
                target(n.target)
    for e in extra:
        tree = ast.parse(e, mode="eval").body
        v = base_value(tree) if isinstance(tree, (ast.Name, ast.Attribute)) else None
        if isinstance(v, SymArr):
            # a name / attribute denoting an array: its *contents* may change, the binding does not
            while v.base is not None:
                v = v.base
            add(("arr", v))
        elif isinstance(v, SymList):
            add(("lst", v))
        else:
            target(tree)
    return out


class RestartFunction(Exception):
    """the proof of the function under contract has to be redone with more information (e.g. a wider element type for
    an array that a loop re-binds)"""


_DT_ORDER = ["bool", "int", "real", "cx"]


def havoc(ex, mods, hint_key=None):
    fr = ex.frames[-1]
    env = fr.env
    hints = getattr(ex.registry, "dtype_hints", {})
    for m in mods:
        if m[0] == "name":
            cur = env.get(m[1])
            hv = _havoc_value(ex, cur, m[1])
            if isinstance(hv, SymArr) and hint_key is not None:
                wide = hints.get(hint_key + (m[1],))
                if wide is not None and _DT_ORDER.index(wide) > _DT_ORDER.index(hv.dtype):
                    hv = SymArr(hv.shape, wide, name=m[1])
            env[m[1]] = hv
        elif m[0] == "arr":
            a = m[1]
            a.re = z3.Const(V.fresh_name("hv"), a.re.sort())
            if a.im is not None:
                a.im = z3.Const(V.fresh_name("hv_im"), a.im.sort())
        elif m[0] == "lst":
            a = m[1]
            a.comps = [z3.Const(V.fresh_name("hv"), c.sort()) for c in a.comps]
        elif m[0] == "field":
            o, f = m[1], m[2]
            o.fields[f] = _havoc_value(ex, o.fields.get(f), f)
        elif m[0] in ("unknown", "py"):
            raise Unsupported("loop modifies state qvc cannot havoc: %r" % (m[1],))


def _havoc_value(ex, cur, name):
    s = V.sort_of(cur)
    if isinstance(cur, Poison) or cur is None and s is None:
        return Poison("havocked non-scalar %s" % name)
    if s == "int":
        return fresh(name, z3.IntSort())
    if s == "real":
        return fresh(name, z3.RealSort())
    if s == "bool":
        return fresh(name, z3.BoolSort())
    if s == "str":
        return fresh(name, z3.StringSort())
    if s == "cx":
        return V.Cx(fresh(name + "_re", z3.RealSort()), fresh(name + "_im", z3.RealSort()))
    if isinstance(cur, SymArr):
        # rebinding `x = x + ...` to a new array of the same shape
        return SymArr(cur.shape, cur.dtype, name=name)
    return Poison("havocked non-scalar %s" % name)


def invariant_for(ex, st, rng, spec, ordinal, elem_fn=None):
    from . import spec as S
    if ex.undo is not None or ex.probe:
        raise MergeAbort("invariant loop inside speculative execution")
    fr = ex.frames[-1]
    env = fr.env
    if isinstance(st.target, ast.Name):
        tnames = [st.target.id]
    elif isinstance(st.target, ast.Tuple) and elem_fn is not None and all(isinstance(x, ast.Name) for x in st.target.elts):
        tnames = [x.id for x in st.target.elts]       # `for i, x in enumerate(seq)`: elem_fn gives the tuple
    else:
        raise Unsupported("loop target @%d" % st.lineno)
    tname = tnames[0]

    def set_target(val):
        if len(tnames) == 1:
            env[tnames[0]] = val
        else:
            for n_, v_ in zip(tnames, val):
                env[n_] = v_
    lo, hi = rng.lo, rng.hi
    entry = S.snapshot_env(env)
    tag = "%s#%d" % (fr.finfo.name, ordinal)

    def bind(i):
        if elem_fn is None:
            env[tname] = i
        else:
            for n_ in tnames:
                env[n_] = Poison("loop element outside the body")

    def inv_at(i):
        bind(i)
        return [S.eval_clause(ex, c, extra={"_i": i, "_lo": lo, "_hi": hi}, entry=entry) for c in spec["inv"]]

    for k, f in enumerate(inv_at(lo)):
        ex.oblige("loop-inv-init:%s:%d" % (tag, k), f, "loop-invariant", st.lineno)
    mods = modified_targets(ex, st.body, spec.get("modifies", ()))
    mods = [m for m in mods if not (m[0] == "name" and m[1] in tnames)]
    hint_key = (fr.finfo.qualname, ordinal)
    havoc(ex, mods, hint_key)
    havocked_dtypes = {m[1]: env[m[1]].dtype for m in mods if m[0] == "name" and isinstance(env.get(m[1]), SymArr)}
    i = fresh("it", z3.IntSort())
    ex.assume(compare("<=", lo, i))
    for f in inv_at(i):
        ex.assume(f)
    ex.notes.append({"loop": "%s#%d@%d" % (fr.finfo.qualname, ordinal, st.lineno),
                     "handled": "sidecar invariant (%d clauses)" % len(spec["inv"])})
    d = ex.decide(2)
    if d == 0:
        # exit: the counter stands at max(lo, hi)
        ex.assume(bnot(compare("<", i, hi)))
        ex.assume(V.bor(compare("==", i, hi), band(compare("<", hi, lo), compare("==", i, lo))))
        for n_ in tnames:
            env[n_] = Poison("loop variable after loop")
        if st.orelse:
            ex.exec_block(st.orelse)
        return
    ex.assume(compare("<", i, hi))
    set_target(i if elem_fn is None else elem_fn(i))
    pre = S.snapshot_env(env)
    for u in spec.get("use_pre", ()):
        S.use_lemma(ex, u[0], u[1], extra={"_i": i}, entry=entry, pre=pre)
    try:
        ex.exec_block(st.body)
    except ContinueSignal:
        pass
    except BreakSignal:
        return
    # an array name re-bound by the body to a wider element type than the one assumed for the arbitrary iteration
    # (e.g. integer initial values turned into reals by the first step): redo the proof with the wider type
    for nm_, dt_ in havocked_dtypes.items():
        cur_ = env.get(nm_)
        if isinstance(cur_, SymArr) and _DT_ORDER.index(cur_.dtype) > _DT_ORDER.index(dt_):
            if not hasattr(ex.registry, "dtype_hints"):
                ex.registry.dtype_hints = {}
            ex.registry.dtype_hints[hint_key + (nm_,)] = cur_.dtype
            raise RestartFunction("array %s becomes %s inside loop %s#%d" % (nm_, cur_.dtype, fr.finfo.name, ordinal))
    lets = {"_i": i}
    for nm, expr in (spec.get("let_post") or {}).items():
        # ghost values computed once after the body (e.g. the result of a callee contract on the pre-state) and shared
        # by the lemma instances below
        ce = S.ClauseExec(ex, dict(env, **lets), entry_env=entry, pre_env=pre)
        lets[nm] = ce.run(expr)
    for u in spec.get("use_post", ()):
        S.use_lemma(ex, u[0], u[1], extra=lets, entry=entry, pre=pre)
    nxt = arith("+", i, 1)
    bind(nxt)
    goals = [S.eval_clause(ex, c, extra={"_i": nxt, "_lo": lo, "_hi": hi}, entry=entry, pre=pre)
             for c in spec["inv"]]
    for k, f in enumerate(goals):
        ex.oblige("loop-inv-preserved:%s:%d" % (tag, k), f, "loop-invariant", st.lineno)
    raise PathEnd()


def exec_while(ex, st):
    from . import spec as S
    if ex.guard is not True:
        raise MergeAbort("loop under guard")
    fr = ex.frames[-1]
    env = fr.env
    ordinal = loop_ordinal(fr.finfo, st)
    spec = ex.registry.loop_spec(fr.finfo.qualname, ordinal)
    if spec is None:
        # bounded unrolling only when the condition is concrete
        n = 0
        while True:
            c = ex.truth(ex.eval(st.test))
            if is_z3(c):
                raise Unsupported("while loop with symbolic condition needs a sidecar invariant @%d" % st.lineno)
            if not c:
                ex.exec_block(st.orelse)
                return
            n += 1
            if n > 10000:
                raise Unsupported("while loop does not terminate concretely @%d" % st.lineno)
            try:
                ex.exec_block(st.body)
            except BreakSignal:
                return
            except ContinueSignal:
                continue
    entry = S.snapshot_env(env)
    tag = "%s#%d" % (fr.finfo.name, ordinal)

    def inv():
        return [S.eval_clause(ex, c, entry=entry) for c in spec["inv"]]

    for k, f in enumerate(inv()):
        ex.oblige("loop-inv-init:%s:%d" % (tag, k), f, "loop-invariant", st.lineno)
    mods = modified_targets(ex, st.body, spec.get("modifies", ()))
    havoc(ex, mods)
    for f in inv():
        ex.assume(f)
    ex.notes.append({"loop": "%s#%d@%d" % (fr.finfo.qualname, ordinal, st.lineno),
                     "handled": "sidecar invariant (%d clauses), partial correctness" % len(spec["inv"])})
    d = ex.decide(2)
    c = ex.truth(ex.eval(st.test))
    if d == 0:
        ex.assume(bnot(c))
        if st.orelse:
            ex.exec_block(st.orelse)
        return
    ex.assume(c)
    try:
        ex.exec_block(st.body)
    except ContinueSignal:
        pass
    except BreakSignal:
        return
    for k, f in enumerate(inv()):
        ex.oblige("loop-inv-preserved:%s:%d" % (tag, k), f, "loop-invariant", st.lineno)
    raise PathEnd()
