#!/bin/sh
# Offline setup: verifies the tools the checks need and warms the Mathlib imports used by the lemma files.
cd "$(dirname "$0")" || exit 1
set -e
python3-vt -c "import z3, sys; print('z3', z3.get_version_string())"
/usr/bin/cvc5 --version | head -1
lean --version
/venv/bin/python -c "import numpy, scipy; print('numpy', numpy.__version__, 'scipy', scipy.__version__)"
mkdir -p .build/lean evidence replays
python3-vt - <<'PY'
import sys
sys.path.insert(0, '.')
from qvc import lean
import subprocess, os
p = os.path.join('.build', 'lean', 'warm.lean')
open(p, 'w').write(lean.IMPORTS + lean.PRELUDE)
r = subprocess.run(['lean', p], capture_output=True, text=True)
print('lean warm-up rc', r.returncode, (r.stdout + r.stderr)[:300])
sys.exit(r.returncode)
PY
echo setup ok
