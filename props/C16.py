"""C16 - hierarchical equations: complete index set, consistent links, valid states.

The index generation works on nested Python lists of symbolic length, outside the reach of the invariant machinery, and
the propagation loops have no closed-form invariant that the SMT back end can carry; everything here is therefore a
bounded stand-in (small fixed structure, all values symbolic), labelled as such, plus a native oracle over a larger grid."""
import itertools
import z3

from qvc.main import Plan, bounded_contract
from qvc.spec import Contract
from qvc.values import Builtin, Obj, SymArr, Cx
from qvc import values as V
from props.C15 import _table

HE = "quantarhei/qm/liouvillespace/heom.py::"
K = HE + "KTHierarchy."

META = dict(
    category="other",   # bounded stand-ins only (nothing here is counted as proved)
    text=("Bounded stand-ins on the real code, all values symbolic at small fixed structure: KTHierarchy.generate_indices "
          "(1-3 baths, depth 0-4: every multi-index of total order <= depth exactly once, level by level), "
          "_convert_2_matrix (level offsets and lengths), _make_nmp1 (for an arbitrary table of 3-4 distinct, level-ordered "
          "multi-indices over 1-2 baths with symbolic entries: each link points to n -/+ e_k, links are mutually inverse, a "
          "missing link means the neighbour is not in the table), and KTHierarchyPropagator.propagate for a two-level "
          "system, one bath, depth 1, three time points: the reduced density matrix stays Hermitian with the initial trace, "
          "and with zero reorganisation energy it equals the closed-system expansion step by step."),
    note=("no obligation is discharged for unbounded sizes; convergence with depth to the analytic pure-dephasing "
          "solution is a numerical limit and not decided; larger hierarchies are exercised by the native oracle only when "
          "an obligation fails."),
    technique="bounded symbolic execution of the real code (fixed structure, symbolic values), z3",
)


def complete_index_set(ex, a, k, l):
    res, n, level = a[0], a[1], a[2]
    if not isinstance(res, list) or len(res) != level + 1:
        return False
    seen = set()
    for lev, items in enumerate(res):
        want = set(t for t in itertools.product(range(lev + 1), repeat=n) if sum(t) == lev)
        got = [tuple(int(x) if not V.is_z3(x) else x for x in it) for it in items]
        if len(got) != len(set(got)) or set(got) != want:
            return False
        seen |= set(got)
    return True


def contracts(reg):
    T = reg.models.table
    T["complete_index_set"] = Builtin("spec:complete_index_set", complete_index_set)
    for n in (1, 2, 3):
        for level in (0, 1, 2, 3, 4):
            reg.add(Contract(K + "generate_indices#%d-baths-depth-%d" % (n, level),
                             setup=(lambda S, n=n, level=level: dict(self=S.obj(K[:-1], label="self"), N=n, level=level)),
                             ensures=[("every-multi-index-up-to-the-depth-exactly-once-level-by-level",
                                       "complete_index_set(result, N, level)")]))

    # ---- links over an arbitrary table of distinct, level-ordered multi-indices ----------------------------------------------------------
    def setup_links(S, hs, nb):
        cells = [[S.int("h_%d_%d" % (r, c)) for c in range(nb)] for r in range(hs)]
        for r in range(hs):
            for c in range(nb):
                S.ex.assume(cells[r][c] >= 0)
        sums = [sum(cells[r]) for r in range(hs)]
        for r in range(hs - 1):
            S.ex.assume(sums[r] <= sums[r + 1])                      # ordered level by level
        for r in range(hs):
            for r2 in range(r + 1, hs):
                S.ex.assume(z3.Or(*[cells[r][c] != cells[r2][c] for c in range(nb)]))     # distinct rows

        def tab(rows):
            return V.lam_array((hs, nb), "int", lambda idx: _sym_table(rows, idx))
        me = S.obj(K[:-1], label="self", hsize=hs, nbath=nb, hinds=tab(cells),
                   nm1=S.array("nm1_0", (hs, nb), "int"), np1=S.array("np1_0", (hs, nb), "int"))
        S.ex.cells = cells
        return dict(self=me, HS=hs, NB=nb)
    ROW = "forall(j, range(0, NB), self.hinds[{m},j] == self.hinds[{n},j] {op} ite(j == {k}, 1, 0))"
    for hs, nb in ((3, 1), (3, 2), (4, 2)):
        rngs = "(range(0, HS), range(0, NB))"
        ens = [("lowering-link-points-to-n-minus-e_k",
                "forall((n, k), %s, self.nm1[n,k] == -1 or (0 <= self.nm1[n,k] < HS and %s))"
                % (rngs, ROW.format(m="self.nm1[n,k]", n="n", k="k", op="-"))),
               ("raising-link-points-to-n-plus-e_k",
                "forall((n, k), %s, self.np1[n,k] == -1 or (0 <= self.np1[n,k] < HS and %s))"
                % (rngs, ROW.format(m="self.np1[n,k]", n="n", k="k", op="+"))),
               ("missing-lowering-link-means-no-such-entry",
                "forall((n, k, m), (range(0, HS), range(0, NB), range(0, HS)), implies(self.nm1[n,k] == -1, not %s))"
                % ROW.format(m="m", n="n", k="k", op="-")),
               ("missing-raising-link-means-no-such-entry",
                "forall((n, k, m), (range(0, HS), range(0, NB), range(0, HS)), implies(self.np1[n,k] == -1, not %s))"
                % ROW.format(m="m", n="n", k="k", op="+")),
               ("links-are-mutually-inverse",
                "forall((n, k), %s, implies(self.np1[n,k] >= 0, self.nm1[self.np1[n,k],k] == n) and "
                "implies(self.nm1[n,k] >= 0, self.np1[self.nm1[n,k],k] == n))" % rngs)]
        reg.add(Contract(K + "_make_nmp1#table-%dx%d" % (hs, nb), setup=(lambda S, hs=hs, nb=nb: setup_links(S, hs, nb)),
                         requires=[], ensures=ens))

    # ---- propagation: valid states, zero coupling -------------------------------------------------------------------------------
    from props.common import plain_basis_properties, serial_manager
    plain_basis_properties(reg.models)

    def setup_prop(S, zero):
        serial_manager(S)
        n, nt, hs, nb = 2, 3, 2, 1
        ints = lambda rows: V.lam_array((len(rows), len(rows[0])), "int", lambda idx: _table(rows, idx))     # noqa: E731
        def herm(name):
            """a 2x2 Hermitian matrix by construction (independent real parameters)"""
            a, d, re, im = S.real(name + "_00"), S.real(name + "_11"), S.real(name + "_re"), S.real(name + "_im")
            cells = {(0, 0): Cx(a, 0), (1, 1): Cx(d, 0), (0, 1): Cx(re, im), (1, 0): Cx(re, -im)}
            return V.lam_array((2, 2), "cx", lambda idx: _cx_table(cells, idx))

        def symm(name, lead=False):
            a, d, o = S.real(name + "_00"), S.real(name + "_11"), S.real(name + "_01")
            cells = {(0, 0): a, (1, 1): d, (0, 1): o, (1, 0): o}
            if lead:
                return V.lam_array((1, 2, 2), "real", lambda idx: _re_table(cells, idx[1:]))
            return V.lam_array((2, 2), "real", lambda idx: _re_table(cells, idx))
        H = herm("H")
        ham = S.obj("Hamiltonian(stub)", label="ham", has_rwa=True, data=H, dim=n)
        lam = S.array("lam", (nb,), "real")
        hy = S.obj(K[:-1], label="hy", ham=ham, dim=n, hsize=hs, nbath=nb, depth=1,
                   ado=S.array("leftover_ado", (hs, n, n), "cx"), hinds=ints([[0], [1]]), nm1=ints([[-1], [0]]),
                   np1=ints([[1], [-1]]), Vs=symm("V", lead=True), lam=lam,
                   gamma=S.array("gam", (nb,), "real"), kBT=S.real("kBT"), Gamma=S.array("Gam", (hs,), "real"), hpop=None)
        ta = S.obj("TimeAxis(stub)", label="timeaxis", length=nt, data=S.array("tdata", (nt,), "real"), step=S.real("tstep"))
        rhoi = S.obj("ReducedDensityMatrix(stub)", label="rhoi", data=herm("rho0"), dim=n)
        HO = symm("HO")
        me = S.obj(HE + "KTHierarchyPropagator", label="self", timeaxis=ta, Nt=nt, dt=S.real("dt"), hy=hy, HOmega=HO, Nref=1)
        # what KTHierarchy._make_Gamma establishes: Gamma[n] = sum_k n_k gamma_k
        S.ex.assume(z3.And(hy.fields["Gamma"].get([0]) == 0, hy.fields["Gamma"].get([1]) == hy.fields["gamma"].get([0])))
        if zero:
            S.ex.assume(lam.get([0]) == 0)
        return dict(self=me, rhoi=rhoi, L=1, report_hierarchy=False, free_hierarchy=False, H=H, HO=HO, Vs=hy.fields["Vs"], rho0=rhoi.fields["data"])
    N2 = "(range(0, 2), range(0, 2))"
    HERM_IN = []        # Hermitian / symmetric by construction (independent real parameters)
    reg.add(Contract(HE + "KTHierarchyPropagator.propagate#valid-states", setup=lambda S: setup_prop(S, False), requires=HERM_IN,
                     ensures=[("hermitian-at-every-time", "forall((t, a, b), (range(0, 3), range(0, 2), range(0, 2)), "
                                                          "conj(result.data[t,a,b]) == result.data[t,b,a])"),
                              ("trace-conserved", "forall(t, range(0, 3), result.data[t,0,0] + result.data[t,1,1] == rho0[0,0] + rho0[1,1])")]))
    STEP = ("forall((a, b), %s, result.data[{t1},a,b] == result.data[{t0},a,b] - 1j*self.dt*("
            "Sum(c, range(0, 2), (H[a,c] - HO[a,c])*result.data[{t0},c,b]) - Sum(c, range(0, 2), result.data[{t0},a,c]*(H[c,b] - HO[c,b]))))" % N2)
    reg.add(Contract(HE + "KTHierarchyPropagator.propagate#zero-coupling", setup=lambda S: setup_prop(S, True), requires=HERM_IN,
                     ensures=[("closed-system-step-0-to-1", STEP.format(t0=0, t1=1)),
                              ("closed-system-step-1-to-2", STEP.format(t0=1, t1=2))]))


def _cx_table(cells, idx):
    re = im = None
    for (a, b), c in cells.items():
        cond = z3.And(V.z3int(idx[0]) == a, V.z3int(idx[1]) == b)
        cre, cim = V.z3real(c.re), V.z3real(c.im)
        re = cre if re is None else z3.If(cond, cre, re)
        im = cim if im is None else z3.If(cond, cim, im)
    return Cx(re, im)


def _re_table(cells, idx):
    r = None
    for (a, b), c in cells.items():
        cond = z3.And(V.z3int(idx[0]) == a, V.z3int(idx[1]) == b)
        r = c if r is None else z3.If(cond, c, r)
    return r


def _sym_table(rows, idx):
    r = None
    for a in range(len(rows)):
        for b in range(len(rows[0])):
            cond = z3.And(V.z3int(idx[0]) == a, V.z3int(idx[1]) == b)
            r = rows[a][b] if r is None else z3.If(cond, rows[a][b], r)
    return r


def plan(ctx):
    p = Plan("C16")
    contracts(ctx.registry)
    p.functions = []
    p.bounded = ([bounded_contract(K + "generate_indices#%d-baths-depth-%d" % (n, level), [{}], note="concrete structure")
                  for n in (1, 2, 3) for level in (0, 1, 2, 3, 4)]
                 + [bounded_contract(K + "_make_nmp1#table-%dx%d" % (hs, nb), [{}],
                                     note="arbitrary distinct level-ordered rows with symbolic non-negative entries")
                    for hs, nb in ((3, 1), (3, 2), (4, 2))]
                 + [bounded_contract(HE + "KTHierarchyPropagator.propagate#valid-states", [{}],
                                     note="2-level system, one bath, depth 1, three time points, first-order step"),
                    bounded_contract(HE + "KTHierarchyPropagator.propagate#zero-coupling", [{}],
                                     note="the same instance with zero reorganisation energy")])
    p.level = "other"
    p.oracles = ["native/oracle_C16.py"]
    p.not_decided = ["all statements for unbounded numbers of baths and depths (bounded stand-ins only)",
                     "convergence with increasing depth to the analytic pure-dephasing solution"]
    return p
