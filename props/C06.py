"""C06 - rates and bath functions obey detailed balance and conserve probability."""
import z3

from qvc.main import Plan
from qvc.spec import Contract, clause_lemma
from qvc.values import Builtin, Obj, SymArr, Cx, fresh, z3real, z3int, lam_array
from qvc import values as V
from qvc import lemmalib
from props.common import serial_manager, ghost_cfg, add_parallel_contracts, transparent_units_contexts

IMP = "quantarhei/implementations/python/redfieldrates.py::"
RR_ = "quantarhei/qm/liouvillespace/rates/redfieldrates.py::"
FR = "quantarhei/qm/liouvillespace/rates/foersterrates.py::"
SD = "quantarhei/qm/corfunctions/spectraldensities.py::"

META = dict(
    category="proof",
    text=("ssRedfieldRateMatrix (the Python implementation the rate matrix dispatches to) is proved, with loop "
          "invariants over the bath-component reduction and the clipping/depopulation nest, to produce "
          "K[i,j] = clip(sum_k cc[k,i,j] KI[k,i,j] KI[k,j,i]) off the diagonal and K[j,j] = -sum_{i!=j} K[i,j]; from that "
          "contract z3 (with Lean-proved finite-sum lemmas) derives zero column sums, non-negative off-diagonal rates "
          "for non-negative cc and symmetric KI, and no transfer to or from a state on which every KI vanishes. "
          "_set_rates is proved to fill cc so that for every pair with 0 < E_j - E_i below the frequency cut-off "
          "cc[k,j,i] = cc[k,i,j] exp(-(E_j-E_i)/kT) with the same Fourier-transformed correlation function value "
          "(exact whatever the numerical transform returned), which with the rate formula gives detailed balance. "
          "The Foerster reference implementation is proved to use |J_ab|^2 F(donor b, acceptor a, lambda_b) and to have "
          "zero column sums. The three analytic spectral densities are proved odd cell by cell on any axis, and the "
          "Fourier-transformed correlation function built from an odd spectral density is proved to satisfy "
          "C(-w) = exp(-w/kT) C(w) (exp/tanh as an abstract positive E with tanh x = (E^2-1)/(E^2+1)). Not decided: "
          "accuracy of the numerical half-Fourier transform (golden-rule value), Foerster detailed balance "
          "(a property of the integral), non-negativity of the numerically transformed C(w), table-driven spectral "
          "densities (B777, CP29)."),
    note=("the runtime dispatch of rates/redfieldrates.py::ssRedfieldRateMatrix to the Python implementation is assumed; "
          "serial DistributedConfiguration; correlation-function objects are stand-ins (cw.at(w) an uninterpreted "
          "function of the component and the frequency)."),
    technique="VCs from the real AST (sidecar loop invariants for the reductions, map-nest summaries) discharged by z3 "
              "(non-linear real arithmetic); finite-sum lemmas in Lean 4 imported as instances",
)

CLIP = "ite({v} < 0 and -({v}) < rtol, 0, {v})"
SRATE = "Sum(k, range(0, Nk), cc[k,{i},{j}]*KI[k,{i},{j}]*KI[k,{j},{i}])"


def contracts(reg):
    add_parallel_contracts(reg)
    transparent_units_contexts(reg.models)
    # physical constants of core/units.py as opaque positive symbols (their numerical values play no role here)
    for nm in ("cm2int", "kB_intK", "kB_int"):
        reg.models.const_overrides["quantarhei/core/units.py::" + nm] = z3.Real("u_" + nm)
        reg.models.table[nm] = z3.Real("u_" + nm)

    # ---- ssRedfieldRateMatrix (python implementation) ------------------------------------------------------------
    def setup_ss(S):
        serial_manager(S)
        na, nk = S.int("Na"), S.int("Nk")
        return dict(Na=na, Nk=nk, KI=S.array("KI", (nk, na, na), "real"), cc=S.array("cc", (nk, na, na), "real"),
                    rtol=S.real("rtol"), werror=S.array("werror", (2,), "int"), RR=S.array("RR", (na, na), "real"))
    S_ij = SRATE.format(i="i", j="j")
    S_xy = SRATE.format(i="x", j="y")
    PART = "ite(x != y, Sum(k, range(0, _i), cc[k,x,y]*KI[k,x,y]*KI[k,y,x]), 0)"
    reg.add(Contract(
        IMP + "ssRedfieldRateMatrix", setup=setup_ss, ghost=ghost_cfg,
        requires=["Na >= 0", "Nk >= 0", "rtol > 0", "cfg.parallel_region >= 0",
                  ("rate-matrix-starts-at-zero", "forall((i, j), (range(0, Na), range(0, Na)), RR[i,j] == 0)")],
        modifies=["RR", "werror"],
        ensures=[("off-diagonal-rates", "forall((i, j), (range(0, Na), range(0, Na)), implies(i != j, RR[i,j] == %s))"
                  % CLIP.format(v="(" + S_ij + ")")),
                 ("depopulation-rates", "forall(j, range(0, Na), RR[j,j] == -Sum(i, range(0, Na), ite(i == j, 0, RR[i,j])))")],
        loops={
            0: dict(inv=["forall((x, y), (range(0, Na), range(0, Na)), RR[x,y] == %s)" % PART], modifies=["RR"]),
            3: dict(inv=["forall((x, y), (range(0, Na), range(0, Na)), implies(x != y, RR[x,y] == "
                         "ite(x < _i, %s, entry(RR)[x,y])))" % CLIP.format(v="entry(RR)[x,y]"),
                         "forall(y, range(0, Na), RR[y,y] == entry(RR)[y,y] - Sum(x, range(0, _i), ite(x == y, 0, %s)))"
                         % CLIP.format(v="entry(RR)[x,y]")],
                    modifies=["RR", "werror"]),
            4: dict(inv=["forall((x, y), (range(0, Na), range(0, Na)), implies(x != y, RR[x,y] == "
                         "ite(x < i or (x == i and y < _i), %s, entry(RR)[x,y])))" % CLIP.format(v="entry(RR)[x,y]"),
                         "forall(y, range(0, Na), RR[y,y] == entry(RR)[y,y] - ite(y < _i and y != i, %s, 0))"
                         % CLIP.format(v="entry(RR)[i,y]")],
                    modifies=["RR", "werror"]),
        }))
    # the stub in rates/redfieldrates.py is replaced at run time by the implementation above
    def capture(S, env):
        ex = S.ex
        if hasattr(ex, "c06"):
            ex.c06["cc"] = env["cc"].snapshot()
            ex.c06["KI"] = env["KI"].snapshot()
            le = getattr(ex, "last_eigh", None)
            if le is not None:
                ex.c06["hD"] = le[1]
        return None
    reg.add(Contract(RR_ + "ssRedfieldRateMatrix", modifies=["RR", "werror"], ghost=ghost_cfg, result=capture,
                     requires=["forall((i, j), (range(0, Na), range(0, Na)), RR[i,j] == 0)"],
                     ensures=reg.contracts[IMP + "ssRedfieldRateMatrix"].ensures,
                     notes="run-time dispatch to implementations/python/redfieldrates.py assumed"))

    # ---- RedfieldRateMatrix._set_rates: the thermodynamic symmetry of cc ---------------------------------------------
    cw_re = z3.Function("u_cw_re", z3.IntSort(), z3.RealSort(), z3.RealSort())
    cw_im = z3.Function("u_cw_im", z3.IntSort(), z3.RealSort(), z3.RealSort())

    def setup_sr(S):
        serial_manager(S)
        na, nk = S.int("Na"), S.int("Nk")
        temp = S.real("Temp")

        def get_cf(ex, a, k, l):
            kk = a[0]

            def get_ft(ex_, a_, k_, l_):
                def at(ex__, a2, k2, l2):
                    return Cx(cw_re(z3int(kk), z3real(a2[0])), cw_im(z3int(kk), z3real(a2[0])))
                return Obj("FTCorrelationFunction(stub)", {"at": Builtin("cw.at", at)})
            return Obj("CorrelationFunction(stub)", {"temperature": temp,
                                                    "get_Fourier_transform": Builtin("cf.get_Fourier_transform", get_ft)})
        cc_ = S.obj("CorrelationFunctionMatrix(stub)", label="CC",
                    get_correlation_function=Builtin("CC.get_correlation_function", get_cf))
        ham = S.obj("Hamiltonian(stub)", label="ham", _data=S.array("Hdata", (na, na), "real"))
        sbi = S.obj("SystemBathInteraction(stub)", label="sbi", N=nk, KK=S.array("KK", (nk, na, na), "real"), CC=cc_)
        me = S.obj(RR_ + "RedfieldRateMatrix", label="self", ham=ham, sbi=sbi)
        S.ex.c06 = {}
        return dict(self=me, Na=na, Nk=nk, Temp=temp)

    def capture_cc(ex, finfo, args, kwargs, bound, line):
        # ghost: remember the arrays handed to ssRedfieldRateMatrix (cc, KI) and the eigenvalues for the postcondition
        if finfo.name == "ssRedfieldRateMatrix" and hasattr(ex, "c06"):
            ex.c06["cc"] = args[3].snapshot()
            ex.c06["KI"] = args[2].snapshot()
            le = getattr(ex, "last_eigh", None)
            if le is not None:
                ex.c06["hD"] = le[1]
        return None
    reg.models.hooks_call.insert(0, capture_cc)

    def ghost_sr(S, env):
        ghost_cfg(S, env)
        g = getattr(S.ex, "c06", {})
        for k in ("cc", "KI", "hD"):
            if k in g:
                env[k] = g[k]
    BOLTZ = "exp(-(hD[j]-hD[i])/(kB_intK*Temp))"
    reg.add(Contract(
        RR_ + "RedfieldRateMatrix._set_rates", setup=setup_sr, ghost=ghost_sr,
        requires=["Na >= 0", "cfg.parallel_region >= 0"],
        raises={"Exception": {"when": "Nk <= 0"}},
        ensures=[("uphill-bath-factor-is-boltzmann-times-downhill",
                  "forall((k, i, j), (range(0, Nk), range(0, Na), range(0, Na)), implies(i != j and hD[j] - hD[i] > 0 "
                  "and hD[j] - hD[i] <= 3000.0*cm2int, cc[k,j,i] == cc[k,i,j]*%s))" % BOLTZ),
                 ("beyond-frequency-cutoff-no-rate",
                  "forall((k, i, j), (range(0, Nk), range(0, Na), range(0, Na)), implies(i != j and "
                  "(hD[j] - hD[i] > 3000.0*cm2int or hD[i] - hD[j] > 3000.0*cm2int), cc[k,i,j] == 0))")]))
    reg.models.table["exp"] = reg.models.table["numpy.exp"]

    # ---- Foerster rates ----------------------------------------------------------------------------------------------
    FI = z3.Function("u_fintegral", z3.ArraySort(z3.IntSort(), z3.RealSort()), z3.ArraySort(z3.IntSort(), z3.RealSort()),
                     z3.ArraySort(z3.IntSort(), z3.RealSort()), z3.ArraySort(z3.IntSort(), z3.RealSort()),
                     z3.ArraySort(z3.IntSort(), z3.RealSort()), z3.RealSort(), z3.RealSort(), z3.RealSort(), z3.RealSort())

    def fint_model(ex, a, k, l):
        tt, gtd, gta, ed, ea, ld = a
        t1 = tt.terms()[0]
        d_re, d_im = gtd.terms()
        a_re, a_im = gta.terms()
        ex.used_models.add("spec:foerster-integral F(t, {g_donor, g_acceptor}; E_donor, E_acceptor, lambda_donor), "
                           "symmetric in the two line-shape functions (they enter as -g_d - g_a)")
        return FI(t1, d_re, d_im, a_re, a_im, z3real(ed), z3real(ea), z3real(ld))
    reg.models.table["F_foerster"] = Builtin("spec:F_foerster", fint_model)
    AS = z3.ArraySort(z3.IntSort(), z3.RealSort())
    t_, a1, a2, b1, b2 = [z3.Const(n, AS) for n in ("t_", "a1", "a2", "b1", "b2")]
    e1, e2, l1 = z3.Reals("e1 e2 l1")
    reg.c06_axioms = [z3.ForAll([t_, a1, a2, b1, b2, e1, e2, l1],
                                FI(t_, a1, a2, b1, b2, e1, e2, l1) == FI(t_, b1, b2, a1, a2, e1, e2, l1),
                                patterns=[FI(t_, a1, a2, b1, b2, e1, e2, l1)])]
    reg.add(Contract(FR + "_fintegral", result=lambda S, env: fint_model(S.ex, [env[k] for k in
                     ("tt", "gtd", "gta", "ed", "ea", "ld")], {}, None),
                     notes="the Foerster integral as an uninterpreted (deterministic) function of its arguments"))

    def setup_fr(S):
        na, nt = S.int("Na"), S.int("Nt")
        return dict(Na=na, HH=S.array("HH", (na, na), "real"), tt=S.array("tt", (nt,), "real"),
                    gt=S.array("gt", (na, nt), "cx"), ll=S.array("ll", (na,), "real"))
    c_fr = Contract(
        FR + "_reference_implementation", setup=setup_fr,
        requires=["Na >= 0", "tt.shape[0] >= 4", "forall(i, range(0, tt.shape[0] - 1), tt[i] < tt[i+1])"],
        ensures=[("rate-from-donor-b-to-acceptor-a",
                  "forall((a, b), (range(0, Na), range(0, Na)), implies(a != b, result[a,b] == "
                  "(HH[a,b]**2)*F_foerster(tt, gt[b,:], gt[a,:], HH[b,b], HH[a,a], ll[b])))"),
                 ("depopulation-rates", "forall(b, range(0, Na), result[b,b] == -Sum(a, range(0, Na), ite(a == b, 0, result[a,b])))")])
    c_fr.native_ghost = ("def ghost(env):\n"
                         "    from quantarhei.qm.liouvillespace.rates import foersterrates as fr\n"
                         "    env['F_foerster'] = lambda tt, gd, ga, ed, ea, ld: fr._fintegral(tt, gd, ga, ed, ea, ld)\n")
    reg.add(c_fr)

    # ---- analytic spectral densities are odd ---------------------------------------------------------------------------
    def setup_sd(S, keys):
        serial_manager(S)
        n = S.int("n")
        ax = S.obj("FrequencyAxis(stub)", label="axis", data=S.array("omega", (n,), "real"), length=n)
        me = S.obj(SD + "SpectralDensity", label="self", axis=ax, lamb=S.real("lamb0"),
                   lim_omega=S.array("lim_omega", (2,), "real"))
        store = {}

        def add_me(ex, a, k, l):
            me.fields["added"] = a[1].snapshot()
        me.fields["_add_me"] = Builtin("DFunction._add_me", add_me)
        me.fields["_make_me"] = Builtin("DFunction._make_me", add_me)
        params = {kk: S.real("p_" + kk) for kk in keys}
        return dict(self=me, params=params, values=None, n=n)
    ODD = ("forall((i, j), (range(0, n), range(0, n)), implies(self.axis.data[j] == -self.axis.data[i], "
           "self.added[j] == -self.added[i]))")
    for fn, keys, req in (("_make_overdamped_brownian", ("cortime", "reorg"), ["params['cortime'] > 0"]),
                          ("_make_underdamped_brownian", ("gamma", "freq", "reorg"), ["params['gamma'] > 0", "params['freq'] > 0"]),
                          ("_make_underdamped", ("gamma", "freq", "reorg"), ["params['gamma'] > 0", "params['freq'] > 0"])):
        reg.add(Contract(SD + "SpectralDensity." + fn, setup=(lambda S, keys=keys: setup_sd(S, keys)),
                         requires=["n >= 0"] + req, ensures=[("spectral-density-odd", ODD)]))

    # ---- Fourier-transformed correlation function from a spectral density -----------------------------------------------
    def setup_ft(S, at_zero):
        serial_manager(S)
        n = S.int("n")
        ind, diff = S.int("ind_of_zero"), S.real("diff")
        ax = S.obj("FrequencyAxis(stub)", label="axis", data=S.array("omega", (n,), "real"), length=n, step=S.real("step"),
                   locate=Builtin("axis.locate", lambda ex, a, k, l: (ind, diff)))
        T = S.real("T")
        me = S.obj(SD + "SpectralDensity", label="self", axis=ax, _data=S.array("J", (n,), "real"),
                   params=[{"T": T, "ftype": "OverdampedBrownian"}])
        return dict(self=me, temperature=None, n=n, T=T, ind_of_zero=ind, diff=diff)

    def ft_hook(ex, cinfo, args, kwargs, line):
        if cinfo.name == "FTCorrelationFunction":
            return (Obj("FTCorrelationFunction(result)", {"axis": args[0], "params": args[1],
                                                          "data": kwargs.get("values")}),)
        return None
    reg.models.hooks_instantiate.append(ft_hook)
    from props.common import plain_basis_properties
    reg.add(Contract(
        SD + "SpectralDensity.get_FTCorrelationFunction", setup=lambda S: setup_ft(S, False),
        requires=["n >= 0", "T > 0", "0 <= ind_of_zero and ind_of_zero < n",
                  "implies(not (diff > 1.0e-7 or -diff > 1.0e-7), ind_of_zero >= 1 and ind_of_zero + 1 < n)"],
        ensures=[("coth-formula-away-from-zero",
                  "forall(i, range(0, n), implies((diff > 1.0e-7 or -diff > 1.0e-7) or i != ind_of_zero, "
                  "result.data[i] == (1.0 + 1.0/tanh(self.axis.data[i]/(2.0*kB_int*T)))*self._data[i]))")]))
    reg.models.table["tanh"] = reg.models.table["numpy.tanh"]
    reg.models.hooks_getattr.append(_sd_data_hook)


def _sd_data_hook(ex, obj, name, line):
    # SpectralDensity.data is a plain (units-managed) array attribute; inside energy_units("int") it is the storage
    if name == "data" and isinstance(obj, Obj) and getattr(obj.cls, "name", "") == "SpectralDensity" and "_data" in obj.fields:
        return (obj.fields["_data"],)
    return None


# ---- property-level lemmas over the contracts ---------------------------------------------------------------------

def _rate_setup(S):
    na, nk = S.int("Na"), S.int("Nk")
    d = dict(Na=na, Nk=nk, KI=S.array("KI", (nk, na, na), "real"), cc=S.array("cc", (nk, na, na), "real"),
             rtol=S.real("rtol"), RR=S.array("RR", (na, na), "real"), j0=S.int("j0"), i0=S.int("i0"), g=S.int("g"))
    RR, j0 = d["RR"], d["j0"]
    d["col"] = lam_array((na,), "real", lambda xs: RR.get([xs[0], j0]))
    cc, KI, i0 = d["cc"], d["KI"], d["i0"]
    d["terms"] = lam_array((nk,), "real", lambda xs: V.arith("*", V.arith("*", cc.get([xs[0], i0, j0]), KI.get([xs[0], i0, j0])),
                                                            KI.get([xs[0], j0, i0])))
    return d


RATE_POST = ["Na >= 0", "Nk >= 0", "rtol > 0", "0 <= j0 and j0 < Na", "0 <= i0 and i0 < Na", "i0 != j0",
             "forall((i, j), (range(0, Na), range(0, Na)), implies(i != j, RR[i,j] == %s))"
             % CLIP.format(v="(" + SRATE.format(i="i", j="j") + ")"),
             "forall(j, range(0, Na), RR[j,j] == -Sum(i, range(0, Na), ite(i == j, 0, RR[i,j])))"]


def lemma_rates(ctx):
    obs = clause_lemma(ctx, "rate-matrix", _rate_setup, RATE_POST,
                       [("columns-sum-to-zero", "Sum(i, range(0, Na), RR[i,j0]) == 0")],
                       use=[("sum_split_at", {"N": "Na", "n": "j0", "F": "col"})],
                       where="props/C06.py (over the contract of ssRedfieldRateMatrix)")
    obs += clause_lemma(ctx, "rate-matrix", _rate_setup,
                        RATE_POST + ["forall((k, i, j), (range(0, Nk), range(0, Na), range(0, Na)), cc[k,i,j] >= 0)",
                                     "forall((k, i, j), (range(0, Nk), range(0, Na), range(0, Na)), KI[k,i,j] == KI[k,j,i])"],
                        [("off-diagonal-rates-non-negative", "RR[i0,j0] >= 0")],
                        use=[("sum_nonneg", {"lo": "0", "hi": "Nk", "F": "terms"})],
                        where="props/C06.py (over the contract of ssRedfieldRateMatrix)")
    obs += clause_lemma(ctx, "rate-matrix", _rate_setup,
                        RATE_POST + ["0 <= g and g < Na",
                                     "forall((k, x), (range(0, Nk), range(0, Na)), KI[k,g,x] == 0 and KI[k,x,g] == 0)"],
                        [("no-transfer-to-or-from-a-decoupled-state",
                          "forall(x, range(0, Na), implies(x != g, RR[g,x] == 0 and RR[x,g] == 0))")],
                        where="props/C06.py (over the contract of ssRedfieldRateMatrix)")
    return obs


def lemma_detailed_balance(ctx):
    """rate formula (no clipping active) + Boltzmann relation of cc + symmetric KI  =>  K[j,i] = e^{-w/kT} K[i,j]"""
    def setup(S):
        d = _rate_setup(S)
        d["boltz"] = S.real("boltz")
        cc, KI, i0, j0 = d["cc"], d["KI"], d["i0"], d["j0"]
        d["down"] = lam_array((d["Nk"],), "real", lambda xs: V.arith("*", V.arith("*", cc.get([xs[0], i0, j0]), KI.get([xs[0], i0, j0])), KI.get([xs[0], j0, i0])))
        d["up"] = lam_array((d["Nk"],), "real", lambda xs: V.arith("*", V.arith("*", cc.get([xs[0], j0, i0]), KI.get([xs[0], j0, i0])), KI.get([xs[0], i0, j0])))
        return d
    hyps = ["Na >= 0", "Nk >= 0", "0 <= j0 and j0 < Na", "0 <= i0 and i0 < Na", "i0 != j0", "boltz > 0",
            "RR[i0,j0] == " + SRATE.format(i="i0", j="j0"), "RR[j0,i0] == " + SRATE.format(i="j0", j="i0"),
            "forall(k, range(0, Nk), cc[k,j0,i0] == cc[k,i0,j0]*boltz)"]
    return clause_lemma(ctx, "detailed-balance", setup, hyps,
                        [("uphill-rate-is-boltzmann-times-downhill-rate", "RR[j0,i0] == boltz*RR[i0,j0]")],
                        use=[("sum_scale", {"lo": "0", "hi": "Nk", "c": "boltz", "F": "down", "G": "up"})],
                        where="props/C06.py (over the contracts of _set_rates and ssRedfieldRateMatrix)")


def lemma_foerster(ctx):
    def setup(S):
        na = S.int("Na")
        d = dict(Na=na, KK=S.array("KK", (na, na), "real"), b0=S.int("b0"))
        KK, b0 = d["KK"], d["b0"]
        d["col"] = lam_array((na,), "real", lambda xs: KK.get([xs[0], b0]))
        return d
    hyps = ["Na >= 0", "0 <= b0 and b0 < Na",
            "forall(b, range(0, Na), KK[b,b] == -Sum(a, range(0, Na), ite(a == b, 0, KK[a,b])))"]
    return clause_lemma(ctx, "foerster-rates", setup, hyps, [("columns-sum-to-zero", "Sum(a, range(0, Na), KK[a,b0]) == 0")],
                        use=[("sum_split_at", {"N": "Na", "n": "b0", "F": "col"})],
                        where="props/C06.py (over the contract of foersterrates._reference_implementation)")


def lemma_ft_detailed_balance(ctx):
    """(1 + coth(w/2kT)) J(w) with J odd satisfies C(-w) = exp(-w/kT) C(w); tanh x = (E^2-1)/(E^2+1), E = exp(x) > 0"""
    def setup(S):
        return dict(E=S.real("E"), J=S.real("J"), th=S.real("th"), thm=S.real("thm"), Cp=S.real("Cp"), Cm=S.real("Cm"))
    hyps = ["E > 0", "E != 1",                               # w != 0
            "th == (E*E - 1)/(E*E + 1)", "thm == -th",       # tanh(x), tanh(-x) with E = exp(x), x = w/2kT
            "Cp == (1.0 + 1.0/th)*J",                        # postcondition of get_FTCorrelationFunction at w
            "Cm == (1.0 + 1.0/thm)*(-J)"]                    # ... at -w, spectral density odd (proved above)
    return clause_lemma(ctx, "ft-correlation-function", setup, hyps,
                        [("C(-w)-equals-exp(-w/kT)-C(w)", "Cm*E*E == Cp")],
                        where="props/C06.py (over the contracts of the spectral densities and get_FTCorrelationFunction)")


def plan(ctx):
    p = Plan("C06")
    contracts(ctx.registry)
    p.functions = [IMP + "ssRedfieldRateMatrix", RR_ + "RedfieldRateMatrix._set_rates", FR + "_reference_implementation",
                   SD + "SpectralDensity._make_overdamped_brownian", SD + "SpectralDensity._make_underdamped_brownian",
                   SD + "SpectralDensity._make_underdamped", SD + "SpectralDensity.get_FTCorrelationFunction"]
    p.lemmas = [lemma_rates, lemma_detailed_balance, lemma_foerster, lemma_ft_detailed_balance]
    p.oracles = ["native/oracle_C06.py"]
    p.extra_axioms = list(ctx.registry.c06_axioms) + [z3.Real("u_cm2int") > 0, z3.Real("u_kB_intK") > 0, z3.Real("u_kB_int") > 0,
                                                       z3.Real("c_pi") > 3, z3.Real("c_c") > 0, z3.Real("c_hbar") > 0, z3.Real("c_k") > 0, z3.Real("c_e") > 0]
    p.not_decided = ["golden-rule value of downhill rates within the accuracy of the numerical half-Fourier transform",
                     "Foerster detailed balance w.r.t. relaxed energies (a property of the spline integral)",
                     "non-negativity of the numerically transformed correlation function (cc >= 0 is a hypothesis of the "
                     "non-negativity lemma)", "table-driven spectral densities (B777, CP29)",
                     "time-dependent Redfield rates (tdredfieldrates.py)"]
    p.trusted = ["tanh x = (exp(2x)-1)/(exp(2x)+1), exp > 0 (the only facts about exp/tanh used)"]
    return p
