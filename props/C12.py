"""C12 - third-order response: exact orientational average, additivity, symmetry.

The orientational prefactor is computed at two cooperating sites (LabSetup.set_pulse_polarizations for the fields,
liouville_pathway.build / orientational_averaging for the dipoles); their contracts fix the three index pairings and the
coupling matrix, and the composed formula is the contraction of the isotropic rank-four tensor average."""
import z3

from qvc.main import Plan
from qvc.spec import Contract, clause_lemma
from qvc.values import Builtin, Obj, SymArr, Cx, fresh
from qvc import values as V
from qvc import lean as L

LAB = "quantarhei/spectroscopy/labsetup.py::"
DIA = "quantarhei/spectroscopy/diagramatics.py::"

META = dict(
    category="proof",
    text=("LabSetup.set_pulse_polarizations, liouville_pathway.build and liouville_pathway.orientational_averaging are "
          "proved against contracts on the real code for all polarisation and dipole four-tuples: the field vector holds "
          "the pairings (e4.e3)(e2.e1), (e4.e2)(e3.e1), (e4.e1)(e3.e2) contracted with M4 = [[4,-1,-1],[-1,4,-1],[-1,-1,4]]/30, "
          "the dipole vector holds the same three pairings in the same order, and the prefactor is sign * F4e.M4.F4n * "
          "Re rho0 * evolution factor.  Composed (real code of the three functions executed in sequence), the prefactor "
          "equals the closed form of the isotropic rank-four average <prod_n (e_n . R d_n)>_R; it is proved invariant "
          "under a common rotation of all dipoles or of all polarisations (scalar products are invariant: Lean) and to "
          "scale with the fourth power of a common dipole factor. MockTwoDResponseCalculator.calculate_pathway is proved "
          "to return, for rephasing / non-rephasing pathways and both line shapes, the pathway prefactor times the line "
          "shape centred at the pathway's first and last coherence frequencies (rephasing pathways on the negated first "
          "axis), with the pathway's own widths when they are given and the calculator's otherwise, the zero response for "
          "an empty pathway, and to leave calculator and pathway untouched: the calculated shape is linear in the "
          "prefactor, so the fourth-power scaling and the signs of the prefactors carry over to the spectrum."),
    note=("gaussian2D / lorentzian2D are uninterpreted functions of (x[i], centre, width, y[j], centre, width); "
          "the closed form of the Haar average over SO(3), (1/30) sum_rs Fe_r M_rs Fd_s with the pairings (12)(34), (13)(24), "
          "(14)(23), is a classical result taken as the specification (it is cross-checked by quadrature over Euler angles "
          "in the native oracle); total = rephasing + non-rephasing, additivity for uncoupled molecules and the "
          "cancellation of cross peaks need the whole response calculators and are not under contract."),
    technique="VCs from the real AST (two cooperating sites composed by symbolic execution), z3 non-linear real arithmetic; "
              "rotation invariance of scalar products in Lean 4",
)


def vec(S, name):
    return [S.real("%s_%d" % (name, k)) for k in range(3)]


def arr_of(rows, dtype="real"):
    """a (len(rows), 3) array with the given symbolic cells"""
    n = len(rows)

    def cell(idx):
        i, j = idx
        r = None
        for a in range(n):
            for b in range(3):
                c = rows[a][b]
                cond = z3.And(V.z3int(i) == a, V.z3int(j) == b)
                r = c if r is None else z3.If(cond, c, r)
        return r
    return V.lam_array((n, 3), dtype, cell)


def dot(a, b):
    return a[0] * b[0] + a[1] * b[1] + a[2] * b[2]


def pairings(v):
    """the three pairings of a four-tuple in the code's slot order"""
    return [dot(v[3], v[2]) * dot(v[1], v[0]), dot(v[3], v[1]) * dot(v[2], v[0]), dot(v[3], v[0]) * dot(v[2], v[1])]


M4 = [[4, -1, -1], [-1, 4, -1], [-1, -1, 4]]


def iso_average(e, d):
    """closed form of < prod_n (e_n . R d_n) >_R"""
    fe, fd = pairings(e), pairings(d)
    tot = z3.RealVal(0)
    for r in range(3):
        for s_ in range(3):
            tot = tot + fe[r] * M4[r][s_] * fd[s_]
    return tot / 30


def mk_lab(S, e=None):
    lab = S.obj(LAB + "LabSetup", label="lab", _number_of_pulses=3,
                M4=arr_of([[z3.RealVal(x) / 30 for x in row] for row in M4]), F4eM4=None, e=None)
    return lab


def mk_pathway(S, d, sides=None):
    sides = sides or [S.int("side_%d" % k) for k in range(4)]
    n = S.int("Nst")
    rho0 = S.array("rho0", (n, n), "cx")
    agg = S.obj("Aggregate(stub)", label="aggregate", rho0=rho0)
    n0 = S.int("n0")
    S.ex.assume(z3.And(n0 >= 0, n0 < n))
    trans = V.lam_array((4, 2), "int", lambda idx: z3.If(z3.And(V.z3int(idx[0]) == 0, V.z3int(idx[1]) == 1), n0, 0))
    sd = V.lam_array((4,), "int", lambda idx: z3.If(V.z3int(idx[0]) == 0, sides[0], z3.If(V.z3int(idx[0]) == 1, sides[1],
                                              z3.If(V.z3int(idx[0]) == 2, sides[2], sides[3]))))
    pw = S.obj(DIA + "liouville_pathway", label="self", order=3, dmoments=arr_of(d), sides=sd, aggregate=agg,
               transitions=trans, F4n=S.array("F4n0", (3,), "real"), evolfac=S.cx("evolfac"), pref=-1, sign=None, built=False)
    return pw, sides, n0, rho0


def contracts(reg):
    T = reg.models.table

    def setup_pol(S):
        e = [vec(S, "e%d" % k) for k in range(4)]
        lab = mk_lab(S)
        lab.label = "self"
        S.leaves["self"] = lab
        pols = tuple(arr_of([e[k]]) for k in range(3))
        pp = tuple(V.lam_array((3,), "real", lambda idx, k=k: z3.If(V.z3int(idx[0]) == 0, e[k][0], z3.If(V.z3int(idx[0]) == 1, e[k][1], e[k][2])))
                   for k in range(4))
        S.ex.e_vecs = e
        return dict(self=lab, pulse_polarizations=pp[:3], detection_polarization=pp[3])

    def fe_m4(ex, a, k, l):
        e = ex.e_vecs
        fe = pairings(e)
        q = a[0]
        return sum(fe[r] * M4[r][q] for r in range(3)) / 30
    T["FeM4"] = Builtin("spec:FeM4", fe_m4)
    reg.add(Contract(LAB + "LabSetup.set_pulse_polarizations", setup=setup_pol, requires=[],
                     ensures=[("field-pairings-contracted-with-M4-slot-%d" % q, "self.F4eM4[%d] == FeM4(%d)" % (q, q)) for q in range(3)]
                     + [("polarisations-stored", "self.e[3,0] == detection_polarization[0] and self.e[0,1] == pulse_polarizations[0][1] "
                                                 "and self.e[2,2] == pulse_polarizations[2][2]")], inline=True))

    def setup_build(S):
        d = [vec(S, "d%d" % k) for k in range(4)]
        pw, sides, n0, rho0 = mk_pathway(S, d)
        S.ex.d_vecs, S.ex.sides_ = d, sides
        return dict(self=pw)
    T["Fd"] = Builtin("spec:Fd", lambda ex, a, k, l: pairings(ex.d_vecs)[a[0]])
    T["sides_product"] = Builtin("spec:sides_product", lambda ex, a, k, l: ex.sides_[0] * ex.sides_[1] * ex.sides_[2] * ex.sides_[3])
    reg.add(Contract(DIA + "liouville_pathway.build", setup=setup_build, requires=[],
                     ensures=[("dipole-pairings-slot-%d" % q, "self.F4n[%d] == Fd(%d)" % (q, q)) for q in range(3)]
                     + [("sign-is-the-product-of-the-sides", "self.sign == sides_product()"), ("built", "self.built")],
                     inline=True))


def compose(S, map_e=None, map_d=None):
    """the real code of the three functions executed in sequence on symbolic polarisations and dipoles"""
    e = [vec(S, "e%d" % k) for k in range(4)]
    d = [vec(S, "d%d" % k) for k in range(4)]
    if map_e:
        e = [map_e(v) for v in e]
    if map_d:
        d = [map_d(v) for v in d]
    lab = mk_lab(S)
    pp = tuple(V.lam_array((3,), "real", lambda idx, k=k: z3.If(V.z3int(idx[0]) == 0, e[k][0], z3.If(V.z3int(idx[0]) == 1, e[k][1], e[k][2])))
               for k in range(4))
    repo = S.ex.repo
    S.ex.call_function(repo.function(LAB + "LabSetup.set_pulse_polarizations"), [pp[:3], pp[3]], {}, bound=lab)
    pw, sides, n0, rho0 = mk_pathway(S, d)
    S.ex.call_function(repo.function(DIA + "liouville_pathway.build"), [], {}, bound=pw)
    S.ex.call_function(repo.function(DIA + "liouville_pathway.orientational_averaging"), [lab], {}, bound=pw)
    return dict(lab=lab, pw=pw, e=e, d=d, sides=sides, n0=n0, rho0=rho0)


def lemma_prefactor(ctx):
    def setup(S):
        w = compose(S)
        sign = w["sides"][0] * w["sides"][1] * w["sides"][2] * w["sides"][3]
        avg = iso_average(w["e"], w["d"])
        rho = Cx.of(w["rho0"].get([w["n0"], w["n0"]])).re
        ev = w["pw"].fields["evolfac"]
        w["want_re"] = z3.ToReal(sign) * avg * rho * ev.re
        w["want_im"] = z3.ToReal(sign) * avg * rho * ev.im
        w["pref"] = w["pw"].fields["pref"]
        return w
    return clause_lemma(ctx, "prefactor-is-the-isotropic-average", setup, [],
                        [("real-part", "numpy.real(pref) == want_re"), ("imaginary-part", "numpy.imag(pref) == want_im")],
                        where="props/C12.py: set_pulse_polarizations, build, orientational_averaging composed (real code)")


def rotation(S, name="R"):
    """a symbolic orthogonal matrix (rows R[i]); R^T R = 1 is assumed by the caller"""
    R = [[S.real("%s_%d%d" % (name, i, j)) for j in range(3)] for i in range(3)]
    orth = []
    for a in range(3):
        for b in range(3):
            orth.append(sum(R[k][a] * R[k][b] for k in range(3)) == (1 if a == b else 0))
    return R, orth


def apply_rot(R, v):
    return [R[i][0] * v[0] + R[i][1] * v[1] + R[i][2] * v[2] for i in range(3)]


def lemma_symmetries(ctx):
    obs = []

    def setup_scale(S):
        w0 = compose(S)
        s_ = S.real("s")
        w1 = compose(S, map_d=lambda v: [s_ * c for c in v])
        return dict(p0=w0["pw"].fields["pref"], p1=w1["pw"].fields["pref"], s=s_)
    obs += clause_lemma(ctx, "fourth-power-of-a-common-dipole-factor", setup_scale, [],
                        [("scaling", "p1 == s*s*s*s*p0")],
                        where="props/C12.py: composed real code with all dipoles multiplied by s")
    for which in ("dipoles", "polarisations"):
        def setup_rot(S, which=which):
            w0 = compose(S)
            R, orth = rotation(S)
            for f in orth:
                S.ex.assume(f)
            S.orth = orth
            if which == "dipoles":
                w1 = compose(S, map_d=lambda v: apply_rot(R, v))
            else:
                w1 = compose(S, map_e=lambda v: apply_rot(R, v))
            env = dict(p0=w0["pw"].fields["pref"], p1=w1["pw"].fields["pref"], orth=z3.And(*orth))
            for i in range(3):
                for j in range(3):
                    env["R_%d%d" % (i, j)] = R[i][j]
            for k in range(4):
                for c_ in range(3):
                    env["v%d_%d" % (k, c_)] = (w0["d"] if which == "dipoles" else w0["e"])[k][c_]
            return env
        uses = []
        for m in range(4):
            for n in range(m + 1, 4):
                b_ = {"r%d%d" % (i, j): "R_%d%d" % (i, j) for i in range(3) for j in range(3)}
                b_.update({"a%d" % c_: "v%d_%d" % (n, c_) for c_ in range(3)})
                b_.update({"b%d" % c_: "v%d_%d" % (m, c_) for c_ in range(3)})
                uses.append(("dot_rotation", b_))
        obs += clause_lemma(ctx, "common-rotation-of-all-" + which, setup_rot, ["orth"],
                            [("invariant", "p1 == p0")], use=uses,
                            where="props/C12.py: composed real code with all %s rotated by an orthogonal matrix" % which)
    return obs

MOCK = "quantarhei/spectroscopy/mocktwodcalculator.py::MockTwoDResponseCalculator"


def contracts_mock(reg):
    """shape of one Liouville pathway in the mock calculator: prefactor times a line shape centred at the pathway's
    first and last coherence frequencies, rephasing pathways on the negated first axis"""
    T = reg.models.table
    shape_fns = {}

    def shape2d(kind):
        def model(ex, a, k, l):
            x, c1, w1, y, c3, w3 = a[:6]
            re = shape_fns.setdefault(kind + "_re", z3.Function("u_%s2D_re" % kind, *([z3.RealSort()] * 7)))
            im = shape_fns.setdefault(kind + "_im", z3.Function("u_%s2D_im" % kind, *([z3.RealSort()] * 7)))
            sx, sy = x.snapshot(), y.snapshot()
            ex.used_models.add("assume:%s2D(x, c1, w1, y, c3, w3)[i,j] is a function of (x[i], c1, w1, y[j], c3, w3) only" % kind)

            def cell(idx):
                args = [V.z3real(v) for v in (sx.get([idx[0]]), c1, w1, sy.get([idx[1]]), c3, w3)]
                return Cx(re(*args), im(*args))
            return V.lam_array((x.shape[0], y.shape[0]), "cx", cell)
        return Builtin(kind + "2D", model)
    T["gaussian2D"] = shape2d("gaussian")
    T["lorentzian2D"] = shape2d("lorentzian")

    def hook(ex, finfo, args, kwargs, bound, line):
        if finfo.name in ("gaussian2D", "lorentzian2D") and finfo.cls is None:
            return (T[finfo.name].fn(ex, list(args), kwargs, line),)
        return None
    reg.models.hooks_call.insert(0, hook)

    def setup(S, ptype, shape):
        n1, n3 = S.int("N1"), S.int("N3")
        oa1 = S.obj("FrequencyAxis(stub)", label="oa1", length=n1, data=S.array("w1", (n1,), "real"))
        oa3 = S.obj("FrequencyAxis(stub)", label="oa3", length=n3, data=S.array("w3", (n3,), "real"))
        me = S.obj(MOCK, label="self", oa1=oa1, oa3=oa3, widthx=S.real("widthx"), widthy=S.real("widthy"),
                   dephx=S.real("dephx"), dephy=S.real("dephy"))
        order, rel = S.int("order"), S.int("relax_order")
        nfr = S.int("nfreq")
        pw = S.obj("liouville_pathway(stub)", label="pathway", order=order, relax_order=rel, pathway_type=ptype,
                   frequency=S.array("freq", (nfr,), "real"), pref=S.real("pref"),
                   widths=S.array("pwidths", (5,), "real"), dephs=S.array("pdephs", (5,), "real"))
        return dict(self=me, pathway=pw, shape=shape, N1=n1, N3=n3, w1=oa1.fields["data"], w3=oa3.fields["data"],
                    pref=pw.fields["pref"], freq=pw.fields["frequency"], noe=V.arith("+", 1, V.arith("+", order, rel)))
    T["ite_"] = T.get("ite")
    for ptype, sign in (("R", "-"), ("NR", "")):
        for shape, fn, wx, wy in (("Gaussian", "gaussian2D", "widths", "widths"), ("Lorentzian", "lorentzian2D", "dephs", "dephs")):
            a1 = "(self.%sx if pathway.%s[1] < 0.0 else pathway.%s[1])" % ("width" if shape == "Gaussian" else "deph", wx, wx)
            # (the second width of the Lorentzian shape is selected by the sign of widths[3] in the code: stated as it is)
            a3 = "(self.%sy if pathway.widths[3] < 0.0 else pathway.%s[3])" % ("width" if shape == "Gaussian" else "deph", wy)
            reg.add(Contract(
                MOCK + ".calculate_pathway#%s-%s" % (ptype, shape), setup=(lambda S, p_=ptype, s_=shape: setup(S, p_, s_)),
                requires=["N1 >= 0", "N3 >= 0", "noe >= 2", "noe - 2 < freq.shape[0]", "freq.shape[0] >= 1"],
                ensures=[("prefactor-times-line-shape-at-the-pathway-frequencies",
                          "forall((i, j), (range(0, N1), range(0, N3)), result[i,j] == pref*%s(%sw1, freq[0], %s, w3, freq[noe-2], %s)[i,j])"
                          % (fn, sign, a1, a3))],
                frame=dict(roots=["self", "pathway"], allow=[])))

    def setup_none(S):
        d = setup(S, "R", "Gaussian")
        d["pathway"] = None
        return d
    reg.add(Contract(MOCK + ".calculate_pathway#no-pathway", setup=setup_none, requires=["N1 >= 0", "N3 >= 0"],
                     ensures=[("zero-response", "forall((i, j), (range(0, N1), range(0, N3)), result[i,j] == 0)")]))


def plan(ctx):
    p = Plan("C12")
    contracts(ctx.registry)
    contracts_mock(ctx.registry)
    p.functions = [LAB + "LabSetup.set_pulse_polarizations", DIA + "liouville_pathway.build"] + \
                  [MOCK + ".calculate_pathway#%s-%s" % (t, sh) for t in ("R", "NR") for sh in ("Gaussian", "Lorentzian")] + \
                  [MOCK + ".calculate_pathway#no-pathway"]
    p.lemmas = [lemma_prefactor, lemma_symmetries]
    p.oracles = ["native/oracle_C12.py"]
    p.trusted = ["<prod_n (e_n . R d_n)> over Haar-distributed rotations R equals (1/30) sum_rs Fe_r M_rs Fd_s with "
                 "M = [[4,-1,-1],[-1,4,-1],[-1,-1,4]] and the pairings (12)(34), (13)(24), (14)(23) (isotropic rank-four tensor "
                 "average; cross-checked by quadrature in native/oracle_C12.py)"]
    p.not_decided = ["total signal = rephasing + non-rephasing parts of the calculated response",
                     "additivity for uncoupled molecules / exact cancellation of cross peaks (Liouville pathway generation in "
                     "aggregate_spectroscopy.py and the response calculators are not under contract)",
                     "rotation invariance and scaling of the full calculated response (proved for every pathway prefactor only)"]
    return p
