"""C15 - propagation results are functions of their inputs only.

Frame conditions on the real code: every object reachable from the inputs at entry (Hamiltonian, relaxation tensor, pure
dephasing description, time axis, initial state) and the propagator's own configuration are unchanged at exit; scratch
fields of the propagator are re-initialised before they are read (C02 loop invariants).  Repeatability of the hierarchy
propagator is a bounded relational stand-in (two runs from arbitrary left-over memory)."""
import z3

from qvc.main import Plan, bounded_contract
from qvc.spec import Contract, clause_lemma
from qvc.values import Builtin, Obj, SymArr, Cx, fresh
from qvc import values as V
import props.C02 as C02
import props.C08 as C08

RP = C02.RP
P = C02.P
HE = "quantarhei/qm/liouvillespace/heom.py::"

META = dict(
    category="other",   # deductive proofs plus bounded stand-ins (labelled; not counted as proved)
    text=("Frame conditions are proved on the real code of the density-matrix propagation loops (__propagate_short_exp, "
          "__propagate_short_exp_with_relaxation with and without Lorentzian pure dephasing) and of the dispatcher "
          "ReducedDensityMatrixPropagator.propagate: every field, array cell and container reachable from the Hamiltonian, "
          "the relaxation tensor, the pure-dephasing description, the time axis and the initial state at entry is "
          "unchanged at exit, and so are the propagator's refinement and time step, also when a refinement is requested "
          "for one call; the scratch fields of the propagator (expo, t0) are re-initialised from the inputs before the "
          "first use (loop invariants of C02), so a result does not depend on what was computed before. For the "
          "Kubo-Tanimura hierarchy propagator, two runs from arbitrary left-over hierarchy memory are compared in a bounded "
          "relational stand-in (small fixed sizes, all values symbolic)."),
    note=("relaxation-tensor construction (C01 contracts do not carry frames), the state-vector, population and "
          "field-driven propagators and the evolution superoperator beyond the contracts of C08 are not under frame "
          "contracts; frames are stated over the modelled heap (stand-in objects with plain data arrays)."),
    technique="frame obligations generated from the entry heap (every reachable field / cell unchanged) on VCs from the real AST, z3; "
              "bounded relational check for the hierarchy propagator",
)

SCRATCH = ["self.expo", "self.t0"]


def contracts(reg):
    C02.contracts(reg)
    base = {q: reg.contracts[q] for q in (P + "__propagate_short_exp", P + "__propagate_short_exp_with_relaxation",
                                           P + "__propagate_short_exp_with_relaxation#lorentzian-dephasing")}
    for q, c in base.items():
        tag = "#frame" if "#" not in q else "-frame"
        reg.add(Contract(q + tag, setup=c.setup, requires=list(c.requires), ensures=[], loops=c.loops, ghost=c.ghost,
                         frame=dict(roots=["self", "rhoi"], allow=SCRATCH)))

    # ---- the dispatcher: a refinement requested for one call must not stay on the propagator ---------------------------------------
    def setup_dispatch(S, with_nref):
        n, nt = S.int("N"), S.int("Nt")
        H = S.array("Hdata", (n, n), "cx")
        ta = S.obj("TimeAxis(stub)", label="TimeAxis", length=nt, data=S.array("tdata", (nt,), "real"), step=S.real("tstep"))
        ham = S.obj("Hamiltonian(stub)", label="Hamiltonian", has_rwa=False, data=H)
        rhoi = S.obj("quantarhei/qm/hilbertspace/operators.py::ReducedDensityMatrix", label="rhoi",
                     _data=S.array("rho0", (n, n), "cx"), _current_basis=0, is_basis_protected=False, dim=n, name="")
        nref0 = S.int("Nref0")
        odt = S.real("Odt")
        me = S.obj(P[:-1], label="self", TimeAxis=ta, Nt=nt, Nref=nref0, Odt=odt, dt=S.real("dt0"), Hamiltonian=ham,
                   has_NonHerm=False, has_PDeph=False, has_Iterm=False, has_relaxation=False, has_Efield=False,
                   has_EField=False, has_Trdip=False)
        S.ex.assume(z3.And(nref0 >= 1, me.fields["dt"] == odt / z3.ToReal(nref0), odt > 0))
        d = dict(self=me, rhoi=rhoi, method="short-exp", mdata=None, N=n, Nt=nt)
        d["Nref"] = S.int("Nref_arg") if with_nref else 1
        return d

    def result_prop(S, env):
        return S.obj("ReducedDensityMatrixEvolution(stub)", data=S.fresh_array((env["self"].fields["Nt"], env["N"], env["N"]), "cx"))
    # call-site summary of the propagation loop used by the dispatcher: it returns a new evolution and (by the frame
    # contracts above) changes nothing reachable from the propagator or the initial state
    reg.add(Contract(P + "__propagate_short_exp#call-site", setup=None, requires=[], ensures=[],
                     result=lambda S, env: S.obj("ReducedDensityMatrixEvolution(stub)", data=S.fresh_array((1,), "cx"))))
    for q in list(base):
        if "#" not in q:
            reg.contracts[q].dispatch = (lambda env: "#call-site" if (reg.under_proof or "").endswith(".propagate") else "")
    reg.add(Contract(P + "__propagate_short_exp_with_relaxation#call-site", setup=None, requires=[], ensures=[],
                     result=lambda S, env: S.obj("ReducedDensityMatrixEvolution(stub)", data=S.fresh_array((1,), "cx"))))
    for with_nref in (False, True):
        reg.add(Contract(P + "propagate#closed-system" + ("-with-refinement" if with_nref else ""),
                         setup=(lambda S, w=with_nref: setup_dispatch(S, w)),
                         requires=["N >= 0", "Nt >= 1"] + (["Nref >= 1"] if with_nref else []),
                         ensures=[("configuration-restored", "self.Nref == old(self.Nref) and self.dt == old(self.dt)")],
                         frame=dict(roots=["self", "rhoi"], allow=SCRATCH)))

    # ---- pure-dephasing pre-calculation: scratch factors are rebuilt from the description, which is left untouched ------------------------
    def setup_boot(S, kind):
        n = S.int("N")
        D = S.array("Ddeph", (n, n), "real")
        pd = S.obj("PureDephasing(stub)", label="PDeph", dtype=kind, data=D)
        me = S.obj(P[:-1], label="self", PDeph=pd, dt=S.real("dt"), expo=S.array("stale_expo", (n, n), "real"), t0=S.real("stale_t0"))
        return dict(self=me, N=n, Ddeph=D)
    N2 = "(range(0, N), range(0, N))"
    reg.models.table["exp"] = reg.models.table["numpy.exp"]
    reg.add(Contract(P + "_BOOT_DEPH#lorentzian", setup=lambda S: setup_boot(S, "Lorentzian"), requires=["N >= 0"],
                     ensures=[("factor-rebuilt-from-the-description", "forall((a, b), %s, self.expo[a,b] == exp(-Ddeph[a,b]*self.dt))" % N2),
                              ("no-time-dependent-part", "self.t0 == 0")],
                     frame=dict(roots=["self"], allow=SCRATCH)))
    reg.add(Contract(P + "_BOOT_DEPH#gaussian", setup=lambda S: setup_boot(S, "Gaussian"), requires=["N >= 0"],
                     ensures=[("factor-rebuilt-from-the-description",
                               "forall((a, b), %s, self.expo[a,b] == exp(-Ddeph[a,b]*(self.dt*self.dt)/2.0))" % N2),
                              ("time-dependent-part-rebuilt", "forall((a, b), %s, self.t0[a,b] == Ddeph[a,b]*self.dt)" % N2),
                              ("scratch-does-not-alias-the-description", "self.t0 is not self.PDeph.data and self.expo is not self.PDeph.data")],
                     frame=dict(roots=["self"], allow=SCRATCH)))

    # ---- the rotating-wave Hamiltonian is computed from the current data on every call: no state is kept on the Hamiltonian -----------
    HM = "quantarhei/qm/hilbertspace/hamiltonian.py::"
    from props.C13 import internal_units_manager
    from props.common import transparent_units_contexts
    transparent_units_contexts(reg.models)

    def setup_rwa(S):
        internal_units_manager(S)
        mgr = S.ex.globals_heap["Manager"]
        mgr.fields.update(basis_stack=[0], basis_transformations=[1], basis_registered={}, warn_about_basis_change=False,
                          warn_about_basis_changing_objects=False, _in_eigenbasis_of_context=False, current_basis_operator=None)
        n = S.int("N")
        H = S.array("Hdata", (n, n), "real")
        me = S.obj(HM + "Hamiltonian", label="self", _data=H, _current_basis=0, is_basis_protected=False, dim=n, name="",
                   has_rwa=True, rwa_energies=S.array("rwa_en", (n,), "real"), rwa_indices=S.array("rwa_ind", (n,), "int"))
        return dict(self=me, N=n, Hdata=H)
    reg.add(Contract(HM + "Hamiltonian.get_RWA_data", setup=setup_rwa, requires=["N >= 0"],
                     ensures=[("current-data-minus-the-reference-energies",
                               "forall((a, b), %s, result[a,b] == Hdata[a,b] - ite(a == b, self.rwa_energies[a], 0))" % N2),
                              ("a-new-array", "result is not self._data")],
                     frame=dict(roots=["self"], allow=[])))

    # ---- hierarchy propagator: the result must not depend on what an earlier run left in the hierarchy memory ---------------------
    from props.common import plain_basis_properties
    plain_basis_properties(reg.models)

    def mentions(ex, a, k, l):
        """does the array (any cell) syntactically depend on the symbols whose names start with the given prefix"""
        arr, prefix = a[0], a[1]
        terms = [t for t in arr.terms() if t is not None]
        seen = set()
        stack = list(terms)
        while stack:
            t = stack.pop()
            if t.get_id() in seen:
                continue
            seen.add(t.get_id())
            if z3.is_quantifier(t):
                stack.append(t.body())
                continue
            if z3.is_app(t):
                if t.num_args() == 0 and t.decl().name().startswith(prefix):
                    return True
                stack.extend(t.children())
        return False
    reg.models.table["mentions"] = Builtin("spec:mentions", mentions)

    def setup_heom(S):
        n, nt = 2, 3
        hs, nb = 2, 1          # one bath, depth 1: multi-indices (0), (1)
        ints = lambda rows: V.lam_array((len(rows), len(rows[0])), "int",        # noqa: E731
                                        lambda idx: _table(rows, idx))
        H = S.array("Hdata", (n, n), "cx")
        ham = S.obj("Hamiltonian(stub)", label="ham", has_rwa=True, data=H, dim=n)
        hy = S.obj(HE + "KTHierarchy", label="hy", ham=ham, dim=n, hsize=hs, nbath=nb, depth=1,
                   ado=S.array("leftover_ado", (hs, n, n), "cx"), hinds=ints([[0], [1]]), nm1=ints([[-1], [0]]),
                   np1=ints([[1], [-1]]), Vs=S.array("Vs", (nb, n, n), "real"), lam=S.array("lam", (nb,), "real"),
                   gamma=S.array("gam", (nb,), "real"), kBT=S.real("kBT"), Gamma=S.array("Gam", (hs,), "real"), hpop=None)
        ta = S.obj("TimeAxis(stub)", label="timeaxis", length=nt, data=S.array("tdata", (nt,), "real"), step=S.real("tstep"))
        rhoi = S.obj("ReducedDensityMatrix(stub)", label="rhoi", data=S.array("rho0", (n, n), "cx"), dim=n)
        me = S.obj(HE + "KTHierarchyPropagator", label="self", timeaxis=ta, Nt=nt, dt=S.real("dt"), hy=hy,
                   HOmega=S.array("HOmega", (n, n), "real"), Nref=1)
        return dict(self=me, rhoi=rhoi, L=1, report_hierarchy=False, free_hierarchy=False)
    reg.add(Contract(HE + "KTHierarchyPropagator.propagate", setup=setup_heom, requires=[],
                     ensures=[("starts-from-the-initial-state", "forall((a, b), (range(0, 2), range(0, 2)), result.data[0,a,b] == rhoi.data[a,b])"),
                              ("result-does-not-depend-on-left-over-hierarchy-memory", "not mentions(result.data, 'leftover_ado')")],
                     frame=dict(roots=["rhoi"], allow=[])))


def _table(rows, idx):
    r = None
    for a in range(len(rows)):
        for b in range(len(rows[0])):
            cond = z3.And(V.z3int(idx[0]) == a, V.z3int(idx[1]) == b)
            r = z3.IntVal(rows[a][b]) if r is None else z3.If(cond, z3.IntVal(rows[a][b]), r)
    return r


def plan(ctx):
    p = Plan("C15")
    contracts(ctx.registry)
    p.functions = [P + "__propagate_short_exp#frame", P + "__propagate_short_exp_with_relaxation#frame",
                   P + "__propagate_short_exp_with_relaxation#lorentzian-dephasing-frame",
                   P + "propagate#closed-system", P + "propagate#closed-system-with-refinement",
                   P + "_BOOT_DEPH#lorentzian", P + "_BOOT_DEPH#gaussian",
                   "quantarhei/qm/hilbertspace/hamiltonian.py::Hamiltonian.get_RWA_data"]
    p.bounded = [bounded_contract(HE + "KTHierarchyPropagator.propagate", [{}],
                                  note="2-level system, one bath, depth 1, three time points, first-order step: all values "
                                       "symbolic; the result's terms must not mention the left-over hierarchy memory")]
    p.level = "other"
    p.oracles = ["native/oracle_C15.py"]
    p.extra_axioms = [V.ufun("exp", 0) == 1]
    p.not_decided = ["relaxation-tensor construction leaves Hamiltonian and system-bath interaction unchanged",
                     "state-vector, population and field-driven propagators; evolution superoperator beyond the contracts of C08",
                     "hierarchy propagator beyond the bounded instance (larger hierarchies, free_hierarchy mode, get_kernel)"]
    return p
