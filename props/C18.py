"""C18 - saved objects and exported data load back to the same physical values.

Decided part: the data export / import of DataSaveable.  The file formats themselves are external code; they are
modelled by assumed contracts of numpy.save/load, savez_compressed, savetxt/loadtxt and scipy.io.savemat/loadmat
(what goes in comes out, with each format's documented shape / type conventions).  Under those assumptions the real
code of save_data and load_data is executed in sequence (self-composition) for every format, real and complex data,
one- and two-dimensional data, with and without an accompanying axis, for all sizes and values."""
import z3

from qvc.main import Plan
from qvc.spec import Contract, clause_lemma
from qvc.values import Builtin, Obj, SymArr, Cx, ModRef, Unsupported, lam_array
from qvc.symex import RaiseSignal
from qvc import values as V
from qvc import replay

DS = "quantarhei/core/datasaveable.py::"

META = dict(
    category="other",   # proofs over assumed file-format contracts; one open known finding (not every obligation holds)
    text=("DataSaveable.save_data followed by DataSaveable.load_data (the real code of both, executed in sequence) returns "
          "the same values with the same shape, and the same axis values, for the formats .dat/.txt, .npy, .npz and .mat, "
          "real and complex data, one- and two-dimensional data, with and without an axis, for every size and value; the "
          "table that packs axis and data keeps the data's element type (complex data keep their imaginary part); "
          "unknown extensions are refused."),
    note=("assumed contracts of the file formats: numpy.save/load and savez_compressed/load return the saved array(s); "
          "savetxt/loadtxt return the values, loadtxt without dtype raises ValueError on complex text; "
          "scipy.io.savemat/loadmat return every array at least two-dimensional (a one-dimensional array comes back as one "
          "row), scalars as 1x1. Which numpy attributes exist is read from the installed numpy on every run. "
          "Saveable.save/load (dill parcels) of whole objects is not under contract: see the open finding on objects saved "
          "inside a basis context."),
    technique="relational VCs by symbolic execution of the real export and import code over assumed contracts of the file "
              "formats (self-composition), z3",
)

EXISTS_PROBE = ["save", "load", "savez_compressed", "save_compressed", "savetxt", "loadtxt"]


def numpy_has(ctx):
    """which of the probed attribute names the installed numpy has (native query, every run)"""
    import tempfile, os
    with tempfile.NamedTemporaryFile("w", suffix=".py", delete=False) as f:
        f.write("import numpy, json\nprint(json.dumps({n: hasattr(numpy, n) for n in %r}))\n" % EXISTS_PROBE)
        path = f.name
    try:
        rc, out, err = replay.run_native(path)
        import json
        return json.loads(out.strip().splitlines()[-1])
    finally:
        os.unlink(path)


def install_io_models(reg, has):
    T = reg.models.table

    def fs(ex):
        return ex.globals_heap.setdefault("__fs__", {})

    def snap(a):
        return a.snapshot() if isinstance(a, SymArr) else a

    def missing(name):
        def raiser(ex, a, k, l):
            raise RaiseSignal("AttributeError", detail="module 'numpy' has no attribute '%s'" % name, line=l)
        return Builtin("numpy.%s (absent from the installed numpy)" % name, raiser)

    def np_save(ex, a, k, l):
        fs(ex)[a[0]] = ("npy", snap(a[1]))

    def np_savez(ex, a, k, l):
        fs(ex)[a[0]] = ("npz", {kk: snap(v) for kk, v in k.items()})

    def np_load(ex, a, k, l):
        kind, val = fs(ex)[a[0]]
        return dict(val) if kind == "npz" else val

    def np_savetxt(ex, a, k, l):
        arr = a[1]
        if isinstance(arr, SymArr) and arr.rank > 2:
            raise RaiseSignal("ValueError", line=l)
        fs(ex)[a[0]] = ("txt", snap(arr))

    def np_loadtxt(ex, a, k, l):
        kind, val = fs(ex)[a[0]]
        if val.dtype == "cx" and "dtype" not in k:
            raise RaiseSignal("ValueError", line=l)       # complex text cannot be parsed as float
        return val

    def savemat(ex, a, k, l):
        fs(ex)[a[0]] = ("mat", {kk: snap(v) for kk, v in a[1].items()})

    def loadmat(ex, a, k, l):
        kind, val = fs(ex)[a[0]]
        out = {}
        for kk, v in val.items():
            if isinstance(v, SymArr):
                if v.rank == 1:             # MATLAB has no one-dimensional arrays: a row
                    s_ = v
                    out[kk] = lam_array((1, v.shape[0]), v.dtype, lambda idx, s_=s_: s_.get([idx[1]]))
                else:
                    out[kk] = v
            else:                           # scalars come back as 1x1 arrays
                out[kk] = lam_array((1, 1), "int" if V.sort_of(v) == "int" else "real", lambda idx, v=v: v)
        return out
    names = {"save": np_save, "load": np_load, "savez_compressed": np_savez, "savetxt": np_savetxt, "loadtxt": np_loadtxt}
    for n in EXISTS_PROBE:
        if has.get(n) and n in names:
            T["numpy." + n] = Builtin("numpy." + n + " (assumed contract of the file format)", names[n])
        elif not has.get(n):
            T["numpy." + n] = missing(n)
    T["scipy.io.savemat"] = Builtin("scipy.io.savemat (assumed contract)", savemat)
    T["scipy.io.loadmat"] = Builtin("scipy.io.loadmat (assumed contract)", loadmat)
    import os
    T["os.path.splitext"] = Builtin("os.path.splitext", lambda ex, a, k, l: tuple(os.path.splitext(a[0])))


def install_parcel_models(reg):
    """assumed contract of dill: load(dump(x)) is a structural deep copy of x (no __copy__/__deepcopy__ hooks run);
    open(name, mode) yields a handle identified by the file name"""
    from qvc.spec import snapshot_value
    T = reg.models.table

    def fs(ex):
        return ex.globals_heap.setdefault("__fs__", {})

    def _open(ex, a, k, l):
        h = Obj("file(handle)", {"name": a[0], "mode": a[1] if len(a) > 1 else "r"})
        h.fields["__enter__"] = Builtin("file.__enter__", lambda ex_, a_, k_, l_: h)
        h.fields["__exit__"] = Builtin("file.__exit__", lambda ex_, a_, k_, l_: None)
        return h

    def dump(ex, a, k, l):
        f = a[1]
        fs(ex)[f.fields["name"]] = ("dill", snapshot_value(a[0], {}))

    def load(ex, a, k, l):
        kind, val = fs(ex)[a[0].fields["name"]]
        return snapshot_value(val, {})
    T["open"] = Builtin("open (assumed: a handle identified by the file name)", _open)
    T["dill.dump"] = Builtin("dill.dump (assumed: stores a structural deep copy)", dump)
    T["dill.load"] = Builtin("dill.load (assumed: returns a structural deep copy of what was stored)", load)


def lemma_parcel_in_context(ctx):
    """an operator saved inside a basis context and loaded after the context was left must present the same data"""
    import props.C04 as C04
    C04.contracts(ctx.registry)
    for q_ in list(ctx.registry.contracts):
        if q_.startswith(C04.MGR) or q_.startswith(C04.TYP) or q_.startswith(C04.OPS):
            ctx.registry.contracts[q_].inline = True            # the composed run executes the real code

    def setup(S):
        n = S.int("n")
        S.ex.assume(n >= 1)
        mgr, Z = C04.mk_manager(S, 1, n)
        mgr.fields["version"] = "0.0"
        op = C04.mk_operator(S, n, 1, label="op", register=mgr)
        cm = S.obj(C04.MGR + "eigenbasis_of", label="cm", manager=mgr, op=C04.mk_operator(S, n, 1, label="ctxop", register=mgr))
        repo = S.ex.repo
        raised = None
        loaded_data = S.array("nothing_loaded", (n, n), "cx")
        try:
            S.ex.call_function(repo.function("quantarhei/core/saveable.py::Saveable.save"), ["file.qrp"], {}, bound=op)
            S.ex.call_function(repo.function(C04.MGR + "eigenbasis_of.__exit__"), [None, None, None], {}, bound=cm)
            loaded = S.ex.call_function(repo.function("quantarhei/core/parcel.py::load_parcel"), ["file.qrp"], {})
            loaded_data = S.ex.getattr(loaded, "data")
        except RaiseSignal as r:
            raised = "%s: %s" % (r.exc_type, getattr(r, "detail", None))
        return dict(op=op, n=n, raised=raised, loaded_data=loaded_data, original=S.ex.getattr(op, "data") if raised is None else loaded_data)
    return clause_lemma(ctx, "operator-saved-inside-a-basis-context-loaded-outside", setup, ["n >= 1"],
                        [("readable-after-loading", "raised is None"),
                         ("same-data", "forall((i, j), (range(0, n), range(0, n)), loaded_data[i,j] == original[i,j])")],
                        where="props/C18.py: Saveable.save inside eigenbasis_of, __exit__, load_parcel, read .data (real code)")


def lemma_spectrum_axis_units(ctx):
    """an absorption spectrum exported and imported inside the same (non-internal) units context comes back with the
    same frequency axis in internal units"""
    ABS = "quantarhei/spectroscopy/absbase.py::"
    FQ = "quantarhei/core/frequency.py::"
    MGR = "quantarhei/core/managers.py::"
    obs = []
    for units in ("int", "1/cm", "eV"):
        def setup(S, units=units):
            cur = {"energy": units, "frequency": "1/fs", "dipolemoment": "Debye", "temperature": "Kelvin", "time": "fs", "length": "A"}
            m = S.obj(MGR + "Manager", label="mgr", current_units=cur, _saved_units={}, _in_eu_count=0, _in_energy_units_context=False,
                      _enforce_contexts=True, basis_stack=[0], basis_transformations=[1], basis_registered={},
                      _in_eigenbasis_of_context=False, current_basis_operator=None, warn_about_basis_change=False,
                      warn_about_basis_changing_objects=False)
            S.singleton("Manager", m)
            n = S.int("N")
            S.ex.assume(n >= 2)

            def axis(label, name):
                return S.obj(FQ + "FrequencyAxis", label=label, _data=S.array(name, (n,), "real"), _start=S.real(name + "_start"),
                             _step=S.real(name + "_step"), _length=n, atype="complete", time_start=0)
            ax1, ax2 = axis("ax1", "omega_internal"), axis("ax2", "other_axis")
            src = S.obj(ABS + "AbsSpectrumBase", label="src", axis=ax1, data=S.array("spectrum", (n,), "real"))
            dst = S.obj(ABS + "AbsSpectrumBase", label="dst", axis=ax2, data=None)
            repo = S.ex.repo
            raised = None
            try:
                S.ex.call_function(repo.function(ABS + "AbsSpectrumBase.save_data"), ["spect.dat"], {}, bound=src)
                S.ex.call_function(repo.function(ABS + "AbsSpectrumBase.load_data"), ["spect.dat"], {}, bound=dst)
            except RaiseSignal as r:
                raised = r.exc_type
                dst.fields["data"] = S.array("nothing_loaded", (n,), "real")
            return dict(src=src, dst=dst, ax1=ax1, ax2=ax2, N=n, raised=raised, spectrum=src.fields["data"])
        obs += clause_lemma(ctx, "spectrum-export-import-in-%s" % units.replace("/", "-per-"), setup, ["N >= 2"],
                            [("no-exception", "raised is None"),
                             ("same-intensities", "forall(i, range(0, N), dst.data[i] == spectrum[i])"),
                             ("same-axis-in-internal-units", "forall(i, range(0, N), ax2._data[i] == ax1._data[i])")],
                            where="props/C18.py: AbsSpectrumBase.save_data then load_data in one units context (real code)")
    return obs


def holder(S, n, m, cplx, dim, label, prefix):
    shape = (n,) if dim == 1 else (n, m)
    data = S.array(prefix + "data", shape, "cx" if cplx else "real")
    return S.obj(DS + "DataSaveable", label=label, data=data)


def lemma_roundtrips(ctx):
    obs = []
    for ext in (".dat", ".txt", ".npy", ".npz", ".mat"):
        for cplx in (False, True):
            for dim in (1, 2):
                for with_axis in (False, True):
                    def setup(S, ext=ext, cplx=cplx, dim=dim, with_axis=with_axis):
                        n, m = S.int("N"), S.int("M")
                        S.ex.assume(z3.And(n >= 2, m >= 2))
                        src = holder(S, n, m, cplx, dim, "src", "s_")
                        dst = S.obj(DS + "DataSaveable", label="dst", data=None)
                        ax1 = S.obj("ValueAxis(stub)", label="ax1", data=S.array("axis_data", (n,), "real"), length=n) if with_axis else None
                        ax2 = S.obj("ValueAxis(stub)", label="ax2", data=S.array("other_axis", (n,), "real"), length=n) if with_axis else None
                        repo = S.ex.repo
                        raised = None
                        try:
                            S.ex.call_function(repo.function(DS + "DataSaveable.save_data"), ["file" + ext], {"with_axis": ax1}, bound=src)
                            S.ex.call_function(repo.function(DS + "DataSaveable.load_data"), ["file" + ext], {"with_axis": ax2}, bound=dst)
                        except RaiseSignal as r:
                            raised = r.exc_type
                            dst.fields["data"] = S.array("nothing_loaded", (n,) if dim == 1 else (n, m), "cx" if cplx else "real")
                        return dict(src=src, dst=dst, ax1=ax1, ax2=ax2, N=n, M=m, orig=src.fields["data"], raised=raised)
                    rng = "range(0, N)" if dim == 1 else "(range(0, N), range(0, M))"
                    idx = "i" if dim == 1 else "(i, j)"
                    cell = "[i]" if dim == 1 else "[i,j]"
                    goals = [("no-exception", "raised is None"), ("same-shape", "len(dst.data.shape) == %d and dst.data.shape[0] == N" % dim
                              + (" and dst.data.shape[1] == M" if dim == 2 else "")),
                             ("same-values", "implies(len(dst.data.shape) == %d, forall(%s, %s, dst.data%s == orig%s))"
                              % (dim, idx, rng, cell, cell))]
                    if with_axis:
                        goals.append(("same-axis-values", "forall(i, range(0, N), ax2.data[i] == ax1.data[i])"))
                    name = "export-import-%s-%s-%dD-%s" % (ext[1:], "complex" if cplx else "real", dim,
                                                          "with-axis" if with_axis else "without-axis")
                    obs += clause_lemma(ctx, name, setup, ["N >= 2", "M >= 2"], goals,
                                        where="props/C18.py: DataSaveable.save_data then load_data (real code) over the assumed file contracts")
    return obs


def contracts(reg):
    def setup_bad(S, which):
        n = S.int("N")
        me = S.obj(DS + "DataSaveable", label="self", data=S.array("d", (n,), "real"))
        return dict(self=me, name="file.xyz", with_axis=None)
    for f in ("save_data", "load_data"):
        reg.add(Contract(DS + "DataSaveable." + f + "#unknown-extension", setup=lambda S, f=f: setup_bad(S, f),
                         raises={"Exception": dict(when="True")}, frame=dict(roots=["self"], allow=[])))


def plan(ctx):
    p = Plan("C18")
    has = numpy_has(ctx)
    install_io_models(ctx.registry, has)
    contracts(ctx.registry)
    p.functions = [DS + "DataSaveable.save_data#unknown-extension", DS + "DataSaveable.load_data#unknown-extension"]
    install_parcel_models(ctx.registry)
    p.lemmas = [lemma_roundtrips, lemma_spectrum_axis_units, lemma_parcel_in_context]
    p.oracles = ["native/oracle_C18.py"]
    p.trusted = ["numpy.save / load, numpy.savez_compressed / load, numpy.savetxt / loadtxt, scipy.io.savemat / loadmat behave as "
                 "their modelled contracts (props/C18.py: install_io_models)",
                 "attributes of the installed numpy: %s" % ", ".join("%s=%s" % kv for kv in sorted(has.items()))]
    p.not_decided = ["Saveable.save / load / savedir / loaddir of whole objects (dill): observable data of every saveable class, "
                     "units and basis contexts around save and load", "floating-point text round trip of savetxt (assumed exact)"]
    return p
