"""C19 - two-dimensional response storage conserves what was added.

The storage is a dictionary (of dictionaries at pathway resolution) of complex arrays.  The contracts are proved on the
real code for arrays of every size and every value and for every combination of present / absent storage keys (keys
the code does not touch keep a symbolic presence, `OptDict`); at pathway resolution a type holds at most two pathways.
The specification of what a *view* (total, signal, process, type) means is written here independently of the code:
`view(obj, name)` is the sum of the stored arrays that belong to `name`."""
import z3

from qvc.main import Plan
from qvc.spec import Contract, clause_lemma
from qvc.values import Builtin, Obj, SymArr, Cx, OptDict, fresh, lam_array, arith, ite
from qvc import values as V
from qvc import lemmalib

T2 = "quantarhei/spectroscopy/twod2.py::"
B = T2 + "TwoDSpectrumBase."
PROP = T2 + "twodspectrum_dictionary.<locals>.prop"

META = dict(
    category="proof",
    text=("TwoDSpectrumBase._add_data, the getter and setter closures of the storage property (twodspectrum_dictionary), "
          "the aggregation helpers (_pathways_to_*, _types_to_*, _signals_to_total, _processes_to_total), "
          "_convert_res_elementary, _convert_resolution, set_resolution and _resolution2number are proved against "
          "contracts on the real code: an admissible addition changes exactly the addressed storage item by + data and "
          "nothing else; every read returns the sum of the stored items belonging to the requested view; every admissible "
          "resolution reduction preserves every view the new resolution can express; every inadmissible addition or "
          "resolution change raises and leaves the stored data identical.  From the frame postcondition, additivity of "
          "every view is proved for all presence patterns (z3), and a Lean lemma (induction on the history) gives: after any "
          "sequence of such operations the view equals the sum of the additions belonging to it."),
    note=("arrays of every shape and value, all combinations of present/absent keys; at pathway resolution at most two "
          "pathways (tags) per type are represented in the heap; tags and data-type strings are concrete members of the "
          "code's own tables; twodcontainer.py and twod.py (containers of many responses) are not under contract."),
    technique="VCs from the real AST over a heap with optionally-present dictionary keys, z3; ledger induction in Lean 4",
)

PTYPES = ["R1g", "R2g", "R3g", "R4g", "R1fs", "R2fs", "R3fs", "R4fs"]
PROCESSES = {"GSB": ["R1g", "R2g"], "SE": ["R3g", "R4g"], "ESA": ["R1fs", "R2fs"], "DC": ["R3fs", "R4fs"]}
REPH, NONR, DC_, TOTL = "rephasing_2D_signal", "nonrephasing_2D_signal", "double_coherence_signal", "total_2D_signal"
SIGNALS = {REPH: ["R2g", "R3g", "R1fs"], NONR: ["R1g", "R4g", "R2fs"], DC_: ["R3fs", "R4fs"]}
RES = ["off", "signals", "processes", "types", "pathways"]
KEYS = {"pathways": PTYPES, "types": PTYPES, "processes": list(PROCESSES), "signals": list(SIGNALS), "off": [TOTL]}
TAGS = ["t1", "t2"]


def members(view, res):
    """storage keys (at resolution res) whose content belongs to the view; None if the view is not expressible"""
    if view == TOTL:
        return list(KEYS[res])
    if res in ("pathways", "types"):
        if view in PTYPES:
            return [view]
        if view in PROCESSES:
            return PROCESSES[view]
        if view in SIGNALS:
            return SIGNALS[view]
    if res == "processes" and view in PROCESSES:
        return [view]
    if res == "signals" and view in SIGNALS:
        return [view]
    return None


def _presence(d, k):
    """presence (python bool or z3 Bool) of key k in the (Opt)dict d"""
    if k not in d:
        return False
    return getattr(d, "maybe", {}).get(k, True)


def _and(p, q):
    if p is False or q is False:
        return False
    if p is True:
        return q
    if q is True:
        return p
    return z3.And(p, q)


def _sum_cells(terms, idx):
    """sum of ite(presence, array[idx], 0) over (presence, array) terms"""
    tot = Cx(z3.RealVal(0), z3.RealVal(0))
    for p, a in terms:
        c = Cx.of(a.get(list(idx)))
        if p is True:
            tot = arith("+", tot, c)
        elif p is False:
            continue
        else:
            tot = arith("+", tot, Cx(z3.If(p, V.z3real(c.re), z3.RealVal(0)), z3.If(p, V.z3real(c.im), z3.RealVal(0))))
    return tot


def stored_terms(obj, view, res=None):
    """(presence, array) of every stored item that belongs to `view` at the object's storage resolution"""
    res = res or obj.fields["storage_resolution"]
    st = obj.fields.get("_d__data")
    keys = members(view, res)
    if keys is None:
        raise V.Unsupported("view %s not expressible at resolution %s" % (view, res))
    out = []
    if st is None:
        return out
    for k in keys:
        pk = _presence(st, k)
        if pk is False:
            continue
        item = st[k]
        if res == "pathways":
            for tag in item:
                pt = _presence(item, tag)
                if pt is False:
                    continue
                both = pt if pk is True else pk if pt is True else z3.And(pk, pt)
                out.append((both, item[tag]))
        else:
            out.append((pk, item))
    return out


def spec_view(ex, a, k, l):
    obj, view = a[0], a[1]
    nx, ny = obj.fields["xaxis"].fields["length"], obj.fields["yaxis"].fields["length"]
    terms = stored_terms(obj, view)
    return lam_array((nx, ny), "cx", lambda idx: _sum_cells(terms, idx), name="view")


def spec_view_at(ex, a, k, l):
    """view_at(obj, resolution, name): the view of a storage that is laid out at the given resolution (used where the
    object's resolution field is updated by the caller of the function under contract)"""
    obj, res, view = a[0], a[1], a[2]
    nx, ny = obj.fields["xaxis"].fields["length"], obj.fields["yaxis"].fields["length"]
    terms = stored_terms(obj, view, res)
    return lam_array((nx, ny), "cx", lambda idx: _sum_cells(terms, idx), name="view")


def spec_present(ex, a, k, l):
    """presence of an item: present(obj, key) or present(obj, key, tag)"""
    st = a[0].fields.get("_d__data")
    if st is None:
        return False
    p = _presence(st, a[1])
    if len(a) == 2 or p is False:
        return p
    q = _presence(st[a[1]], a[2])
    if q is False or p is True:
        return q
    return p if q is True else z3.And(p, q)


def spec_item0(ex, a, k, l):
    """the stored item item0(obj, key) / item0(obj, key, tag) as an array, zero where it is absent"""
    obj = a[0]
    nx, ny = obj.fields["xaxis"].fields["length"], obj.fields["yaxis"].fields["length"]
    st = obj.fields.get("_d__data")
    terms = []
    if st is not None and _presence(st, a[1]) is not False:
        pk = _presence(st, a[1])
        it = st[a[1]]
        if len(a) > 2:
            pt = _presence(it, a[2])
            if pt is not False:
                both = pt if pk is True else pk if pt is True else z3.And(pk, pt)
                terms.append((both, it[a[2]]))
        else:
            terms.append((pk, it))
    return lam_array((nx, ny), "cx", lambda idx: _sum_cells(terms, idx), name="item0")


def _same_arr(x, y):
    """cell-wise equality of two arrays of the same shape (a quantified formula)"""
    if x is y or (x.base is None and y.base is None and x.re is not None and y.re is not None and x.re.eq(y.re)
                  and ((x.im is None and y.im is None) or (x.im is not None and y.im is not None and x.im.eq(y.im)))):
        return True
    xs = [fresh("c", z3.IntSort()) for _ in x.shape]
    a, b = Cx.of(x.get(xs)), Cx.of(y.get(xs))
    rng = z3.And(*[z3.And(0 <= v, v < V.z3int(n)) for v, n in zip(xs, x.shape)])
    return z3.ForAll(xs, z3.Implies(rng, z3.And(V.z3real(a.re) == V.z3real(b.re), V.z3real(a.im) == V.z3real(b.im))))


def _same_store(s1, s2, skip=()):
    """same presence and same contents of every item except the addressed one (skip = (key,) or (key, tag))"""
    out = []
    if (s1 is None) != (s2 is None):
        return False
    if s1 is None:
        return True
    for k in set(list(s1.keys()) + list(s2.keys())):
        if skip and k == skip[0] and len(skip) == 1:
            continue
        p1, p2 = _presence(s1, k), _presence(s2, k)
        if p1 is False and p2 is False:
            continue
        if skip and k == skip[0] and len(skip) == 2:
            # the piece holding the addressed pathway may have been created: compare the other pathways only,
            # with presence of a pathway = presence of its piece and of its tag
            d1 = s1[k] if p1 is not False else {}
            d2 = s2[k] if p2 is not False else {}
            for t in set(list(d1.keys()) + list(d2.keys())):
                if t == skip[1]:
                    continue
                q1 = _and(p1, _presence(d1, t))
                q2 = _and(p2, _presence(d2, t))
                if q1 is False and q2 is False:
                    continue
                if q1 is False or q2 is False:
                    other = q2 if q1 is False else q1
                    out.append(False if other is True else z3.Not(other))
                    continue
                if not (q1 is True and q2 is True):
                    out.append(V.z3bool(q1) == V.z3bool(q2))
                inner = _same_arr(d1[t], d2[t])
                if inner is not True:
                    out.append(inner if q1 is True else z3.Implies(q1, inner))
            continue
        if p1 is False or p2 is False:
            out.append(z3.Not(p1 if p2 is False else p2) if not isinstance(p1 if p2 is False else p2, bool) else False)
            continue
        if not (p1 is True and p2 is True):
            out.append(V.z3bool(p1) == V.z3bool(p2))
        guard = p1 if p1 is not True else True
        v1, v2 = s1[k], s2[k]
        if isinstance(v1, dict) or isinstance(v2, dict):
            if not (isinstance(v1, dict) and isinstance(v2, dict)):
                return False
            inner = _same_store(v1, v2, skip[1:] if (skip and k == skip[0]) else ())
        else:
            if skip and k == skip[0]:
                continue
            inner = _same_arr(v1, v2)
        if inner is False:
            inner = z3.BoolVal(False)
        if inner is True:
            continue
        out.append(inner if guard is True else z3.Implies(guard, inner))
    if any(o is False for o in out):
        return False
    return z3.And(*out) if out else True


def spec_same_store(ex, a, k, l):
    s1, s2 = a[0].fields.get("_d__data"), a[1].fields.get("_d__data")
    return _same_store(s1, s2, tuple(a[2:]))


def mk_response(S, res, initialized=True, nx=None, ny=None, prefix="st", label="self"):
    nx = S.int("nx") if nx is None else nx
    ny = S.int("ny") if ny is None else ny
    xa = S.obj("FrequencyAxis(stub)", label=None, length=nx)
    ya = S.obj("FrequencyAxis(stub)", label=None, length=ny)
    fields = dict(xaxis=xa, yaxis=ya, storage_resolution=res, storage_initialized=initialized, current_dtype=TOTL,
                  current_tag=None, address_length=1, _allow_data_writing=False)
    if initialized:
        st = OptDict()
        for k in KEYS[res]:
            if res == "pathways":
                piece = OptDict()
                for t in TAGS:
                    piece[t] = S.array("%s_%s_%s" % (prefix, k, t), (nx, ny), "cx")
                    piece.maybe[t] = S.bool("has_%s_%s_%s" % (prefix, k, t))
                st[k] = piece
                st.maybe[k] = S.bool("has_%s_%s" % (prefix, k))
                # a piece that exists holds at least one pathway (the code creates a piece only to store into it)
                S.ex.assume(z3.Implies(st.maybe[k], z3.Or(*[piece.maybe[t] for t in TAGS])))
            else:
                st[k] = S.array("%s_%s" % (prefix, k), (nx, ny), "cx")
                st.maybe[k] = S.bool("has_%s_%s" % (prefix, k))
        fields["_d__data"] = st
    me = S.obj(T2 + "TwoDResponse", label=label, **fields)
    return me, nx, ny


N2 = "(range(0, nx), range(0, ny))"


def eq2(a, b):
    return "forall((i, j), %s, %s[i,j] == %s[i,j])" % (N2, a, b)


def contracts(reg):
    T = reg.models.table
    T["view"] = Builtin("spec:view", spec_view)
    T["present"] = Builtin("spec:present", spec_present)
    T["same_store"] = Builtin("spec:same_store", spec_same_store)
    T["item0"] = Builtin("spec:item0", spec_item0)
    T["view_at"] = Builtin("spec:view_at", spec_view_at)

    # ---- _resolution2number ---------------------------------------------------------------------------------------------
    for k, r in enumerate(RES):
        reg.add(Contract(T2 + "_resolution2number#" + r, setup=lambda S, r=r: dict(res=r),
                         ensures=[("index-in-the-resolution-table", "result == %d" % k)]))
    reg.add(Contract(T2 + "_resolution2number#unknown", setup=lambda S: dict(res="nonsense"),
                     raises={"Exception": dict(when="True")}))

    # ---- aggregation helpers ------------------------------------------------------------------------------------------------
    def setup_helper(S, res, argname, view):
        me, nx, ny = mk_response(S, res)
        d = {"obj": me, "nx": nx, "ny": ny}
        if argname:
            d[argname] = view
        return d

    def result_arr(S, env):
        o = env["obj"]
        return S.fresh_array((o.fields["xaxis"].fields["length"], o.fields["yaxis"].fields["length"]), "cx", prefix="agg")

    def ghost_sizes(S, env):
        o = env.get("obj", env.get("self"))
        env.setdefault("nx", o.fields["xaxis"].fields["length"])
        env.setdefault("ny", o.fields["yaxis"].fields["length"])

    def helper(fname, res, argname, views):
        for v in ([views[0]] if argname else []) + list(views):
            base = argname and not any(c_.startswith(T2 + fname) for c_ in reg.contracts)
            reg.add(Contract(T2 + fname + ("#" + v if (argname and not base) else ""),
                             setup=(lambda S, r=res, a=argname, v=v: setup_helper(S, r, a, v)), ghost=ghost_sizes,
                             requires=["nx >= 0", "ny >= 0", "obj.storage_initialized", "obj.storage_resolution == '%s'" % res],
                             result=result_arr,
                             ensures=[("sum-of-the-stored-items-belonging-to-the-view",
                                       eq2("result", "view(obj, '%s')" % v))],
                             dispatch=((lambda env, a=argname: "#" + str(env[a])) if argname else None)))
    helper("_pathways_to_processes", "pathways", "process", list(PROCESSES))
    helper("_pathways_to_signals", "pathways", "signal", list(SIGNALS))
    helper("_pathways_to_total", "pathways", None, [TOTL])
    helper("_types_to_processes", "types", "process", list(PROCESSES))
    helper("_types_to_signals", "types", "signal", list(SIGNALS))
    helper("_types_to_total", "types", None, [TOTL])
    helper("_signals_to_total", "signals", None, [TOTL])
    helper("_processes_to_total", "processes", None, [TOTL])

    # ---- reads: every view is the sum of the stored items that belong to it -----------------------------------------------
    closure = {"storage_name": "_d__data", "name": "d__data", "dtype": None}

    def setup_get(S, res, view, tag=None):
        me, nx, ny = mk_response(S, res)
        me.fields["current_dtype"] = view
        me.fields["current_tag"] = tag
        return {"self": me, "__closure_parent__": closure, "nx": nx, "ny": ny}

    for res in RES:
        for view in PTYPES + list(PROCESSES) + list(SIGNALS) + [TOTL]:
            keys = members(view, res)
            q = PROP + "#%s-%s" % (res, view)
            if keys is None:
                reg.add(Contract(q, setup=(lambda S, r=res, v=view: setup_get(S, r, v)), requires=["nx >= 0", "ny >= 0"],
                                 raises={"Exception": dict(when="True")}))
                continue
            single = (len(keys) == 1 and res != "pathways" and view != TOTL) or (res == "off")
            if single:
                # the item itself, or None when nothing is stored under it
                reg.add(Contract(q, setup=(lambda S, r=res, v=view: setup_get(S, r, v)), requires=["nx >= 0", "ny >= 0"],
                                 ensures=[("stored-item-or-None",
                                           "(result is None and not present(self, '%s')) or "
                                           "(result is not None and present(self, '%s') and %s)"
                                           % (keys[0], keys[0], eq2("result", "view(self, '%s')" % view)))]))
            else:
                reg.add(Contract(q, setup=(lambda S, r=res, v=view: setup_get(S, r, v)), requires=["nx >= 0", "ny >= 0"],
                                 ensures=[("sum-of-the-stored-items-belonging-to-the-view",
                                           eq2("result", "view(self, '%s')" % view))]))

    # ---- additions --------------------------------------------------------------------------------------------------------
    for res in RES:
        for ares in [None] + RES:
            for dtype in add_dtypes(res, ares):
                for tag in add_tags(res):
                    reg.add(add_contract(res, ares, dtype, tag))
    for ares in [None] + RES:
        for dtype in (PTYPES[0], "SE", NONR, TOTL):
            for tag in (None, "t3"):
                reg.add(first_add_contract(ares, dtype, tag))

    # ---- resolution reductions ------------------------------------------------------------------------------------------------
    for o in range(5):
        for n_ in range(5):
            if o != n_:
                reg.add(elementary_contract(o, n_))
    reg.add(elementary_contract(4, 3, base=True))
    for o in range(5):
        for n_ in range(5):
            if o != n_:
                reg.add(convert_contract("_convert_resolution", o, n_))
            reg.add(convert_contract("set_resolution", o, n_))
    reg.add(convert_contract("_convert_resolution", 4, 3, base=True))
    reg.add(Contract(B + "set_resolution#unknown", setup=lambda S: setup_conv(S, "set_resolution", 3, "nonsense"),
                     requires=["nx >= 0", "ny >= 0"],
                     raises={"Exception": dict(when="True", ensures=["same_store(self, old(self))",
                                                                     "self.storage_resolution == 'types'"])}))


REDUCIBLE = {4: {3, 2, 1, 0}, 3: {2, 1, 0}, 2: {0}, 1: {0}, 0: set()}
ELEMENTARY = {(4, 3), (3, 2), (3, 1), (1, 0), (2, 0)}
VIEWS_AT = {4: PTYPES + list(PROCESSES) + list(SIGNALS) + [TOTL], 3: PTYPES + list(PROCESSES) + list(SIGNALS) + [TOTL],
            2: list(PROCESSES) + [TOTL], 1: list(SIGNALS) + [TOTL], 0: [TOTL]}


def conv_name(fname, o, n_):
    return B + "%s#%s-to-%s" % (fname, RES[o], RES[n_])


def setup_conv(S, fname, o, n_):
    me, nx, ny = mk_response(S, RES[o])
    if fname == "set_resolution":
        return dict(self=me, resolution=(RES[n_] if isinstance(n_, int) else n_), nx=nx, ny=ny)
    return dict(self=me, old=o, new=n_, nx=nx, ny=ny)


def ghost_self_sizes(S, env):
    o = env["self"]
    env.setdefault("nx", o.fields["xaxis"].fields["length"])
    env.setdefault("ny", o.fields["yaxis"].fields["length"])


def new_storage(S, env, n_):
    """call-site effect of a conversion: a new dictionary laid out at the new resolution with every key present"""
    me = env["self"]
    nx, ny = me.fields["xaxis"].fields["length"], me.fields["yaxis"].fields["length"]
    st = OptDict()
    for k in KEYS[RES[n_]]:
        st[k] = S.fresh_array((nx, ny), "cx", prefix="conv_" + k)
    me.fields["_d__data"] = st


def elementary_contract(o, n_, base=False):
    """one conversion step re-lays the storage; the object's resolution field is updated by the caller"""
    q = B + "_convert_res_elementary" + ("" if base else "#%d-%d" % (o, n_))
    setup = lambda S: setup_conv(S, "_convert_res_elementary", o, n_)       # noqa: E731
    disp = (lambda env: "#%s-%s" % (env["old"], env["new"])) if base else None
    if (o, n_) not in ELEMENTARY:
        return Contract(q, setup=setup, requires=["nx >= 0", "ny >= 0"], ghost=ghost_self_sizes, dispatch=disp,
                        raises={"Exception": dict(when="True", ensures=["same_store(self, old(self))"])})
    # the views of the finer level that the coarser level still distinguishes, item by item
    ens = [("item-%s-is-the-sum-of-what-belonged-to-it" % v,
            "present(self, '%s') and forall((i, j), %s, view_at(self, '%s', '%s')[i,j] == view_at(old(self), '%s', '%s')[i,j])"
            % (v, N2, RES[n_], v, RES[o], v)) for v in KEYS[RES[n_]]]
    return Contract(q, setup=setup, requires=["nx >= 0", "ny >= 0", "self.storage_initialized",
                                              "self.storage_resolution == '%s'" % RES[o]],
                    ghost=ghost_self_sizes, dispatch=disp,
                    result=(lambda S, env, n_=n_: new_storage(S, env, n_)), ensures=ens)


def convert_contract(fname, o, n_, base=False):
    """the specification of resolution changes: only reductions along pathways > types > {processes, signals} > off;
    a reduction preserves every view the new resolution can express; anything else is refused and changes nothing"""
    q = B + fname if base else conv_name(fname, o, n_)
    setup = lambda S: setup_conv(S, fname, o, n_)       # noqa: E731
    disp = (lambda env: "#%s-to-%s" % (RES[env["old"]], RES[env["new"]])) if base else None
    unchanged = ["same_store(self, old(self))", "self.storage_resolution == '%s'" % RES[o]]
    pre = ["nx >= 0", "ny >= 0", "self.storage_initialized", "self.storage_resolution == '%s'" % RES[o]]
    if fname == "set_resolution" and o == n_:
        return Contract(q, setup=setup, requires=pre, ghost=ghost_self_sizes, ensures=list(enumerate_named(unchanged)))
    if n_ not in REDUCIBLE[o]:
        return Contract(q, setup=setup, requires=pre, ghost=ghost_self_sizes, dispatch=disp,
                        raises={"Exception": dict(when="True", ensures=unchanged)})
    ens = [("resolution-reduced", "self.storage_resolution == '%s'" % RES[n_])]
    for v in VIEWS_AT[n_]:
        ens.append(("view-%s-preserved" % v, "forall((i, j), %s, view(self, '%s')[i,j] == view_at(old(self), '%s', '%s')[i,j])"
                    % (N2, v, RES[o], v)))
    def result(S, env, n_=n_):
        new_storage(S, env, n_)
        env["self"].fields["storage_resolution"] = RES[n_]
    return Contract(q, setup=setup, requires=pre, ghost=ghost_self_sizes, dispatch=disp, result=result, ensures=ens)


def enumerate_named(cls):
    for k, c in enumerate(cls):
        yield ("unchanged-%d" % k, c)


ALLD = PTYPES + list(PROCESSES) + list(SIGNALS) + [TOTL, "bogus"]


def add_dtypes(res, ares):
    if ares is None or ares == res:
        return ALLD
    return [PTYPES[1], "GSB", REPH, TOTL]


def add_tags(res):
    """None, a tag that may already exist, a new tag, and new tags that are false in a boolean context (0, '')"""
    return (None, "t1", "t3", 0, "") if res == "pathways" else (None, "t1")


def tagname(tag):
    return "untagged" if tag is None else "tag-%r" % (tag,)


def add_name(res, ares, dtype, tag):
    return B + "_add_data#%s-add-%s-%s-%s" % (res, ares or "default", dtype, tagname(tag))


def admissible(res, ares, dtype, tag):
    """the specification of an admissible addition: at the storage's own resolution, with a data type of that
    resolution, and with a tag exactly when individual pathways are stored"""
    return (ares is None or ares == res) and dtype in KEYS[res] and ((tag is not None) == (res == "pathways"))


def setup_add(S, res, ares, dtype, tag, initialized=True):
    me, nx, ny = mk_response(S, res, initialized=initialized)
    data = S.array("data", (nx, ny), "cx")
    return dict(self=me, data=data, resolution=ares, dtype=dtype, tag=tag, nx=nx, ny=ny)


def add_contract(res, ares, dtype, tag):
    q = add_name(res, ares, dtype, tag)
    setup = lambda S: setup_add(S, res, ares, dtype, tag)       # noqa: E731
    unchanged = ["same_store(self, old(self))", "self.storage_resolution == '%s'" % res]
    if not admissible(res, ares, dtype, tag):
        return Contract(q, setup=setup, requires=["nx >= 0", "ny >= 0"],
                        raises={"Exception": dict(when="True", ensures=unchanged)})
    addr = "'%s'" % dtype + (", %r" % (tag,) if tag is not None else "")
    stored = ("forall((i, j), %s, item0(self, %s)[i,j] == item0(old(self), %s)[i,j] + data[i,j])" % (N2, addr, addr))
    ens = [("addressed-item-is-present-afterwards", "present(self, %s)" % addr),
           ("addressed-item-grows-by-the-data", stored),
           ("every-other-item-unchanged", "same_store(self, old(self), %s)" % addr),
           ("resolution-unchanged", "self.storage_resolution == '%s'" % res)]
    if res == "pathways":
        # a tag can be used once: adding to an existing pathway is refused and nothing changes
        return Contract(q, setup=setup, requires=["nx >= 0", "ny >= 0"], ensures=ens,
                        raises={"Exception": dict(when="present(self, %s)" % addr, ensures=unchanged)})
    return Contract(q, setup=setup, requires=["nx >= 0", "ny >= 0"], ensures=ens)


def first_add_name(ares, dtype, tag):
    return B + "_add_data#first-add-%s-%s-%s" % (ares or "default", dtype, tagname(tag))


def first_add_contract(ares, dtype, tag):
    """the first addition to an object without storage fixes the resolution (the default is 'pathways')"""
    res = ares or "pathways"
    q = first_add_name(ares, dtype, tag)
    setup = lambda S: setup_add(S, "pathways", ares, dtype, tag, initialized=False)       # noqa: E731
    if not (dtype in KEYS[res] and ((tag is not None) == (res == "pathways"))):
        return Contract(q, setup=setup, requires=["nx >= 0", "ny >= 0"],
                        raises={"Exception": dict(when="True", ensures=[
                            "forall((i, j), %s, view(self, '%s')[i,j] == 0)" % (N2, TOTL)])})
    return Contract(q, setup=setup, requires=["nx >= 0", "ny >= 0"],
                    ensures=[("storage-holds-exactly-the-data",
                              "forall((i, j), %s, view(self, '%s')[i,j] == data[i,j])" % (N2, TOTL)),
                             ("resolution-fixed-by-the-first-addition", "self.storage_resolution == '%s'" % res),
                             ("stored-under-its-own-view",
                              "forall((i, j), %s, view(self, '%s')[i,j] == data[i,j])" % (N2, dtype))])


def lemma_additivity(ctx):
    """from the postcondition of an admissible addition (addressed item grows by the data, every other item and every
    presence unchanged) every view grows by the data if the addressed item belongs to it and is unchanged otherwise;
    for every combination of present / absent items (symbolic presence)"""
    obs = []
    for res in RES:
        for key in KEYS[res]:
            for tag in ((TAGS[0], "t3", 0, "") if res == "pathways" else (None,)):
                def setup(S, res=res, tag=tag):
                    before, nx, ny = mk_response(S, res, prefix="a", label="before")
                    after, _, _ = mk_response(S, res, nx=nx, ny=ny, prefix="b", label="after")
                    if tag not in TAGS and tag is not None:     # a pathway with a tag that was not present before
                        for o, pfx in ((after, "b"), ):
                            o.fields["_d__data"][key][tag] = S.array("%s_%s_new" % (pfx, key), (nx, ny), "cx")
                            o.fields["_d__data"][key].maybe[tag] = S.bool("has_%s_%s_new" % (pfx, key))
                    return dict(before=before, after=after, data=S.array("data", (nx, ny), "cx"), nx=nx, ny=ny)
                addr = "'%s'" % key + (", %r" % (tag,) if tag is not None else "")
                post = ["nx >= 0", "ny >= 0", "present(after, %s)" % addr,
                        "forall((i, j), %s, item0(after, %s)[i,j] == item0(before, %s)[i,j] + data[i,j])" % (N2, addr, addr),
                        "same_store(after, before, %s)" % addr]
                goals = []
                for v in VIEWS_AT[RES.index(res)]:
                    inc = " + data[i,j]" if key in members(v, res) else ""
                    goals.append(("view-%s" % v, "forall((i, j), %s, view(after, '%s')[i,j] == view(before, '%s')[i,j]%s)"
                                  % (N2, v, v, inc)))
                obs += clause_lemma(ctx, "additivity-%s-%s%s" % (res, key, "-" + tagname(tag) if tag is not None else ""), setup, post, goals,
                                    where="props/C19.py (over the postcondition of _add_data)")
    return obs


def plan(ctx):
    p = Plan("C19")
    contracts(ctx.registry)
    p.functions = ([T2 + "_resolution2number#" + r for r in RES + ["unknown"]]
                   + [T2 + "_pathways_to_processes#" + v for v in PROCESSES]
                   + [T2 + "_pathways_to_signals#" + v for v in SIGNALS]
                   + [T2 + "_types_to_processes#" + v for v in PROCESSES]
                   + [T2 + "_types_to_signals#" + v for v in SIGNALS]
                   + [T2 + f for f in ("_pathways_to_total", "_types_to_total", "_signals_to_total", "_processes_to_total")]
                   + [PROP + "#%s-%s" % (res, view) for res in RES
                      for view in PTYPES + list(PROCESSES) + list(SIGNALS) + [TOTL]])
    p.functions += [add_name(res, ares, dtype, tag) for res in RES for ares in [None] + RES
                    for dtype in add_dtypes(res, ares) for tag in add_tags(res)]
    p.functions += [first_add_name(ares, dtype, tag) for ares in [None] + RES for dtype in (PTYPES[0], "SE", NONR, TOTL)
                    for tag in (None, "t3")]
    p.functions += [B + "_convert_res_elementary#%d-%d" % (o, n_) for o in range(5) for n_ in range(5) if o != n_]
    p.functions += [conv_name(f, o, n_) for f in ("_convert_resolution", "set_resolution") for o in range(5) for n_ in range(5)
                    if not (f == "_convert_resolution" and o == n_)]
    p.functions += [B + "set_resolution#unknown"]
    p.lemmas = [lemma_additivity]
    p.lean = [lemmalib.job("ledger_induction")]
    p.oracles = ["native/oracle_C19.py"]
    return p
