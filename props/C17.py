"""C17 - population (master-equation) dynamics conserve and match the exponential.

Under contract: RateMatrix.set_rate, RateMatrix.__init__, PopulationPropagator.__init__,
PopulationPropagator._propagate_short_exp, PopulationPropagator.propagate.
"""
import z3

from qvc.main import Plan
from qvc.spec import Contract, clause_lemma, ClauseExec
from qvc.values import Builtin, SymArr
from qvc import values as V
from qvc import lemmalib

RM = "quantarhei/qm/liouvillespace/rates/ratematrix.py::"
PP = "quantarhei/qm/propagators/poppropagator.py::"

META = dict(
    category="proof",
    text=("set_rate is proved against the cell-wise postcondition (assigned value stored, the diagonal of the same "
          "column compensates, every other cell unchanged, diagonal assignment refused with the matrix unchanged); a "
          "Lean lemma over exactly those clauses gives that every column sum is unchanged, hence zero column sums are "
          "an invariant of every set_rate history from a zero-column-sum matrix (the constructor's zero matrix is "
          "proved to be one). _propagate_short_exp is proved, with loop invariants for the time/refinement/order "
          "loops and symbolic sizes, Nref and expansion order L, to keep the sum of populations at every stored time "
          "equal to the initial sum whenever the columns of the rate matrix sum to zero. get_PropagationMatrix (no "
          "correction terms requested) is proved, for every dimension, sub-axis length and the three ways the start of "
          "the sub-axis can lie (same start / shifted by a whole number of its steps / shifted otherwise), to return at "
          "every time index k of the sub-axis the spectral exponential SS diag(e0 . exp(Kd step)^(n0+k)) S1 of the "
          "eigen-decomposition it computed (e0 = exp(Kd shift), n0 = 0 for a fractional shift; e0 = 1, n0 = number of "
          "whole steps otherwise): loop invariants for the step loops, the product rule of two matrices with common "
          "eigenvectors as a Lean lemma. Not decided: non-negativity and agreement of the short-exponential "
          "propagation with the matrix exponential (truncation error)."),
    note="numpy.dot is its defining finite sum; ndarray.data is treated as the array itself; numpy.linalg.eig / inv "
         "are assumed by contract (K = SS diag(Kd) S1 is not checked, S1 SS = SS S1 = 1 is assumed, the spectrum is "
         "taken real); exp(x)^k is an uninterpreted power with pw(x,0) = 1, pw(x,k) = x pw(x,k-1) for x > 0; "
         "TimeAxis.is_subset_of is a stub answering True (floating-point membership tests are not modelled).",
    technique="VCs from the real AST with sidecar loop invariants, z3; column-sum and Taylor-step lemmas in Lean 4 "
              "printed from the same clauses and imported as instances",
)


def contracts(reg):
    def setup_sr(S):
        n = S.int("n")
        rm = S.obj(RM + "RateMatrix", label="self", N=n, data=S.array("data", (n, n), "real"))
        return dict(self=rm, pos=(S.int("p0"), S.int("p1")), value=S.real("value"))

    UNCH = "forall((i, j), (range(0, self.N), range(0, self.N)), self.data[i,j] == old(self.data)[i,j])"
    reg.add(Contract(
        RM + "RateMatrix.set_rate", setup=setup_sr,
        requires=["self.N >= 1", "0 <= pos[0] and pos[0] < self.N", "0 <= pos[1] and pos[1] < self.N"],
        modifies=["self.data"],
        raises={"Exception": {"when": "pos[0] == pos[1]", "ensures": [UNCH]}},
        ensures=[("assigned-value-stored", "self.data[pos[0], pos[1]] == value"),
                 ("others-unchanged",
                  "forall((i, j), (range(0, self.N), range(0, self.N)), implies(not ((i == pos[0] and j == pos[1]) or "
                  "(i == pos[1] and j == pos[1])), self.data[i,j] == old(self.data)[i,j]))"),
                 ("diagonal-compensates", "self.data[pos[1],pos[1]] + self.data[pos[0],pos[1]] == "
                                          "old(self.data)[pos[1],pos[1]] + old(self.data)[pos[0],pos[1]]")]))

    # constructor with a dimension only: zero matrix (start of every set_rate history)
    def setup_init(S):
        rm = S.obj(RM + "RateMatrix", label="self")
        return dict(self=rm, dim=S.int("dim"), data=None)
    reg.add(Contract(
        RM + "RateMatrix.__init__#dim", setup=setup_init, requires=["dim >= 1"],
        ensures=[("dimension", "self.N == dim"),
                 ("zero-matrix", "forall((i, j), (range(0, dim), range(0, dim)), self.data[i,j] == 0)")]))

    # ---- population propagator -------------------------------------------------------------------
    def setup_pp(S):
        nt, n = S.int("Nt"), S.int("N")
        ta = S.obj("TimeAxis(stub)", label="timeAxis", length=nt, data=S.array("tdata", (nt,), "real"),
                   step=S.real("step"))
        pp = S.obj(PP + "PopulationPropagator", label="self", timeAxis=ta, Nref=S.int("Nref"), Nt=nt,
                   dt=S.real("dt"), KK=S.array("KK", (n, n), "real"))
        return dict(self=pp, pini=S.array("pini", (n,), "real"), L=S.int("L"), N=n)

    TOT = "Sum(i, range(0, N), {a}[i]) == Sum(i, range(0, N), pini[i])"
    STEP = ("pop_step", {"n": "N", "K": "self.KK", "r1": "pre(rho1)", "r2": "pre(rho2)", "c": "self.dt/ll"})
    reg.add(Contract(
        PP + "PopulationPropagator._propagate_short_exp", setup=setup_pp,
        requires=["self.Nt >= 1", "self.Nt == self.timeAxis.length", "N >= 1", "self.Nref >= 0", "L >= 0",
                  ("zero-column-sums", "forall(j, range(0, N), Sum(i, range(0, N), self.KK[i,j]) == 0)")],
        ensures=[("total-population-conserved",
                  "forall(t, range(0, self.Nt), Sum(i, range(0, N), result[t,i]) == Sum(i, range(0, N), pini[i]))")],
        loops={
            0: dict(inv=["indx == _i + 1",
                         TOT.format(a="rho2"),
                         "forall(i, range(0, N), rho1[i] == rho2[i])",
                         "forall(t, range(0, indx), Sum(i, range(0, N), pops[t,i]) == Sum(i, range(0, N), pini[i]))"]),
            1: dict(inv=[TOT.format(a="rho2"), "forall(i, range(0, N), rho1[i] == rho2[i])"]),
            2: dict(inv=[TOT.format(a="rho2")], use_post=[STEP]),
        }))

    # integer-typed initial populations (e.g. numpy.array([1, 0, 0])) must be propagated as real numbers
    def setup_pp_int(S):
        d = setup_pp(S)
        d["pini"] = S.array("pini", (d["N"],), "int")
        return d
    base_c = reg.contracts[PP + "PopulationPropagator._propagate_short_exp"]
    reg.add(Contract(PP + "PopulationPropagator._propagate_short_exp#integer-initial-populations", setup=setup_pp_int,
                     requires=list(base_c.requires), ensures=list(base_c.ensures), loops=base_c.loops))

    def setup_ppi(S):
        nt = S.int("Nt")
        ta = S.obj("TimeAxis(stub)", label="timeaxis", length=nt, step=S.real("step"))
        n = S.int("N")
        return dict(self=S.obj(PP + "PopulationPropagator", label="self"), timeaxis=ta,
                    rate_matrix=S.array("KK", (n, n), "real"))
    reg.add(Contract(
        PP + "PopulationPropagator.__init__", setup=setup_ppi, requires=[],
        ensures=[("Nt-is-axis-length", "self.Nt == self.timeAxis.length"), ("Nref-one", "self.Nref == 1"),
                 ("dt-is-step", "self.dt == timeaxis.step")]))

    # ---- propagation matrix on a sub-axis: spectral exponential ----------------------------------------------------------------------
    # numpy.linalg.eig / inv are assumed by contract: K = SS diag(Kd) S1 with S1 SS = SS S1 = 1 (so that
    # exp(K t) = SS diag(exp(Kd t)) S1); the spectrum is taken real here (detailed-balance rate matrices; for a complex
    # spectrum NumPy discards the - mathematically vanishing - imaginary parts when U is filled).  pw(x, k) is the
    # k-th power of x > 0 for every integer k (pw(x,0) = 1, pw(x,k) = x pw(x,k-1)); pw(exp(y), k) = exp(k y).
    T = reg.models.table
    _pw = z3.Function("u_pw", z3.RealSort(), z3.IntSort(), z3.RealSort())
    T["pw"] = Builtin("pw", lambda ex, a, k, l: _pw(V.z3real(a[0]), V.z3int(a[1])))
    T["exp"] = T["numpy.exp"]
    _orig_inv = T["numpy.linalg.inv"]

    def eig_real(ex, a, k, l):
        h = a[0]
        n = h.shape[0]
        ex.used_models.add("assume:numpy.linalg.eig returns a real spectrum and real eigenvectors (diagonalisable rate matrix with real eigenvalues)")
        out = (SymArr((n,), "real", name="eigvals"), SymArr((n, n), "real", name="eigvecs"))
        ex.eig_outputs = (out[0].snapshot(), out[1].snapshot())      # ghost: what the decomposition returned
        return out

    def inv_with_facts(ex, a, k, l):
        r = _orig_inv.fn(ex, a, k, l)
        x = a[0]
        ex.used_models.add("assume:numpy.linalg.inv returns the two-sided inverse (S1 SS = SS S1 = 1)")
        env = dict(S1_=r, SS_=x, n_=x.shape[0])
        for cl in ("forall((c, d), (range(0, n_), range(0, n_)), Sum(m, range(0, n_), S1_[c,m]*SS_[m,d]) == ite(c == d, 1, 0))",
                   "forall((c, d), (range(0, n_), range(0, n_)), Sum(m, range(0, n_), SS_[c,m]*S1_[m,d]) == ite(c == d, 1, 0))"):
            ex.assume(V.z3bool(ClauseExec(ex, dict(env)).run(cl)))
        return r

    def setup_pm(S, same_start):
        n, nt = S.int("N"), S.int("nt")
        s0 = S.real("s0")
        own = S.obj("TimeAxis(stub)", label="ownaxis", start=s0, step=S.real("ownstep"), length=S.int("ownlength"))
        sub = S.obj("TimeAxis(stub)", label="timeaxis", start=(s0 if same_start else S.real("s1")), step=S.real("step"),
                    length=nt, data=S.array("tdata", (nt,), "real"),
                    is_subset_of=Builtin("timeaxis.is_subset_of", lambda ex, a, k, l: True))
        pp = S.obj(PP + "PopulationPropagator", label="self", timeAxis=own, KK=S.array("KK", (n, n), "real"),
                   dt=S.real("dt"), Nref=1, Nt=own.fields["length"])
        T["numpy.linalg.eig"] = Builtin("numpy.linalg.eig", eig_real)
        T["numpy.linalg.inv"] = Builtin("numpy.linalg.inv", inv_with_facts)
        return dict(self=pp, timeaxis=sub, corrections=-1, exact=False, N=n, nt=nt, step=sub.fields["step"],
                    shift=V.arith("-", sub.fields["start"], s0))
    def ghost_eig(S, env):
        eo = getattr(S.ex, "eig_outputs", None)
        if eo is not None:
            env["eig_Kd"], env["eig_SS"] = eo
    USED = ("spectrum-and-eigenvectors-used-as-returned-by-the-decomposition",
            "forall(c, range(0, N), local_Kd[c] == eig_Kd[c]) and "
            "forall((a, c), (range(0, N), range(0, N)), local_SS[a,c] == eig_SS[a,c])")
    ESTEP = "exp({kd}[c]*step)"
    FORM = "Sum(c, range(0, N), {ss}[a,c]*({e0}*pw(%s, {k}))*{s1}[c,b])" % ESTEP
    loc = dict(ss="local_SS", s1="local_S1", kd="local_Kd")
    cod = dict(ss="SS", s1="S1", kd="Kd")
    E1 = "lambda c: exp(Kd[c]*step)"

    def compose(B, e2):
        return ("spectral_compose", {"n": "N", "SS": "SS", "S1": "S1", "A": "expKd_step", "B": B, "e1": E1, "e2": e2})

    def pm_loops(e0, off="0"):
        # e0: factor at the start of the sub-axis that is not a power of the step factor; off: whole steps already taken
        return {0: dict(inv=["forall((a, b), (range(0, N), range(0, N)), U0[a,b] == %s)" % FORM.format(e0="1", k="_i", **cod)],
                        modifies=["U0"],
                        use_post=[compose("pre(U0)", "lambda c: 1*pw(exp(Kd[c]*step), _i)")]),
                1: dict(inv=["forall((a, b, k), (range(0, N), range(0, N), range(0, _i)), U[a,b,k] == %s)"
                             % FORM.format(e0=e0, k="%s + k" % off, **cod)],
                        modifies=["U"],
                        use_post=[compose("pre(U)[:,:,_i-1]", "lambda c: (%s)*pw(exp(Kd[c]*step), %s + _i - 1)" % (e0, off))])}
    ALL = "forall((a, b, k), (range(0, N), range(0, N), range(0, nt)), result[a,b,k] == %s)"
    reg.add(Contract(
        PP + "PopulationPropagator.get_PropagationMatrix#same-start", setup=lambda S: setup_pm(S, True), ghost=ghost_eig,
        requires=["N >= 1", "nt >= 1"],
        ensures=[USED, ("spectral-exponential-at-every-time-of-the-sub-axis", ALL % FORM.format(e0="1", k="0 + k", **loc))],
        loops=pm_loops("1"), expose_locals=["SS", "S1", "Kd"]))
    reg.add(Contract(
        PP + "PopulationPropagator.get_PropagationMatrix#start-shifted-by-whole-steps", setup=lambda S: setup_pm(S, False), ghost=ghost_eig,
        requires=["N >= 1", "nt >= 1", "shift > 0", "step > 0",
                  ("shift-is-a-whole-number-of-steps", "exists(q, ints, q >= 1 and shift == q*step and shift/step == q)")],
        ensures=[USED, ("whole-steps-counted-exactly", "local_Ns*step == shift"),
                 ("spectral-exponential-at-every-time-of-the-sub-axis",
                  ALL % FORM.format(e0="1", k="local_Ns + k", **loc))],
        loops=pm_loops("1", off="Ns"), expose_locals=["SS", "S1", "Kd", "Ns"]))
    reg.add(Contract(
        PP + "PopulationPropagator.get_PropagationMatrix#start-shifted-otherwise", setup=lambda S: setup_pm(S, False), ghost=ghost_eig,
        requires=["N >= 1", "nt >= 1", "shift > 0", "step > 0",
                  ("shift-is-not-a-whole-number-of-steps", "forall(q, ints, shift != q*step)")],
        ensures=[USED, ("spectral-exponential-at-every-time-of-the-sub-axis",
                  ALL % FORM.format(e0="exp(local_Kd[c]*shift)", k="0 + k", **loc))],
        loops=pm_loops("exp(Kd[c]*shift)"), expose_locals=["SS", "S1", "Kd"]))


def lemma_colsum(ctx):
    """the postcondition of set_rate (as proved above) gives the hypotheses of the Lean lemma set_rate_colsum"""
    from qvc.values import SymArr

    def setup(S):
        n = S.int("n")
        return dict(n=n, N=S.int("N"), M=S.int("M"), value=S.real("value"),
                    D=S.array("D", (n, n), "real"), D_old=S.array("D_old", (n, n), "real"))
    post = ["n >= 1", "0 <= N and N < n", "0 <= M and M < n", "N != M",
            "D[N, M] == value",
            "forall((i, j), (range(0, n), range(0, n)), implies(not ((i == N and j == M) or (i == M and j == M)), "
            "D[i,j] == D_old[i,j]))",
            "D[M,M] + D[N,M] == D_old[M,M] + D_old[N,M]"]
    ctx.used_lemmas = set(getattr(ctx, "used_lemmas", ())) | {"set_rate_colsum"}
    return clause_lemma(ctx, "set_rate-post-gives-colsum-hypotheses", setup, post,
                        lemmalib.LEMMAS["set_rate_colsum"]["hyps"],
                        where="props/C17.py (over the contract of RateMatrix.set_rate)")


REPLAY = r'''
import sys, numpy
from fractions import Fraction
import quantarhei as qr
from quantarhei.qm.liouvillespace.rates.ratematrix import RateMatrix
def num(x):
    return float(Fraction(x["num"], x["den"])) if isinstance(x, dict) and "num" in x else float(x)
'''


def replayer(ob, model):
    if "RateMatrix.set_rate" in ob.where:
        return REPLAY + r'''
n = MODEL["n"]
if not (1 <= n <= 6): sys.exit(0)
cells = MODEL["data"]["cells"]
D = numpy.zeros((n, n))
for k, v in cells.items():
    i, j = map(int, k.split(","))
    D[i, j] = num(v)
rm = RateMatrix(data=D.copy())
p0, p1, value = MODEL["p0"], MODEL["p1"], num(MODEL["value"])
before = rm.data.copy()
bad = []
try:
    rm.set_rate((p0, p1), value)
    raised = False
except Exception as e:
    raised = True
if p0 == p1:
    if not raised: bad.append("diagonal assignment was not refused")
    if not numpy.array_equal(rm.data, before): bad.append("refused assignment changed the matrix")
else:
    if raised: bad.append("off-diagonal assignment raised")
    else:
        if rm.data[p0, p1] != value: bad.append("assigned value not stored: %r" % rm.data[p0, p1])
        cs0, cs1 = before.sum(axis=0), rm.data.sum(axis=0)
        if not numpy.allclose(cs0, cs1, atol=1e-9 * (1 + abs(before).max() + abs(value))):
            bad.append("column sums changed: %r -> %r" % (cs0, cs1))
        mask = numpy.ones((n, n), bool); mask[p0, p1] = False; mask[p1, p1] = False
        if not numpy.array_equal(rm.data[mask], before[mask]): bad.append("a cell other than (N,M),(M,M) changed")
print("n=%d pos=(%d,%d) value=%r" % (n, p0, p1, value)); print(before); print(rm.data)
for b in bad: print("VIOLATED:", b)
sys.exit(1 if bad else 0)
'''
    if "_propagate_short_exp" in ob.where:
        return REPLAY + r'''
from quantarhei.qm.propagators.poppropagator import PopulationPropagator
N, Nt = MODEL.get("N", 2), MODEL.get("Nt", 3)
N = min(max(N, 2), 5); Nt = min(max(Nt, 2), 6)
rng = numpy.random.default_rng(1)
K = rng.random((N, N)); numpy.fill_diagonal(K, 0.0); K -= numpy.diag(K.sum(axis=0))
ta = qr.TimeAxis(0.0, Nt, 0.1)
p0 = rng.random(N)
bad = []
for Nref in (1, 3):
    for L in (1, 2, 4, 6):
        prop = PopulationPropagator(ta, rate_matrix=K); prop.Nref = Nref; prop.dt = ta.step / Nref
        pops = prop._propagate_short_exp(p0, L=L)
        err = abs(pops.sum(axis=1) - p0.sum()).max()
        if err > 1e-10: bad.append("Nref=%d L=%d: total population drifts by %g" % (Nref, L, err))
for b in bad: print("VIOLATED:", b)
sys.exit(1 if bad else 0)
'''
    return None


def plan(ctx):
    p = Plan("C17")
    contracts(ctx.registry)
    p.functions = [RM + "RateMatrix.set_rate", RM + "RateMatrix.__init__#dim",
                   PP + "PopulationPropagator.__init__", PP + "PopulationPropagator._propagate_short_exp",
                   PP + "PopulationPropagator._propagate_short_exp#integer-initial-populations",
                   PP + "PopulationPropagator.get_PropagationMatrix#same-start",
                   PP + "PopulationPropagator.get_PropagationMatrix#start-shifted-by-whole-steps",
                   PP + "PopulationPropagator.get_PropagationMatrix#start-shifted-otherwise"]
    x, k = z3.Real("ax_x"), z3.Int("ax_k")
    pw = z3.Function("u_pw", z3.RealSort(), z3.IntSort(), z3.RealSort())
    p.extra_axioms = [z3.ForAll([x, k], z3.Implies(k == 0, pw(x, k) == 1), patterns=[pw(x, k)]),
                      z3.ForAll([x, k], z3.Implies(x > 0, pw(x, k) == x * pw(x, k - 1)), patterns=[pw(x, k)])]
    p.lemmas = [lemma_colsum]
    p.replayers = [replayer]
    p.oracles = ["native/oracle_C17.py"]
    p.not_decided = ["non-negativity of populations for admissible steps and agreement with exp(K t) within the "
                     "truncation bound (error analysis of a truncated Taylor series)",
                     "get_PropagationMatrix: the perturbative correction terms (corrections >= 0); rate matrices with a "
                     "complex spectrum; ValueAxis.is_subset_of (floating-point `in` tests)"]
    p.trusted = ["numpy.linalg.eig returns (Kd, SS) with K SS = SS diag(Kd), numpy.linalg.inv the two-sided inverse; real spectrum",
                 "exp(K t) = SS diag(exp(Kd t)) S1 for a diagonalisable K; exp(y)^k = exp(k y)",
                 "axioms of the uninterpreted power pw(x, k): pw(x, 0) = 1 and, for x > 0 and every integer k, pw(x, k) = x pw(x, k-1)",
                 "TimeAxis.is_subset_of answers True in the set-ups (the other answer raises before anything is computed)"]
    p.api_preconditions = ["PopulationPropagator conserves the total only for rate matrices with zero column sums "
                           "(what RateMatrix histories guarantee); arbitrary arrays passed as rate_matrix are the caller's"]
    return p
