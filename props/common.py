"""Shared pieces of the property plans: the Manager singleton with a serial DistributedConfiguration, stubs."""
from qvc.spec import Contract

PAR = "quantarhei/core/parallel.py::"
MGR = "quantarhei/core/managers.py::"


def serial_manager(S, **extra):
    """Manager singleton whose DistributedConfiguration is the one of a run without MPI (the only mode in which the
    package's own tests run): have_mpi False, size 1, rank 0, parallel_level 0; the region counter is symbolic"""
    cfg = S.obj(PAR + "DistributedConfiguration", label="cfg", have_mpi=False, use_steerer=False, size=1, rank=0,
                parallel_level=0, parallel_region=S.int("parallel_region"), inparallel=False, silent=True,
                comm=None)
    log = S.obj("LogConf(stub)", label="log_conf", verbosity=S.int("verbosity"), fverbosity=S.int("fverbosity"))
    mgr = S.obj(MGR + "Manager", label="mgr", parallel_conf=cfg, log_conf=log, **extra)
    S.singleton("Manager", mgr)
    return mgr


def ghost_cfg(S, env):
    env["cfg"] = S.ex.globals_heap["Manager"].fields["parallel_conf"]


def add_parallel_contracts(reg):
    """contracts of the block-distribution helpers (proved under C20) for use at call sites"""
    from props import C20
    C20.contracts(reg)
