"""Shared pieces of the property plans: the Manager singleton with a serial DistributedConfiguration, stubs."""
from qvc.spec import Contract

PAR = "quantarhei/core/parallel.py::"
MGR = "quantarhei/core/managers.py::"


def serial_manager(S, **extra):
    """Manager singleton whose DistributedConfiguration is the one of a run without MPI (the only mode in which the
    package's own tests run): have_mpi False, size 1, rank 0, parallel_level 0; the region counter is symbolic"""
    cfg = S.obj(PAR + "DistributedConfiguration", label="cfg", have_mpi=False, use_steerer=False, size=1, rank=0,
                parallel_level=0, parallel_region=S.int("parallel_region"), inparallel=False, silent=True,
                comm=None)
    log = S.obj("LogConf(stub)", label="log_conf", verbosity=S.int("verbosity"), fverbosity=S.int("fverbosity"))
    mgr = S.obj(MGR + "Manager", label="mgr", parallel_conf=cfg, log_conf=log, **extra)
    S.singleton("Manager", mgr)
    return mgr


def ghost_cfg(S, env):
    env["cfg"] = S.ex.globals_heap["Manager"].fields["parallel_conf"]


def add_parallel_contracts(reg):
    """contracts of the block-distribution helpers (proved under C20) for use at call sites, and the ghost protocol of
    distributed loops: an array written inside a loop over a block-distributed range is a per-process partial result
    until it has passed through DistributedConfiguration.allreduce; closing the parallel region with partial results
    outstanding is a failed obligation (the sum over ranks would never be formed: C20 'sum-reduced results equal the
    serial result')"""
    from props import C20
    C20.contracts(reg)

    def protocol(ex, finfo, args, kwargs, bound, line):
        if finfo.name == "allreduce" and finfo.cls is not None and finfo.cls.name == "DistributedConfiguration":
            part = ex.__dict__.get("partial_results", {})
            a = args[0] if args else kwargs.get("A")
            while getattr(a, "base", None) is not None:
                a = a.base
            part.pop(id(a), None)
        elif finfo.name == "close_parallel_region" and finfo.cls is None:
            part = ex.__dict__.get("partial_results", {})
            for k, (a, nm, ln) in list(part.items()):
                ex.oblige("distributed-results-reduced-before-the-region-is-closed:%s@%s" % (nm, ln), False, "protocol", line)
            part.clear()
        return None
    if not any(getattr(h, "__name__", "") == "protocol" for h in reg.models.hooks_call):
        reg.models.hooks_call.append(protocol)


def plain_basis_properties(models):
    """outside the C04 plan the basis-managed array properties (utils/types.py factories) are read and written as
    their storage field `_<name>`: i.e. the proofs are for the situation with no basis context active, in which the
    getter/setter closures reduce to plain access (that reduction itself is an obligation of C04)"""
    import ast
    from qvc.values import Obj
    FACT = {"basis_managed_array_property", "managed_array_property", "BasisManagedComplexArray",
            "BasisManagedRealArray", "BasisManagedArray"}

    def storage(obj, name):
        cls = obj.cls
        if not hasattr(cls, "lookup") or name in obj.fields:
            return None
        r = cls.lookup(name)
        if r is None or r[0] != "attr" or not isinstance(r[2], ast.Call):
            return None
        f = r[2].func
        fname = f.id if isinstance(f, ast.Name) else getattr(f, "attr", None)
        if fname in FACT and r[2].args and isinstance(r[2].args[0], ast.Constant):
            return "_" + r[2].args[0].value
        return None

    def g(ex, obj, name, line):
        st = storage(obj, name)
        if st is None:
            return None
        ex.used_models.add("assume:basis-managed property read outside any basis context")
        if st not in obj.fields:
            from qvc.symex import RaiseSignal
            raise RaiseSignal("AttributeError", line=line)
        return (obj.fields[st],)

    def s(ex, obj, name, v, line):
        st = storage(obj, name)
        if st is None:
            return False
        ex.used_models.add("assume:basis-managed property written outside any basis context")
        ex.set_field(obj, st, v)
        return True
    models.hooks_getattr.append(g)
    models.hooks_setattr.append(s)


def transparent_units_contexts(models):
    """`with energy_units("int")` around code that works on internal (storage) values: the context object is a no-op
    stand-in here; that contexts restore the units is the subject of C05"""
    from qvc.values import Obj, Builtin

    def hook(ex, cinfo, args, kwargs, line):
        if cinfo.name in ("energy_units", "frequency_units", "length_units"):
            ex.used_models.add("assume:units context transparent for internal-units code (C05)")
            return (Obj("units_context(stand-in)", {
                "__enter__": Builtin("units.__enter__", lambda ex_, a, k, l: None),
                "__exit__": Builtin("units.__exit__", lambda ex_, a, k, l: None)}),)
        return None
    models.hooks_instantiate.append(hook)
