"""C10 - vibronic structure follows the displaced-oscillator model (partial).

Under contract: the ladder operators of the oscillator basis, the look-up of Franck-Condon tables (a table computed
for one shift is used exactly for that shift), fc_factor as the product of the modes' overlaps, the vibronic coupling
element = electronic coupling x overlap, and the size of the oscillator basis relative to the table that is cut from it.
The Poisson law itself is the spectrum of a numerically exponentiated truncated matrix and is not decided."""
import z3

from qvc.main import Plan
from qvc.spec import Contract
from qvc.values import Builtin, Obj, SymArr, Cx
from qvc import values as V
import props.C03 as C03

HO = "quantarhei/qm/oscillators/ho.py::"
MO = "quantarhei/builders/modes.py::"
AB = C03.AB
AS = C03.AS

META = dict(
    category="other",   # structural contracts; the headline (Poisson law) is not decided
    text=("operator_factory.anihilation_operator / creation_operator are proved cell by cell (a[n,m] = sqrt(m) for n = m-1, "
          "the creation operator its transpose) for every basis size; fcstorage is proved to return for a shift the table "
          "that was stored for exactly that shift; AggregateBase.fc_factor is proved, for one and two modes with symbolic "
          "shifts and quantum numbers and empty or filled table storage, to be the product over the modes of the entry "
          "[n1, n2] of the upper-left 20x20 block of shift_operator(shift1 - shift2); AggregateBase.coupling between vibronic "
          "states is the electronic coupling times that overlap exactly when one excitation moves (2-4 two-level molecules, "
          "all pairs of states up to two excitations); the oscillator basis in which the shift operator is exponentiated "
          "has the design size 100, five times the table cut from it. Mode.set_HR is proved to store a non-negative shift "
          "whose square is twice the Huang-Rhys factor on the addressed electronic state only, Mode.get_HR to return "
          "shift^2/2, and the composition of the two (real code) to return the factor that was set."),
    note=("the Poisson distribution of the overlaps and orthogonality up to truncation are properties of exp of a truncated "
          "matrix computed through numpy.linalg.eig and are not decided; the number of vibronic states per electronic state "
          "(state generators) and the dipole elements between vibronic states are not under contract."),
    technique="VCs from the real AST (loop summaries, small concrete mode lists with symbolic values), z3",
)


def contracts(reg):
    C03.contracts(reg)
    T = reg.models.table

    # ---- ladder operators ---------------------------------------------------------------------------------------------------
    def setup_op(S):
        return dict(self=S.obj(HO + "operator_factory", label="self", N=S.int("N")), N=S.leaves["N"])
    T["sqrt"] = T["numpy.sqrt"]
    reg.add(Contract(HO + "operator_factory.anihilation_operator", setup=setup_op, requires=["N >= 1"],
                     ensures=[("lowering-operator", "forall((n, m), (range(0, N), range(0, N)), result[n,m] == ite(n == m - 1, sqrt(m), 0))")]))
    reg.add(Contract(HO + "operator_factory.creation_operator", setup=setup_op, requires=["N >= 1"],
                     ensures=[("raising-operator", "forall((n, m), (range(0, N), range(0, N)), result[n,m] == ite(n == m + 1, sqrt(m + 1), 0))")]))

    # ---- table storage ------------------------------------------------------------------------------------------------------------
    def setup_store(S, nstored):
        shifts = [S.real("s%d" % k) for k in range(nstored)]
        tabs = [S.array("tab%d" % k, (20, 20), "cx") for k in range(nstored)]
        me = S.obj(HO + "fcstorage", label="self", _shifts=list(shifts), _fcs=list(tabs))
        return dict(self=me, shift=S.real("shift"), **{"tab%d" % k: tabs[k] for k in range(nstored)}, **{"s%d" % k: shifts[k] for k in range(nstored)})
    for ns in (0, 1, 2, 3):
        present = " or ".join("shift == s%d" % k for k in range(ns)) or "False"
        reg.add(Contract(HO + "fcstorage.lookup#%d-stored" % ns, setup=(lambda S, n=ns: setup_store(S, n)),
                         ensures=[("found-exactly-when-stored", "result == (%s)" % present)]))
        if ns:
            reg.add(Contract(HO + "fcstorage.index#%d-stored" % ns, setup=(lambda S, n=ns: setup_store(S, n)),
                             requires=[present],
                             ensures=[("index-of-a-table-stored-for-this-shift",
                                       " or ".join("(result == %d and shift == s%d)" % (k, k) for k in range(ns)))]))

    # ---- Franck-Condon factor of two vibronic states = product over the modes of table entries ------------------------------------------------
    shiftop = z3.Function("u_shift_operator_re", z3.RealSort(), z3.ArraySort(z3.IntSort(), z3.IntSort(), z3.RealSort()))
    shiftop_im = z3.Function("u_shift_operator_im", z3.RealSort(), z3.ArraySort(z3.IntSort(), z3.IntSort(), z3.RealSort()))

    def shift_operator(ex, a, k, l):
        d = V.z3real(a[0])
        return SymArr((100, 100), "cx", re=shiftop(d), im=shiftop_im(d), name="shift_operator")
    T["SHIFT"] = Builtin("spec:shift_operator (uninterpreted function of the shift)", shift_operator)

    def setup_fc(S, nmodes, nstored):
        ops = S.obj(HO + "operator_factory", label="ops", N=100, shift_operator=T["SHIFT"])
        stored = [S.real("st%d" % k) for k in range(nstored)]
        fc = S.obj(HO + "fcstorage", label="FC", _shifts=list(stored),
                   _fcs=[V.lam_array((20, 20), "cx", lambda idx, s_=s_: Cx(z3.Select(shiftop(s_), V.z3int(idx[0]), V.z3int(idx[1])),
                                                                            z3.Select(shiftop_im(s_), V.z3int(idx[0]), V.z3int(idx[1]))))
                         for s_ in stored])
        me = S.obj(AB + "AggregateBase", label="self", FC=fc, ops=ops)
        d = dict(self=me)
        for w in (1, 2):
            modes = [S.obj("SubMode(stub)", label="m%d_%d" % (w, k), shift=S.real("shift%d_%d" % (w, k))) for k in range(nmodes)]
            qn = tuple(S.int("q%d_%d" % (w, k)) for k in range(nmodes))
            for q in qn:
                S.ex.assume(z3.And(q >= 0, q < 20))
            es = S.obj(AS + "ElectronicState", label="es%d" % w, vibmodes=modes)
            d["state%d" % w] = S.obj(AS + "VibronicState", label="state%d" % w, elstate=es, vsig=qn)
            for k in range(nmodes):
                d["sh%d_%d" % (w, k)] = modes[k].fields["shift"]
                d["q%d_%d" % (w, k)] = qn[k]
        return d
    for nmodes in (1, 2):
        for nstored in (0, 1):
            prod = "*".join("SHIFT(sh1_%d - sh2_%d)[q1_%d, q2_%d]" % (k, k, k, k) for k in range(nmodes))
            reg.add(Contract(AB + "AggregateBase.fc_factor#%d-modes-%d-tables-stored" % (nmodes, nstored),
                             setup=(lambda S, m=nmodes, n=nstored: setup_fc(S, m, n)),
                             ensures=[("product-of-the-modes-overlaps", "result == %s" % prod)]))

    # ---- the oscillator basis is (much) larger than the table cut from it ----------------------------------------------------------------------
    def setup_init(S):
        return dict(self=S.obj(AB + "AggregateBase", label="self"))
    reg.add(Contract(AB + "AggregateBase._init_me", setup=setup_init,
                     ensures=[("shift-operator-exponentiated-in-the-design-basis-of-100-levels-for-a-20-level-table", "self.ops.N >= 100"),
                              ("empty-table-storage", "len(self.FC._shifts) == 0 and len(self.FC._fcs) == 0")]))

    # ---- shift of the potential-energy surface from the Huang-Rhys factor -----------------------------------------------------------------
    def setup_mode(S):
        nst = 3
        subs = [S.obj("SubMode(stub)", label="sub%d" % k, shift=S.real("shift%d" % k), nmax=S.int("nmax%d" % k),
                      omega=S.real("omega%d" % k)) for k in range(nst)]
        me = S.obj(MO + "Mode", label="self", submodes=subs, nel=nst)
        n = S.ex.decide(nst)
        d = dict(self=me, N=n, hr=S.real("hr"), sub=subs[n])
        for k in range(nst):
            d["sub%d" % k] = subs[k]
        S.ex.mode_case = n
        return d
    OTHERS = " and ".join("(N == %d or self.submodes[%d].shift == old(self.submodes[%d].shift))" % (k, k, k) for k in range(3))
    reg.add(Contract(MO + "Mode.set_HR", setup=setup_mode, requires=["hr >= 0", "0 <= N and N < 3"],
                     ensures=[("shift-squared-over-two-is-the-factor",
                               "self.submodes[N].shift*self.submodes[N].shift == 2.0*hr and self.submodes[N].shift >= 0"),
                              ("other-electronic-states-keep-their-shift", OTHERS)],
                     frame=dict(roots=["self"], allow=["self.submodes[%d].shift" % k for k in range(3)]), inline=True))
    reg.add(Contract(MO + "Mode.get_HR", setup=setup_mode, requires=["0 <= N and N < 3"],
                     ensures=[("factor-is-shift-squared-over-two", "2.0*result == self.submodes[N].shift*self.submodes[N].shift")],
                     frame=dict(roots=["self"], allow=[]), inline=True))


def lemma_hr_roundtrip(ctx):
    """set_HR then get_HR on the same electronic state returns the factor that was set (composition of the real code)"""
    from qvc.spec import clause_lemma

    def setup(S):
        subs = [S.obj("SubMode(stub)", label="sub%d" % k, shift=S.real("shift%d" % k), nmax=S.int("nmax%d" % k),
                      omega=S.real("omega%d" % k)) for k in range(3)]
        me = S.obj(MO + "Mode", label="self", submodes=subs, nel=3)
        n = S.ex.decide(3)
        hr = S.real("hr")
        repo = S.ex.repo
        S.ex.call_function(repo.function(MO + "Mode.set_HR"), [n, hr], {}, bound=me)
        got = S.ex.call_function(repo.function(MO + "Mode.get_HR"), [n], {}, bound=me)
        m = (n + 1) % 3
        other = S.ex.call_function(repo.function(MO + "Mode.get_HR"), [m], {}, bound=me)
        return dict(hr=hr, got=got, other=other, other_shift=subs[m].fields["shift"], shift_m=S.leaves["shift%d" % m])
    return clause_lemma(ctx, "huang-rhys-factor-set-then-read", setup, ["hr >= 0"],
                        [("same-state-returns-the-factor-set", "got == hr"),
                         ("other-states-keep-their-factor", "2.0*other == shift_m*shift_m")],
                        where="props/C10.py: Mode.set_HR, Mode.get_HR composed (real code)")


def plan(ctx):
    p = Plan("C10")
    contracts(ctx.registry)
    p.functions = ([HO + "operator_factory.anihilation_operator", HO + "operator_factory.creation_operator"]
                   + [HO + "fcstorage.lookup#%d-stored" % n for n in (0, 1, 2, 3)]
                   + [HO + "fcstorage.index#%d-stored" % n for n in (1, 2, 3)]
                   + [AB + "AggregateBase.fc_factor#%d-modes-%d-tables-stored" % (m, n) for m in (1, 2) for n in (0, 1)]
                   + [AB + "AggregateBase._init_me"]
                   + [AB + "AggregateBase.coupling#vibronic-%d-molecules" % n for n in (2, 3, 4)]
                   + [MO + "Mode.set_HR", MO + "Mode.get_HR"])
    p.lemmas = list(getattr(p, "lemmas", [])) + [lemma_hr_roundtrip]
    x = z3.Real("x")
    sq = lambda t: V.ufun("sqrt", t)        # noqa: E731
    p.extra_axioms = [z3.ForAll([x], z3.Implies(x >= 0, sq(x) * sq(x) == x), patterns=[sq(x)]),
                      z3.ForAll([x], z3.Implies(x > 0, sq(x) > 0), patterns=[sq(x)])]
    p.level = "other"
    p.oracles = ["native/oracle_C10.py"]
    p.not_decided = ["Poisson distribution of the overlaps from the vibrational ground state and orthogonality up to truncation "
                     "(spectrum of a numerically exponentiated truncated matrix)",
                     "number of vibronic states per electronic state (state generators)", "dipole elements between vibronic states",
                     "more than two modes / four molecules (the proofs enumerate them)"]
    return p
