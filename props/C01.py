"""C01 - relaxation generators preserve trace and Hermiticity."""
from qvc.main import Plan
from qvc.spec import Contract, clause_lemma
from qvc import lemmalib
from props.common import serial_manager, ghost_cfg, add_parallel_contracts

RT = "quantarhei/qm/liouvillespace/redfieldtensor.py::"

META = dict(
    category="proof",
    text="(filled in below)",
    note="",
)

R4 = "(range(0, Na), range(0, Na), range(0, Na), range(0, Na))"
# one bath component's contribution, as the property's mechanism names it:  K rho L+ + L rho K+ - K+ L rho - rho L+ K
REL_LOOPIT = ("Km[m,a,c]*Ld[m,d,b] + Lm[m,a,c]*Kd[d,b] "
              "- ite(b == d, Sum(k, range(0, Na), Kd[a,k]*Lm[m,k,c]), 0) "
              "- ite(a == c, Sum(k, range(0, Na), Ld[m,d,k]*Km[m,k,b]), 0)")
REL_M = ("Km[{m},a,c]*Ld[{m},d,b] + Lm[{m},a,c]*Km[{m},b,d] "
         "- ite(b == d, Sum(k, range(0, Na), Km[{m},k,a]*Lm[{m},k,c]), 0) "
         "- ite(a == c, Sum(k, range(0, Na), Ld[{m},d,k]*Km[{m},k,b]), 0)")


def contracts(reg):
    add_parallel_contracts(reg)

    def setup_loopit(S):
        nb, na = S.int("Nb"), S.int("Na")
        return dict(Km=S.array("Km", (nb, na, na), "real"), Kd=S.array("Kd", (na, na), "real"),
                    Lm=S.array("Lm", (nb, na, na), "cx"), Ld=S.array("Ld", (nb, na, na), "cx"),
                    Na=na, RR=S.array("RR", (na, na, na, na), "cx"), m=S.int("m"), Nb=nb)
    reg.add(Contract(
        RT + "_loopit", setup=setup_loopit, requires=["0 <= m and m < Km.shape[0]", "Na >= 0"], modifies=["RR"],
        ensures=[("assembly-formula", "forall((a, b, c, d), %s, RR[a,b,c,d] == old(RR)[a,b,c,d] + %s)" % (R4, REL_LOOPIT))]))

    def setup_conv(S):
        serial_manager(S)
        nb, na = S.int("Nb"), S.int("Na")
        ham = S.obj("Hamiltonian(stub)", label="Hamiltonian", data=S.array("Hdata", (na, na), "real"))
        sbi = S.obj("SystemBathInteraction(stub)", label="sbi", N=nb)
        me = S.obj(RT + "RedfieldRelaxationTensor", label="self", Hamiltonian=ham, SystemBathInteraction=sbi)
        return dict(self=me, Km=S.array("Km", (nb, na, na), "real"), Lm=S.array("Lm", (nb, na, na), "cx"),
                    Ld=S.array("Ld", (nb, na, na), "cx"), Na=na, Nb=nb)
    def ghost_conv(S, env):
        ghost_cfg(S, env)
        env.setdefault("Nb", env["Km"].shape[0])
        env.setdefault("Na", env["Km"].shape[1])
    reg.add(Contract(
        RT + "RedfieldRelaxationTensor._convert_operators_2_tensor", setup=setup_conv, ghost=ghost_conv,
        result=lambda S, env: S.fresh_array((env["Na"],) * 4, "cx", prefix="RR"),
        requires=["Na >= 0", "Nb >= 0", "cfg.parallel_region >= 0"],
        ensures=[("tensor-is-sum-of-assembly-terms",
                  "forall((a, b, c, d), %s, result[a,b,c,d] == Sum(mm, range(0, Nb), %s))" % (R4, REL_M.format(m="mm"))),
                 ("parallel-region-closed", "cfg.parallel_region == old(cfg.parallel_region)")],
        loops={0: dict(inv=["forall((a, b, c, d), %s, RR[a,b,c,d] == Sum(mm, range(0, _i), %s))"
                            % (R4, REL_M.format(m="mm"))],
                       modifies=["RR"])}))


def lemma_redfield(ctx):
    """the postcondition of _convert_operators_2_tensor + what _implementation establishes about its arguments
    (Km real by dtype, Ld = Lm^dagger) are the hypotheses of the Lean lemmas redfield_trace / redfield_herm"""
    def setup(S):
        nb, na = S.int("Nb"), S.int("Na")
        return dict(Nb=nb, Na=na, N=na, Km=S.array("Km", (nb, na, na), "real"), Lm=S.array("Lm", (nb, na, na), "cx"),
                    Ld=S.array("Ld", (nb, na, na), "cx"), R=S.array("R", (na, na, na, na), "cx"),
                    K=None, L=None)

    def setup2(S):
        d = setup(S)
        d["K"], d["L"] = d["Km"], d["Lm"]
        return d
    post = ["Na >= 0", "Nb >= 0",
            "forall((a, b, c, d), %s, R[a,b,c,d] == Sum(mm, range(0, Nb), %s))" % (R4, REL_M.format(m="mm")),
            "forall((m, i, j), (range(0, Nb), range(0, Na), range(0, Na)), Ld[m,i,j] == conj(Lm[m,j,i]))"]
    ctx.used_lemmas = set(getattr(ctx, "used_lemmas", ())) | {"redfield_trace", "redfield_herm"}
    goals = list(lemmalib.LEMMAS["redfield_herm"]["hyps"])
    return clause_lemma(ctx, "convert-post-gives-lemma-hypotheses", setup2, post, goals,
                        where="props/C01.py (over the contract of _convert_operators_2_tensor)")


def plan(ctx):
    p = Plan("C01")
    contracts(ctx.registry)
    p.functions = [RT + "_loopit", RT + "RedfieldRelaxationTensor._convert_operators_2_tensor"]
    p.lemmas = [lemma_redfield]
    return p
