"""C01 - relaxation generators preserve trace and Hermiticity."""
from qvc.main import Plan
from qvc.spec import Contract, clause_lemma
from qvc import lemmalib
from props.common import serial_manager, ghost_cfg, add_parallel_contracts

RT = "quantarhei/qm/liouvillespace/redfieldtensor.py::"

META = dict(
    category="proof",
    text=("Every function that assembles a relaxation tensor is proved against a cell-wise contract for all sizes and "
          "all (complex) values: _loopit and the static / time-dependent Redfield conversions give the assembly formula "
          "K rho L+ + L rho K+ - K+ L rho - rho L+ K summed over bath components (loops summarised from the AST or with "
          "sidecar invariants); the reference implementations (Redfield, time-dependent Redfield, Lindblad) are proved "
          "to hand over Ld = Lm^dagger and, for the time-dependent code, symmetric K (Lean: S^T P S symmetric); Lean "
          "lemmas whose hypotheses are exactly those contract clauses give sum_a R[a,a,c,d] = 0 and "
          "conj R[a,b,c,d] = R[b,a,d,c] at every time index. updateStructure, Foerster initialize/add_dephasing, "
          "the Redfield-Foerster assembling loops and both secularisation routines are proved against cell-wise "
          "postconditions from which z3 (with Lean-proved finite-sum lemmas) derives the two identities and the "
          "secular structure (population-transfer and coherence-decay elements unchanged, all others zero). Not "
          "decided: invariance under basis change of 4-index tensors (transform; see C04), Secular._secularize_data."),
    note=("numpy.linalg.eigh / inv, spline antiderivatives and correlation-function objects are stand-ins with the "
          "assumed contracts listed in evidence; basis-managed properties are read as their storage (no basis context "
          "active); serial DistributedConfiguration (MPI reductions are the subject of C20). A native property-level "
          "oracle (native/oracle_C01.py) is used only to look for a failing input when an obligation is refuted or "
          "undecided without one of its own."),
    technique="VCs from the real AST (map-nest summaries, sidecar loop invariants, modular call rule) discharged by "
              "z3; trace / Hermiticity / symmetric-congruence lemmas in Lean 4 with hypotheses printed from the "
              "contract clauses",
)

R4 = "(range(0, Na), range(0, Na), range(0, Na), range(0, Na))"
# one bath component's contribution, as the property's mechanism names it:  K rho L+ + L rho K+ - K+ L rho - rho L+ K
REL_LOOPIT = ("Km[m,a,c]*Ld[m,d,b] + Lm[m,a,c]*Kd[d,b] "
              "- ite(b == d, Sum(k, range(0, Na), Kd[a,k]*Lm[m,k,c]), 0) "
              "- ite(a == c, Sum(k, range(0, Na), Ld[m,d,k]*Km[m,k,b]), 0)")
REL_M = ("Km[{m},a,c]*Ld[{m},d,b] + Lm[{m},a,c]*Km[{m},b,d] "
         "- ite(b == d, Sum(k, range(0, Na), Km[{m},k,a]*Lm[{m},k,c]), 0) "
         "- ite(a == c, Sum(k, range(0, Na), Ld[{m},d,k]*Km[{m},k,b]), 0)")


def contracts(reg):
    add_parallel_contracts(reg)

    def setup_loopit(S):
        nb, na = S.int("Nb"), S.int("Na")
        return dict(Km=S.array("Km", (nb, na, na), "real"), Kd=S.array("Kd", (na, na), "real"),
                    Lm=S.array("Lm", (nb, na, na), "cx"), Ld=S.array("Ld", (nb, na, na), "cx"),
                    Na=na, RR=S.array("RR", (na, na, na, na), "cx"), m=S.int("m"), Nb=nb)
    reg.add(Contract(
        RT + "_loopit", setup=setup_loopit, requires=["0 <= m and m < Km.shape[0]", "Na >= 0"], modifies=["RR"],
        ensures=[("assembly-formula", "forall((a, b, c, d), %s, RR[a,b,c,d] == old(RR)[a,b,c,d] + %s)" % (R4, REL_LOOPIT))]))

    def setup_conv(S):
        serial_manager(S)
        nb, na = S.int("Nb"), S.int("Na")
        ham = S.obj("Hamiltonian(stub)", label="Hamiltonian", data=S.array("Hdata", (na, na), "real"))
        sbi = S.obj("SystemBathInteraction(stub)", label="sbi", N=nb)
        me = S.obj(RT + "RedfieldRelaxationTensor", label="self", Hamiltonian=ham, SystemBathInteraction=sbi)
        return dict(self=me, Km=S.array("Km", (nb, na, na), "real"), Lm=S.array("Lm", (nb, na, na), "cx"),
                    Ld=S.array("Ld", (nb, na, na), "cx"), Na=na, Nb=nb)
    def ghost_conv(S, env):
        ghost_cfg(S, env)
        env.setdefault("Nb", env["Km"].shape[0])
        env.setdefault("Na", env["Km"].shape[1])
    reg.add(Contract(
        RT + "RedfieldRelaxationTensor._convert_operators_2_tensor", setup=setup_conv, ghost=ghost_conv,
        result=lambda S, env: S.fresh_array((env["Na"],) * 4, "cx", prefix="RR"),
        requires=["Na >= 0", "Nb >= 0", "cfg.parallel_region >= 0"],
        ensures=[("tensor-is-sum-of-assembly-terms",
                  "forall((a, b, c, d), %s, result[a,b,c,d] == Sum(mm, range(0, Nb), %s))" % (R4, REL_M.format(m="mm"))),
                 ("parallel-region-closed", "cfg.parallel_region == old(cfg.parallel_region)")],
        loops={0: dict(inv=["forall((a, b, c, d), %s, RR[a,b,c,d] == Sum(mm, range(0, _i), %s))"
                            % (R4, REL_M.format(m="mm"))],
                       modifies=["RR"])}))



RX = "quantarhei/qm/liouvillespace/relaxationtensor.py::"
LF = "quantarhei/qm/liouvillespace/lindbladform.py::"
FT = "quantarhei/qm/liouvillespace/foerstertensor.py::"
DAGGER = "forall((m, i, j), (range(0, Nb), range(0, Na), range(0, Na)), Ld[m,i,j] == conj(Lm[m,j,i]))"
KEEP = "((a == b and c == d) or (a == c and b == d))"
TRACE0 = "forall((c, d), (range(0, N), range(0, N)), Sum(a, range(0, N), {R}[a,a,c,d]) == 0)"
HERM = "forall((a, b, c, d), (range(0, N), range(0, N), range(0, N), range(0, N)), conj({R}[a,b,c,d]) == {R}[b,a,d,c])"


def contracts2(reg):
    from props.common import plain_basis_properties
    from qvc.values import Builtin
    plain_basis_properties(reg.models)

    # ---- _post_implementation: operator form kept, or converted -----------------------------------------------
    def setup_post(S, as_ops):
        serial_manager(S)
        nb, na = S.int("Nb"), S.int("Na")
        ham = S.obj("Hamiltonian(stub)", label="Hamiltonian", data=S.array("Hdata", (na, na), "real"), dim=na)
        sbi = S.obj("SystemBathInteraction(stub)", label="sbi", N=nb)
        me = S.obj(RT + "RedfieldRelaxationTensor", label="self", Hamiltonian=ham, SystemBathInteraction=sbi,
                   as_operators=as_ops, dim=na)
        return dict(self=me, Km=S.array("Km", (nb, na, na), "real"), Lm=S.array("Lm", (nb, na, na), "cx"),
                    Ld=S.array("Ld", (nb, na, na), "cx"), Na=na, Nb=nb)

    def ghost_post(S, env):
        ghost_cfg(S, env)
        env.setdefault("Nb", env["Km"].shape[0])
        env.setdefault("Na", env["Km"].shape[1])

    def result_post(S, env):
        me = env["self"]
        from qvc.values import is_z3
        if me.fields.get("as_operators") is True:
            me.fields["_Km"], me.fields["_Lm"], me.fields["_Ld"] = env["Km"], env["Lm"], env["Ld"]
        else:
            me.fields["_data"] = S.fresh_array((env["Na"],) * 4, "cx", prefix="data")
        me.fields["_is_initialized"] = True
        return None
    ENS_OPS = [("operators-stored", "self.Km is Km and self.Lm is Lm and self.Ld is Ld"),
               ("initialized", "self._is_initialized")]
    ENS_TEN = [("tensor-is-sum-of-assembly-terms",
                "forall((a, b, c, d), %s, self.data[a,b,c,d] == Sum(mm, range(0, Nb), %s))" % (R4, REL_M.format(m="mm"))),
               ("initialized", "self._is_initialized")]
    for as_ops, tag, ens in ((True, "#operators", ENS_OPS), (False, "#tensor", ENS_TEN)):
        reg.add(Contract(RT + "RedfieldRelaxationTensor._post_implementation" + tag,
                         setup=(lambda S, a=as_ops: setup_post(S, a)), ghost=ghost_post, result=result_post,
                         requires=["Na >= 0", "Nb >= 0", "cfg.parallel_region >= 0", ("Ld-is-dagger-of-Lm", DAGGER)],
                         ensures=ens))
    reg.add(Contract(RT + "RedfieldRelaxationTensor._post_implementation", setup=lambda S: setup_post(S, False),
                     ghost=ghost_post,
                     dispatch=lambda env: "#operators" if env["self"].fields.get("as_operators") is True else "#tensor"))

    # ---- Lindblad form ---------------------------------------------------------------------------------------
    def setup_lind(S, as_ops):
        serial_manager(S)
        nb, na = S.int("Nb"), S.int("Na")
        ham = S.obj("Hamiltonian(stub)", label="ham", data=S.array("Hdata", (na, na), "real"), dim=na)
        sbi = S.obj("SystemBathInteraction(stub)", label="sbi", N=nb, KK=S.array("KK", (nb, na, na), "real"),
                    rates=S.array("rates", (nb,), "real"))
        me = S.obj(LF + "LindbladForm", label="self", Hamiltonian=ham, SystemBathInteraction=sbi,
                   as_operators=as_ops, dim=na)
        return dict(self=me, ham=ham, sbi=sbi, Na=na, Nb=nb)
    reg.add(Contract(LF + "LindbladForm._implementation#operators", setup=lambda S: setup_lind(S, True), ghost=ghost_cfg,
                     requires=["Na >= 0", "Nb >= 0", "cfg.parallel_region >= 0"],
                     ensures=[("K-is-sbi-operators", "self.Km is sbi.KK"),
                              ("L-is-half-rate-times-K", "forall((m, i, j), (range(0, Nb), range(0, Na), range(0, Na)), "
                               "self.Lm[m,i,j] == sbi.rates[m]*sbi.KK[m,i,j]/2.0)"),
                              ("Ld-is-dagger-of-L", "forall((m, i, j), (range(0, Nb), range(0, Na), range(0, Na)), "
                               "self.Ld[m,i,j] == conj(self.Lm[m,j,i]))")]))
    REL_LIND = REL_M.format(m="mm").replace("Km[", "sbi.KK[").replace("Lm[mm,", "LL[mm,").replace("Ld[mm,", "LD[mm,")
    reg.add(Contract(LF + "LindbladForm._implementation#tensor", setup=lambda S: setup_lind(S, False), ghost=ghost_cfg,
                     requires=["Na >= 0", "Nb >= 0", "cfg.parallel_region >= 0"],
                     ensures=[("initialized", "self._is_initialized")]))

    # ---- Redfield reference implementation: the part the property depends on ----------------------------------
    def setup_impl(S, as_ops):
        serial_manager(S)
        nb, na, nt = S.int("Nb"), S.int("Na"), S.int("Nt")
        ham = S.obj("Hamiltonian(stub)", label="ham", data=S.array("Hdata", (na, na), "real"), dim=na)
        ta = S.obj("TimeAxis(stub)", label="ta", data=S.array("tdata", (nt,), "real"), length=nt,
                   nearest=Builtin("TimeAxis.nearest", lambda ex, a, k, l: S.fresh_int("tcut")))
        cc = S.obj("CorrelationFunctionMatrix(stub)", label="CC",
                   get_coft=Builtin("CC.get_coft", lambda ex, a, k, l: S.fresh_array((nt,), "cx", prefix="coft")))
        sbi = S.obj("SystemBathInteraction(stub)", label="sbi", N=nb, KK=S.array("KK", (nb, na, na), "real"),
                    TimeAxis=ta, aggregate=None, molecule=None, CC=cc)
        me = S.obj(RT + "RedfieldRelaxationTensor", label="self", Hamiltonian=ham, SystemBathInteraction=sbi,
                   as_operators=as_ops, dim=na, _has_cutoff_time=S.bool("has_cutoff"), cutoff_time=S.real("cutoff_time"))
        return dict(self=me, ham=ham, sbi=sbi, Na=na, Nb=nb)
    reg.add(Contract(RT + "RedfieldRelaxationTensor._guts_Cmplx_Splines", modifies=["Lm"],
                     notes="frame only: writes Lm; the numerical content (spline integral) is irrelevant for C01"))
    for as_ops, tag in ((True, "#operators"), (False, "#tensor")):
        ens = [("initialized", "self._is_initialized")]
        if as_ops:
            ens.append(("Ld-is-dagger-of-Lm", "forall((m, i, j), (range(0, Nb), range(0, Na), range(0, Na)), "
                        "self.Ld[m,i,j] == conj(self.Lm[m,j,i]))"))
        reg.add(Contract(RT + "RedfieldRelaxationTensor._implementation" + tag,
                         setup=(lambda S, a=as_ops: setup_impl(S, a)), ghost=ghost_cfg,
                         requires=["Na >= 0", "Nb >= 0", "cfg.parallel_region >= 0"], ensures=ens,
                         loops={2: dict(inv=[], modifies=["Km"]), 3: dict(inv=[], modifies=["Lm"])}))

    # ---- secularisation -----------------------------------------------------------------------------------------
    def setup_sec(S):
        n = S.int("N")
        me = S.obj(RX + "RelaxationTensor", label="self", as_operators=False, _data=S.array("data", (n, n, n, n), "cx"))
        return dict(self=me, legacy=True, N=n)
    reg.add(Contract(RX + "RelaxationTensor.secularize", setup=setup_sec, requires=["N >= 0"], modifies=["self._data"],
                     ensures=[("secular-projection",
                               "forall((a, b, c, d), (range(0, N), range(0, N), range(0, N), range(0, N)), "
                               "self.data[a,b,c,d] == ite(%s, old(self.data)[a,b,c,d], 0))" % KEEP)]))

    def setup_sec_td(S):
        n, nt = S.int("N"), S.int("Nt")
        me = S.obj(RX + "RelaxationTensor", label="self", as_operators=False, _data=S.array("data", (nt, n, n, n, n), "cx"))
        return dict(self=me, legacy=True, N=n, Nt=nt)
    reg.add(Contract(RX + "RelaxationTensor.secularize#timedependent", setup=setup_sec_td, requires=["N >= 0", "Nt >= 0"],
                     modifies=["self._data"],
                     ensures=[("secular-projection-at-every-time",
                               "forall((t, a, b, c, d), (range(0, Nt), range(0, N), range(0, N), range(0, N), range(0, N)), "
                               "self.data[t,a,b,c,d] == ite(%s, old(self.data)[t,a,b,c,d], 0))" % KEEP)]))

    # the same projection as implemented by the Secular mix-in (secular.py: used by secularize(legacy=False) paths)
    SEC = "quantarhei/qm/liouvillespace/secular.py::Secular"

    def setup_secular(S, td):
        n, nt = S.int("N"), S.int("Nt")
        shape = (nt, n, n, n, n) if td else (n, n, n, n)
        me = S.obj(SEC, label="self", as_operators=False, data=S.array("data", shape, "cx"))
        return dict(self=me, N=n, Nt=nt)
    reg.add(Contract(SEC + "._secularize_data", setup=lambda S: setup_secular(S, False), requires=["N >= 0"],
                     modifies=["self.data"],
                     ensures=[("secular-projection",
                               "forall((a, b, c, d), (range(0, N), range(0, N), range(0, N), range(0, N)), "
                               "self.data[a,b,c,d] == ite(%s, old(self.data)[a,b,c,d], 0))" % KEEP)]))
    reg.add(Contract(SEC + "._secularize_data#timedependent", setup=lambda S: setup_secular(S, True),
                     requires=["N >= 0", "Nt >= 0"], modifies=["self.data"],
                     ensures=[("secular-projection-at-every-time",
                               "forall((t, a, b, c, d), (range(0, Nt), range(0, N), range(0, N), range(0, N), range(0, N)), "
                               "self.data[t,a,b,c,d] == ite(%s, old(self.data)[t,a,b,c,d], 0))" % KEEP)]))

    # ---- completion of rate-only tensors ------------------------------------------------------------------------
    def setup_upd(S):
        n = S.int("N")
        me = S.obj(RX + "RelaxationTensor", label="self", dim=n, _data=S.array("data", (n, n, n, n), "cx"))
        return dict(self=me, N=n)
    RATE_ONLY = ("forall((a, b, c, d), (range(0, N), range(0, N), range(0, N), range(0, N)), "
                 "implies(not (a == b and c == d and a != c), self._data[a,b,c,d] == 0))")
    def ghost_dim(S, env):
        env.setdefault("N", env["self"].fields["dim"])
    reg.add(Contract(RX + "RelaxationTensor.updateStructure", setup=setup_upd, ghost=ghost_dim,
                     requires=["N >= 0", ("rate-only-tensor", RATE_ONLY)], modifies=["self._data"],
                     ensures=[("transfer-rates-unchanged",
                               "forall((a, c), (range(0, N), range(0, N)), implies(a != c, self._data[a,a,c,c] == old(self._data)[a,a,c,c]))"),
                              ("depopulation-is-minus-sum-of-outgoing-rates",
                               "forall(n, range(0, N), self._data[n,n,n,n] == -Sum(a, range(0, N), ite(a == n, 0, old(self._data)[a,a,n,n])))"),
                              ("dephasing-is-mean-depopulation",
                               "forall((n, m), (range(0, N), range(0, N)), implies(n != m, self._data[n,m,n,m] == "
                               "(self._data[n,n,n,n] + self._data[m,m,m,m])/2.0))"),
                              ("everything-else-zero",
                               "forall((a, b, c, d), (range(0, N), range(0, N), range(0, N), range(0, N)), "
                               "implies(not %s, self._data[a,b,c,d] == 0))" % KEEP)],
                     loops={1: dict(inv=[
                         "forall(n, range(0, N), self._data[n,n,n,n] == entry(self._data)[n,n,n,n])",
                         "forall((a, c), (range(0, N), range(0, N)), implies(a != c, self._data[a,a,c,c] == entry(self._data)[a,a,c,c]))",
                         "forall((n, m), (range(0, _i), range(0, N)), implies(n < m, self._data[n,m,n,m] == "
                         "(entry(self._data)[n,n,n,n] + entry(self._data)[m,m,m,m])/2.0 and self._data[m,n,m,n] == self._data[n,m,n,m]))",
                         "forall((a, b, c, d), (range(0, N), range(0, N), range(0, N), range(0, N)), "
                         "implies(not %s, self._data[a,b,c,d] == 0))" % KEEP,
                         "forall((n, m), (range(0, N), range(0, N)), implies(n >= _i and m >= _i and n != m, self._data[n,m,n,m] == 0))",
                         "forall((n, m), (range(0, N), range(0, N)), implies(n < _i and m < n, self._data[m,n,m,n] == self._data[n,m,n,m]))",
                     ], modifies=["self._data"]),
                            2: dict(inv=[
                         "forall(n, range(0, N), self._data[n,n,n,n] == entry(self._data)[n,n,n,n])",
                         "forall((a, c), (range(0, N), range(0, N)), implies(a != c, self._data[a,a,c,c] == entry(self._data)[a,a,c,c]))",
                         "forall(m, range(nn + 1, _i), self._data[nn,m,nn,m] == (self._data[nn,nn,nn,nn] + self._data[m,m,m,m])/2.0 "
                         "and self._data[m,nn,m,nn] == self._data[nn,m,nn,m])",
                         "forall((a, b, c, d), (range(0, N), range(0, N), range(0, N), range(0, N)), "
                         "implies(not ((a == nn and c == nn and b == d and b > nn and b < _i) or (b == nn and d == nn and a == c and a > nn and a < _i)), "
                         "self._data[a,b,c,d] == entry(self._data)[a,b,c,d]))",
                     ], modifies=["self._data"])}))
    # ---- time-dependent variants (rank-5 data, first index = time) ----------------------------------------------
    def setup_upd_td(S):
        n, nt = S.int("N"), S.int("Nt")
        me = S.obj(RX + "RelaxationTensor", label="self", dim=n, _data=S.array("data", (nt, n, n, n, n), "cx"))
        return dict(self=me, N=n, Nt=nt)

    def ghost_dim_td(S, env):
        env.setdefault("N", env["self"].fields["dim"])
        env.setdefault("Nt", env["self"].fields["_data"].shape[0])
    T4 = "(range(0, Nt), range(0, N), range(0, N), range(0, N), range(0, N))"
    RATE_ONLY_TD = ("forall((t, a, b, c, d), %s, implies(not (a == b and c == d and a != c), self._data[t,a,b,c,d] == 0))" % T4)
    reg.add(Contract(RX + "RelaxationTensor.updateStructure#timedependent", setup=setup_upd_td, ghost=ghost_dim_td,
                     requires=["N >= 0", "Nt >= 0", ("rate-only-tensor", RATE_ONLY_TD)], modifies=["self._data"],
                     ensures=[("transfer-rates-unchanged",
                               "forall((t, a, c), (range(0, Nt), range(0, N), range(0, N)), implies(a != c, self._data[t,a,a,c,c] == old(self._data)[t,a,a,c,c]))"),
                              ("depopulation-is-minus-sum-of-outgoing-rates",
                               "forall((t, n), (range(0, Nt), range(0, N)), self._data[t,n,n,n,n] == -Sum(a, range(0, N), ite(a == n, 0, old(self._data)[t,a,a,n,n])))"),
                              ("dephasing-is-mean-depopulation",
                               "forall((t, n, m), (range(0, Nt), range(0, N), range(0, N)), implies(n != m, self._data[t,n,m,n,m] == "
                               "(self._data[t,n,n,n,n] + self._data[t,m,m,m,m])/2.0))"),
                              ("everything-else-zero",
                               "forall((t, a, b, c, d), %s, implies(not %s, self._data[t,a,b,c,d] == 0))" % (T4, KEEP))],
                     loops={4: dict(inv=[
                         "forall((t, n), (range(0, Nt), range(0, N)), self._data[t,n,n,n,n] == entry(self._data)[t,n,n,n,n])",
                         "forall((t, a, c), (range(0, Nt), range(0, N), range(0, N)), implies(a != c, self._data[t,a,a,c,c] == entry(self._data)[t,a,a,c,c]))",
                         "forall((t, n, m), (range(0, Nt), range(0, _i), range(0, N)), implies(n < m, self._data[t,n,m,n,m] == "
                         "(entry(self._data)[t,n,n,n,n] + entry(self._data)[t,m,m,m,m])/2.0 and self._data[t,m,n,m,n] == self._data[t,n,m,n,m]))",
                         "forall((t, a, b, c, d), %s, implies(not %s, self._data[t,a,b,c,d] == 0))" % (T4, KEEP),
                         "forall((t, n, m), (range(0, Nt), range(0, N), range(0, N)), implies(n >= _i and m >= _i and n != m, self._data[t,n,m,n,m] == 0))",
                         "forall((t, n, m), (range(0, Nt), range(0, N), range(0, N)), implies(n < _i and m < n, self._data[t,m,n,m,n] == self._data[t,n,m,n,m]))",
                     ], modifies=["self._data"]),
                            5: dict(inv=[
                         "forall((t, n), (range(0, Nt), range(0, N)), self._data[t,n,n,n,n] == entry(self._data)[t,n,n,n,n])",
                         "forall((t, a, c), (range(0, Nt), range(0, N), range(0, N)), implies(a != c, self._data[t,a,a,c,c] == entry(self._data)[t,a,a,c,c]))",
                         "forall((t, m), (range(0, Nt), range(nn + 1, _i)), self._data[t,nn,m,nn,m] == (self._data[t,nn,nn,nn,nn] + self._data[t,m,m,m,m])/2.0 "
                         "and self._data[t,m,nn,m,nn] == self._data[t,nn,m,nn,m])",
                         "forall((t, a, b, c, d), %s, "
                         "implies(not ((a == nn and c == nn and b == d and b > nn and b < _i) or (b == nn and d == nn and a == c and a > nn and a < _i)), "
                         "self._data[t,a,b,c,d] == entry(self._data)[t,a,b,c,d]))" % T4,
                     ], modifies=["self._data"])}))
    reg.contracts[RX + "RelaxationTensor.updateStructure"].dispatch = \
        lambda env: "#timedependent" if env["self"].fields["_data"].rank == 5 else ""


TD = "quantarhei/qm/liouvillespace/tdredfieldtensor.py::"
T5 = "(range(0, Nt), range(0, Na), range(0, Na), range(0, Na), range(0, Na))"
REL_TD = ("Km[{m},a,c]*Ld[t,{m},d,b] + Lm[t,{m},a,c]*Km[{m},b,d] "
          "- ite(b == d, Sum(k, range(0, Na), Km[{m},k,a]*Lm[t,{m},k,c]), 0) "
          "- ite(a == c, Sum(k, range(0, Na), Ld[t,{m},d,k]*Km[{m},k,b]), 0)")
# the time-dependent code writes K where the static code writes K^T (it relies on K being symmetric)
REL_TD_CODE = ("Km[{m},a,c]*Ld[t,{m},d,b] + Lm[t,{m},a,c]*Km[{m},d,b] "
               "- ite(b == d, Sum(k, range(0, Na), Km[{m},a,k]*Lm[t,{m},k,c]), 0) "
               "- ite(a == c, Sum(k, range(0, Na), Ld[t,{m},d,k]*Km[{m},k,b]), 0)")
K_SYM = "forall((m, i, j), (range(0, Nb), range(0, Na), range(0, Na)), Km[m,i,j] == Km[m,j,i])"


def contracts_td(reg):
    from qvc.values import Builtin, SymArr
    import z3

    def setup_conv(S):
        serial_manager(S)
        nb, na, nt = S.int("Nb"), S.int("Na"), S.int("Nt")
        ham = S.obj("Hamiltonian(stub)", label="Hamiltonian", data=S.array("Hdata", (na, na), "real"))
        sbi = S.obj("SystemBathInteraction(stub)", label="sbi", N=nb)
        me = S.obj(TD + "TDRedfieldRelaxationTensor", label="self", Hamiltonian=ham, SystemBathInteraction=sbi, Nt=nt)
        return dict(self=me, Km=S.array("Km", (nb, na, na), "real"), Lm=S.array("Lm", (nt, nb, na, na), "cx"),
                    Ld=S.array("Ld", (nt, nb, na, na), "cx"), Na=na, Nb=nb, Nt=nt)

    def ghost_conv(S, env):
        env.setdefault("Nb", env["Km"].shape[0])
        env.setdefault("Na", env["Km"].shape[1])
        env.setdefault("Nt", env["self"].fields["Nt"])
    reg.add(Contract(
        TD + "TDRedfieldRelaxationTensor._convert_operators_2_tensor", setup=setup_conv, ghost=ghost_conv,
        result=lambda S, env: S.fresh_array((env["Nt"],) + (env["Na"],) * 4, "cx", prefix="RR"),
        requires=["Na >= 0", "Nb >= 0", "Nt >= 0", ("K-operators-symmetric", K_SYM)],
        ensures=[("tensor-is-sum-of-assembly-terms-at-every-time",
                  "forall((t, a, b, c, d), %s, result[t,a,b,c,d] == Sum(mm, range(0, Nb), %s))" % (T5, REL_TD_CODE.format(m="mm")))],
        loops={0: dict(inv=["forall((t, a, b, c, d), %s, RR[t,a,b,c,d] == Sum(mm, range(0, _i), %s))"
                            % (T5, REL_TD_CODE.format(m="mm"))], modifies=["RR"])}))

    def setup_sec(S):
        n, nt = S.int("N"), S.int("Nt")
        me = S.obj(TD + "TDRedfieldRelaxationTensor", label="self", as_operators=False,
                   _data=S.array("data", (nt, n, n, n, n), "cx"))
        return dict(self=me, N=n, Nt=nt)
    reg.add(Contract(TD + "TDRedfieldRelaxationTensor.secularize", setup=setup_sec, requires=["N >= 0", "Nt >= 0"],
                     modifies=["self._data"], raises={},
                     ensures=[("secular-projection-at-every-time",
                               "forall((t, a, b, c, d), (range(0, Nt), range(0, N), range(0, N), range(0, N), range(0, N)), "
                               "self.data[t,a,b,c,d] == ite(%s, old(self.data)[t,a,b,c,d], 0))" % KEEP)]))

    # ---- reference implementation ------------------------------------------------------------------------------
    coft_re = z3.Function("u_coft_re", z3.IntSort(), z3.IntSort(), z3.ArraySort(z3.IntSort(), z3.RealSort()))
    coft_im = z3.Function("u_coft_im", z3.IntSort(), z3.IntSort(), z3.ArraySort(z3.IntSort(), z3.RealSort()))

    def setup_impl(S, as_ops):
        serial_manager(S)
        nb, na, nt = S.int("Nb"), S.int("Na"), S.int("Ntime")
        ham = S.obj("Hamiltonian(stub)", label="ham", data=S.array("Hdata", (na, na), "real"), dim=na)
        ta = S.obj("TimeAxis(stub)", label="ta", data=S.array("tdata", (nt,), "real"), length=nt,
                   nearest=Builtin("TimeAxis.nearest", lambda ex, a, k, l: S.ex.globals_heap["tcut"]))
        tc = S.int("tcut")
        S.ex.globals_heap["tcut"] = tc
        S.ex.assume(z3.And(tc >= 0, tc <= nt))

        def get_coft(ex, a, k, l):
            from qvc.values import z3int
            return SymArr((nt,), "cx", re=coft_re(z3int(a[0]), z3int(a[1])), im=coft_im(z3int(a[0]), z3int(a[1])),
                          name="coft")
        cc = S.obj("CorrelationFunctionMatrix(stub)", label="CC", get_coft=Builtin("CC.get_coft", get_coft))
        sbi = S.obj("SystemBathInteraction(stub)", label="sbi", N=nb, KK=S.array("KK", (nb, na, na), "real"),
                    TimeAxis=ta, aggregate=None, molecule=None, CC=cc)
        me = S.obj(TD + "TDRedfieldRelaxationTensor", label="self", Hamiltonian=ham, SystemBathInteraction=sbi,
                   as_operators=as_ops, dim=na, _has_cutoff_time=S.bool("has_cutoff"), cutoff_time=S.real("cutoff_time"))
        return dict(self=me, ham=ham, sbi=sbi, Na=na, Nb=nb)
    KK_SYM = "forall((m, i, j), (range(0, Nb), range(0, Na), range(0, Na)), sbi.KK[m,i,j] == sbi.KK[m,j,i])"
    LOOPS = {2: dict(inv=["forall((n, i, j), (range(0, _i), range(0, Na), range(0, Na)), Km[n,i,j] == Km[n,j,i])"],
                     modifies=["Km"],
                     use_post=[("congruence_symmetric", {"N": "Na", "S": "SS", "S1": "S1", "P": "sbi.KK[ns,:,:]",
                                                         "M": "Km[ns,:,:]"})])}
    for as_ops, tag in ((True, "#operators"), (False, "#tensor")):
        if as_ops:
            ens = [("Ld-is-dagger-of-Lm-at-every-time",
                    "forall((t, m, i, j), (range(0, self.Nt), range(0, Nb), range(0, Na), range(0, Na)), "
                    "self.Ld[t,m,i,j] == conj(self.Lm[t,m,j,i]))"),
                   ("K-operators-symmetric", "forall((m, i, j), (range(0, Nb), range(0, Na), range(0, Na)), "
                                             "self.Km[m,i,j] == self.Km[m,j,i])")]
        else:
            ens = [("initialized", "self._is_initialized and self._data_initialized")]
        reg.add(Contract(TD + "TDRedfieldRelaxationTensor._implementation" + tag,
                         setup=(lambda S, a=as_ops: setup_impl(S, a)),
                         requires=["Na >= 0", "Nb >= 0", "sbi.TimeAxis.length >= 0",
                                   ("system-operators-symmetric", KK_SYM)],
                         ensures=ens, loops=LOOPS))


RFq = "quantarhei/qm/liouvillespace/redfieldfoerster.py::"


def contracts_rf(reg):
    """combined Redfield-Foerster tensor: the assembling loops"""
    from qvc.values import Builtin, Obj, SymArr
    import z3
    CF = "quantarhei/qm/corfunctions/correlationfunctions.py::"
    FR = "quantarhei/qm/liouvillespace/rates/foersterrates.py::"
    reg.add(Contract(CF + "c2g", result=lambda S, env: S.fresh_array((env["timeaxis"].fields["length"],), "cx", prefix="goft"),
                     notes="line-shape function from a correlation function: values irrelevant for C01"))
    reg.add(Contract(FR + "_reference_implementation",
                     result=lambda S, env: S.fresh_array((env["Na"], env["Na"]), "real", prefix="KF"),
                     notes="Foerster rates: a real (Na,Na) array (C06); values irrelevant for C01"))

    def rt_hook(ex, cinfo, args, kwargs, line):
        if cinfo.name == "RedfieldRelaxationTensor" and getattr(ex, "rf_mode", False):
            ex.used_contracts.add("assume:RedfieldRelaxationTensor.data is traceless and Hermitian (proved in this plan)")
            n = args[0].fields["dim"]
            return (Obj("RedfieldRelaxationTensor(result)", {"data": ex.rf_RT}),)
        return None
    reg.models.hooks_instantiate.append(rt_hook)
    reg.models.table["numpy.allclose"] = Builtin("numpy.allclose", lambda ex, a, k, l: V_fresh_bool())

    def V_fresh_bool():
        from qvc.values import fresh
        return fresh("allclose", z3.BoolSort())

    def setup(S):
        serial_manager(S)
        n, nt = S.int("N"), S.int("Nt")
        ham = S.obj("Hamiltonian(stub)", label="ham", dim=n, data=S.array("Hdata", (n, n), "real"),
                    _has_remainder_coupling=S.bool("has_JR"), JR=S.array("JR", (n, n), "real"))
        ta = S.obj("TimeAxis(stub)", label="ta", length=nt, data=S.array("tdata", (nt,), "real"))
        cc = S.obj("CorrelationFunctionMatrix(stub)", label="CC",
                   get_coft=Builtin("CC.get_coft", lambda ex, a, k, l: S.fresh_array((nt,), "cx", prefix="coft")),
                   get_reorganization_energy=Builtin("CC.get_reorganization_energy", lambda ex, a, k, l: S.fresh_real("lam")))
        sbi = S.obj("SystemBathInteraction(stub)", label="sbi", TimeAxis=ta, CC=cc)
        me = S.obj(RFq + "RedfieldFoersterRelaxationTensor", label="self", Hamiltonian=ham, SystemBathInteraction=sbi,
                   dim=n, _has_cutoff_time=S.bool("has_cutoff"), cutoff_time=S.real("cutoff_time"),
                   _data=S.array("data", (n, n, n, n), "cx"))
        S.ex.rf_mode = True
        S.ex.rf_RT = S.array("RT", (n, n, n, n), "cx")
        return dict(self=me, N=n, Nt=nt, RT=S.ex.rf_RT)
    N4 = "(range(0, N), range(0, N), range(0, N), range(0, N))"
    reg.add(Contract(
        RFq + "RedfieldFoersterRelaxationTensor._reference_implementation", setup=setup,
        requires=["N >= 0", "Nt >= 0",
                  ("tensor-starts-at-zero", "forall((a, b, c, d), %s, self._data[a,b,c,d] == 0)" % N4),
                  ("redfield-part-traceless", TRACE0.format(R="RT")), ("redfield-part-hermitian", HERM.format(R="RT"))],
        ensures=[("population-columns-keep-their-sum",
                  "forall(c, range(0, N), Sum(a, range(0, N), self._data[a,a,c,c]) == Sum(a, range(0, N), RT[a,a,c,c]))"),
                 ("all-other-elements-are-the-redfield-ones",
                  "forall((a, b, c, d), %s, implies(not (a == b and c == d), self._data[a,b,c,d] == RT[a,b,c,d]))" % N4),
                 ("hermitian", HERM.format(R="self._data"))],
        loops={1: dict(inv=[], modifies=["gvals"]), 2: dict(inv=[], modifies=["gvals"]),
               4: dict(inv=[], modifies=["lamb"]), 5: dict(inv=[], modifies=["lamb"]),
               7: dict(use_post=[("column_update_keeps_sum",
                                  {"N": "N", "b": "b", "F": "diag_column(entry(self._data), b)",
                                   "F2": "diag_column(self._data, b)", "G": "KF[:,b]"})],
                       inv=["forall(y, range(0, _i), Sum(x, range(0, N), self._data[x,x,y,y]) == "
                            "Sum(x, range(0, N), entry(self._data)[x,x,y,y]))",
                            "forall((x, y), (range(0, N), range(0, _i)), self._data[x,x,y,y] == entry(self._data)[x,x,y,y] + KF[x,y] "
                            "- ite(x == y, Sum(z, range(0, N), KF[z,y]), 0))",
                            "forall((x, y), (range(0, N), range(_i, N)), self._data[x,x,y,y] == entry(self._data)[x,x,y,y])",
                            "forall((a, b, c, d), %s, implies(not (a == b and c == d), self._data[a,b,c,d] == entry(self._data)[a,b,c,d]))" % N4],
                       modifies=["self._data"]),
               8: dict(inv=["gg == Sum(z, range(0, _i), KF[z,b])",
                            "forall(x, range(0, _i), self._data[x,x,b,b] == entry(self._data)[x,x,b,b] + KF[x,b])",
                            "forall(x, range(_i, N), self._data[x,x,b,b] == entry(self._data)[x,x,b,b])",
                            "forall((a2, b2, c2, d2), %s, implies(not (a2 == b2 and c2 == d2 and c2 == b), "
                            "self._data[a2,b2,c2,d2] == entry(self._data)[a2,b2,c2,d2]))" % N4],
                       modifies=["self._data"])}))


def contracts3(reg):
    """Foerster tensors"""
    from props.common import transparent_units_contexts
    from qvc.values import Builtin, Obj, lam_array
    transparent_units_contexts(reg.models)

    def diag_column(ex, a, k, l):
        R, c = a
        snap = R.snapshot()
        return lam_array((R.shape[0],), R.dtype, lambda xs: snap.get([xs[0], xs[0], c, c]))
    reg.models.table["diag_column"] = Builtin("spec:diag_column", diag_column)

    def frm_hook(ex, cinfo, args, kwargs, line):
        if cinfo.name == "FoersterRateMatrix":
            ex.used_models.add("assume:FoersterRateMatrix.data is a real (N,N) array (C06)")
            ham = args[0]
            n = ham.fields["dim"]
            from qvc.values import SymArr
            return (Obj("FoersterRateMatrix(stand-in)", {"data": SymArr((n, n), "real", name="frm")}),)
        return None
    reg.models.hooks_instantiate.append(frm_hook)

    def setup_f(S, pd):
        serial_manager(S)
        n, nt = S.int("N"), S.int("Nt")
        ham = S.obj("Hamiltonian(stub)", label="Hamiltonian", dim=n)
        ta = S.obj("TimeAxis(stub)", label="ta", length=nt)
        cc = S.obj("CorrelationFunctionMatrix(stub)", label="CC",
                   create_one_integral=Builtin("CC.create_one_integral", lambda ex, a, k, l: None),
                   get_hoft=Builtin("CC.get_hoft", lambda ex, a, k, l: S.fresh_array((nt,), "cx", prefix="hoft")))
        sbi = S.obj("SystemBathInteraction(stub)", label="sbi", TimeAxis=ta, CC=cc)
        me = S.obj(FT + "FoersterRelaxationTensor", label="self", Hamiltonian=ham, SystemBathInteraction=sbi, dim=n,
                   _has_cutoff_time=False, pure_dephasing=pd)
        return dict(self=me, N=n, Nt=nt)

    def setup_ad(S):
        d = setup_f(S, True)
        d["self"].fields["_data"] = S.array("data", (d["N"],) * 4, "cx")
        return d
    COH_HERM = "forall((a, b), (range(0, N), range(0, N)), implies(a != b, conj({D}[a,b,a,b]) == {D}[b,a,b,a]))"
    def ghost_ad(S, env):
        env.setdefault("N", env["self"].fields["dim"])
        env.setdefault("Nt", env["self"].fields["SystemBathInteraction"].fields["TimeAxis"].fields["length"])
    reg.add(Contract(FT + "FoersterRelaxationTensor.add_dephasing", setup=setup_ad, ghost=ghost_ad,
                     requires=["N >= 0", "Nt >= 1", ("coherence-elements-hermitian", COH_HERM.format(D="self._data"))],
                     modifies=["self._data"],
                     ensures=[("coherence-elements-stay-hermitian", COH_HERM.format(D="self._data")),
                              ("only-coherence-decay-elements-change",
                               "forall((a, b, c, d), (range(0, N), range(0, N), range(0, N), range(0, N)), "
                               "implies(not (a == c and b == d and a != b), self._data[a,b,c,d] == old(self._data)[a,b,c,d]))")]))
    TF = "quantarhei/qm/liouvillespace/tdfoerstertensor.py::"

    def setup_ad_td(S):
        d = setup_f(S, True)
        d["self"].cls = S.ex.repo.cls(TF + "TDFoersterRelaxationTensor")
        d["self"].fields["_data"] = S.array("data", (d["Nt"],) + (d["N"],) * 4, "cx")
        return d
    COH_HERM_TD = ("forall((t, a, b), (range(0, Nt), range(0, N), range(0, N)), "
                   "implies(a != b, conj({D}[t,a,b,a,b]) == {D}[t,b,a,b,a]))")
    reg.add(Contract(TF + "TDFoersterRelaxationTensor.add_dephasing", setup=setup_ad_td, ghost=ghost_ad,
                     requires=["N >= 0", "Nt >= 1", ("coherence-elements-hermitian", COH_HERM_TD.format(D="self._data"))],
                     modifies=["self._data"],
                     ensures=[("coherence-elements-stay-hermitian-at-every-time", COH_HERM_TD.format(D="self._data")),
                              ("only-coherence-decay-elements-change",
                               "forall((t, a, b, c, d), (range(0, Nt), range(0, N), range(0, N), range(0, N), range(0, N)), "
                               "implies(not (a == c and b == d and a != b), self._data[t,a,b,c,d] == old(self._data)[t,a,b,c,d]))")]))
    for pd, tag in ((False, "#nodephasing"), (True, "#puredephasing")):
        reg.add(Contract(FT + "FoersterRelaxationTensor.initialize" + tag, setup=(lambda S, pd=pd: setup_f(S, pd)),
                         requires=["N >= 0", "Nt >= 1"],
                         ensures=[("population-columns-traceless",
                                   "Sum(a, range(0, N), self._data[a,a,c,c]) == 0",
                                   dict(forall={"c": "range(0, N)"},
                                        use=[("sum_split_at_cx", {"N": "N", "n": "c", "F": "diag_column(self._data, c)"})])),
                                  ("off-population-columns-zero",
                                   "forall((a, c, d), (range(0, N), range(0, N), range(0, N)), implies(c != d, self._data[a,a,c,d] == 0))"),
                                  ("hermitian", "forall((a, b, c, d), (range(0, N), range(0, N), range(0, N), range(0, N)), "
                                   "conj(self._data[a,b,c,d]) == self._data[b,a,d,c])")]))


def lemma_redfield(ctx):
    """the postcondition of _convert_operators_2_tensor + what _implementation establishes about its arguments
    (Km real by dtype, Ld = Lm^dagger) are the hypotheses of the Lean lemmas redfield_trace / redfield_herm"""
    def setup(S):
        nb, na = S.int("Nb"), S.int("Na")
        return dict(Nb=nb, Na=na, N=na, Km=S.array("Km", (nb, na, na), "real"), Lm=S.array("Lm", (nb, na, na), "cx"),
                    Ld=S.array("Ld", (nb, na, na), "cx"), R=S.array("R", (na, na, na, na), "cx"),
                    K=None, L=None)

    def setup2(S):
        d = setup(S)
        d["K"], d["L"] = d["Km"], d["Lm"]
        return d
    post = ["Na >= 0", "Nb >= 0",
            "forall((a, b, c, d), %s, R[a,b,c,d] == Sum(mm, range(0, Nb), %s))" % (R4, REL_M.format(m="mm")),
            "forall((m, i, j), (range(0, Nb), range(0, Na), range(0, Na)), Ld[m,i,j] == conj(Lm[m,j,i]))"]
    ctx.used_lemmas = set(getattr(ctx, "used_lemmas", ())) | {"redfield_trace", "redfield_herm"}
    goals = list(lemmalib.LEMMAS["redfield_herm"]["hyps"])
    return clause_lemma(ctx, "convert-post-gives-lemma-hypotheses", setup2, post, goals,
                        where="props/C01.py (over the contract of _convert_operators_2_tensor)")


def lemma_redfield_td(ctx):
    """time-dependent tensor: postcondition of the conversion (K used where the formula has K^T) + K symmetric + Ld = Lm^dagger
    give, at every time index t, the hypotheses of the Lean lemmas redfield_trace / redfield_herm"""
    from qvc.values import SymArr

    def setup(S):
        nb, na, nt = S.int("Nb"), S.int("Na"), S.int("Nt")
        t = S.int("t")
        Km = S.array("Km", (nb, na, na), "real")
        Lm = S.array("Lm", (nt, nb, na, na), "cx")
        Ld = S.array("Ld", (nt, nb, na, na), "cx")
        RR = S.array("RR", (nt, na, na, na, na), "cx")

        def view(A):
            return SymArr(A.shape[1:], A.dtype, base=A, imap=lambda sub, t=t: (t,) + tuple(sub))
        return dict(Nb=nb, Na=na, Nt=nt, N=na, t=t, Km=Km, Lm=Lm, Ld=Ld, RR=RR, K=Km, L=view(Lm), Ld_t=view(Ld),
                    R=view(RR))
    post = ["Na >= 0", "Nb >= 0", "0 <= t and t < Nt",
            "forall((tt, a, b, c, d), %s, RR[tt,a,b,c,d] == Sum(mm, range(0, Nb), %s))"
            % (T5.replace("range(0, Nt)", "range(0, Nt)"), REL_TD_CODE.format(m="mm").replace("[t,", "[tt,")),
            K_SYM,
            "forall((tt, m, i, j), (range(0, Nt), range(0, Nb), range(0, Na), range(0, Na)), Ld[tt,m,i,j] == conj(Lm[tt,m,j,i]))"]
    goals = [(n, c.replace("Ld[", "Ld_t[")) for n, c in lemmalib.LEMMAS["redfield_td_herm"]["hyps"]]
    ctx.used_lemmas = set(getattr(ctx, "used_lemmas", ())) | {"redfield_td_trace", "redfield_td_herm"}
    return clause_lemma(ctx, "td-convert-post-gives-lemma-hypotheses-at-each-time", setup, post, goals,
                        where="props/C01.py (over the contract of TDRedfieldRelaxationTensor._convert_operators_2_tensor)")


def lemma_secular(ctx):
    """secular projection (postcondition of secularize) keeps trace-zero and Hermiticity"""
    def setup(S):
        n = S.int("N")
        return dict(N=n, R=S.array("R", (n, n, n, n), "cx"), Rs=S.array("Rs", (n, n, n, n), "cx"))
    hyps = ["N >= 0",
            "forall((a, b, c, d), (range(0, N), range(0, N), range(0, N), range(0, N)), "
            "Rs[a,b,c,d] == ite(%s, R[a,b,c,d], 0))" % KEEP,
            TRACE0.format(R="R"), HERM.format(R="R")]
    goals = [("secular-tensor-traceless", TRACE0.format(R="Rs")), ("secular-tensor-hermitian", HERM.format(R="Rs")),
             ("population-transfer-elements-unchanged",
              "forall((a, b), (range(0, N), range(0, N)), Rs[a,a,b,b] == R[a,a,b,b])"),
             ("coherence-decay-elements-unchanged",
              "forall((a, b), (range(0, N), range(0, N)), Rs[a,b,a,b] == R[a,b,a,b])")]
    return clause_lemma(ctx, "secularization-keeps-identities", setup, hyps, goals,
                        where="props/C01.py (over the contract of RelaxationTensor.secularize)")


def lemma_rate_structure(ctx):
    """completion of a rate-only tensor (postcondition of updateStructure) with real rates is traceless and Hermitian"""
    def setup(S):
        n = S.int("N")
        return dict(N=n, R=S.array("R", (n, n, n, n), "cx"), k=S.array("k", (n, n), "real"), c0=S.int("c0"))
    hyps = ["N >= 0", "0 <= c0 and c0 < N",
            "forall((a, c), (range(0, N), range(0, N)), implies(a != c, R[a,a,c,c] == k[a,c]))",
            "forall(n, range(0, N), R[n,n,n,n] == -Sum(a, range(0, N), ite(a == n, 0, k[a,n])))",
            "forall((n, m), (range(0, N), range(0, N)), implies(n != m, R[n,m,n,m] == (R[n,n,n,n] + R[m,m,m,m])/2.0))",
            "forall((a, b, c, d), (range(0, N), range(0, N), range(0, N), range(0, N)), implies(not %s, R[a,b,c,d] == 0))" % KEEP]
    goals = [("population-column-traceless", "Sum(a, range(0, N), R[a,a,c0,c0]) == 0"),
             ("off-population-columns-traceless",
              "forall((c, d), (range(0, N), range(0, N)), implies(c != d, forall(a, range(0, N), R[a,a,c,d] == 0)))"),
             ("hermitian", HERM.format(R="R"))]
    # split the column sum at a = c0:  Sum_a R[a,a,c0,c0] = R[c0,c0,c0,c0] + Sum_a (a==c0 ? 0 : R[a,a,c0,c0])
    from qvc.values import lam_array
    use = [("sum_split_at_cx", {"N": "N", "n": "c0", "F": "diagcol"})]

    def setup2(S):
        d = setup(S)
        R, c0 = d["R"], d["c0"]
        d["diagcol"] = lam_array((d["N"],), "cx", lambda xs: R.get([xs[0], xs[0], c0, c0]))
        return d
    return clause_lemma(ctx, "rate-structure-gives-identities", setup2, hyps, goals, use=use,
                        where="props/C01.py (over the contract of RelaxationTensor.updateStructure)")


def plan(ctx):
    p = Plan("C01")
    contracts(ctx.registry)
    contracts2(ctx.registry)
    contracts3(ctx.registry)
    contracts_td(ctx.registry)
    contracts_rf(ctx.registry)
    p.functions = [RT + "_loopit", RT + "RedfieldRelaxationTensor._convert_operators_2_tensor",
                   RT + "RedfieldRelaxationTensor._post_implementation#operators",
                   RT + "RedfieldRelaxationTensor._post_implementation#tensor",
                   LF + "LindbladForm._implementation#operators", LF + "LindbladForm._implementation#tensor",
                   RT + "RedfieldRelaxationTensor._implementation#operators",
                   RT + "RedfieldRelaxationTensor._implementation#tensor",
                   RX + "RelaxationTensor.secularize", RX + "RelaxationTensor.secularize#timedependent",
                   "quantarhei/qm/liouvillespace/secular.py::Secular._secularize_data",
                   "quantarhei/qm/liouvillespace/secular.py::Secular._secularize_data#timedependent",
                   RX + "RelaxationTensor.updateStructure", RX + "RelaxationTensor.updateStructure#timedependent",
                   TD + "TDRedfieldRelaxationTensor._convert_operators_2_tensor",
                   TD + "TDRedfieldRelaxationTensor.secularize",
                   TD + "TDRedfieldRelaxationTensor._implementation#operators",
                   TD + "TDRedfieldRelaxationTensor._implementation#tensor",
                   RFq + "RedfieldFoersterRelaxationTensor._reference_implementation",
                   FT + "FoersterRelaxationTensor.add_dephasing",
                   "quantarhei/qm/liouvillespace/tdfoerstertensor.py::TDFoersterRelaxationTensor.add_dephasing",
                   FT + "FoersterRelaxationTensor.initialize#nodephasing",
                   FT + "FoersterRelaxationTensor.initialize#puredephasing"]
    p.oracles = ["native/oracle_C01.py"]
    p.not_decided = ["invariance of the two identities under RelaxationTensor.transform (two-stage in-place similarity "
                     "transformation of a 4-index tensor): covered for the operator form only through C04",
                     "Secular._secularize_data / secularize(legacy=False) (reversible secularisation through rate matrices)",
                     "ElectronicLindbladForm / cast_to_vibronic (construction of vibronic projectors)",
                     "TDFoerster/Foerster rate values themselves (C06)"]
    p.trusted = ["numpy.linalg.eigh of a real symmetric matrix returns real eigenvectors whose inverse is the transpose",
                 "RedfieldRelaxationTensor(...) called inside the Redfield-Foerster code returns a tensor with the two "
                 "identities (proved above for _implementation/_post_implementation; the constructor's plumbing is read, not proved)"]
    p.lemmas = [lemma_redfield, lemma_redfield_td, lemma_secular, lemma_rate_structure]
    return p
