"""C04 - basis-change contexts are transparent and self-restoring.

The protocol functions are executed symbolically on the real code with the Manager's stack at concrete nesting depths
(0, 1, 2) and one or two managed objects whose matrices are symbolic of any size; the algebraic content (leaving the
context undoes the lazy transformation) is a Lean lemma over the postconditions."""
import z3

from qvc.main import Plan
from qvc.spec import Contract, clause_lemma
from qvc.values import Builtin, Obj, SymArr, fresh
from qvc import values as V
from qvc import lemmalib

MGR = "quantarhei/core/managers.py::"
OPS = "quantarhei/qm/hilbertspace/operators.py::"
TYP = "quantarhei/utils/types.py::"
SOP = "quantarhei/qm/liouvillespace/superoperator.py::"

META = dict(
    category="proof",
    text=("The basis bookkeeping (get_current_basis, set_new_basis, transform_to_current_basis with its scroll-back loop, "
          "eigenbasis_of.__enter__/__exit__, the lazy getter and setter closures of the basis-managed property factory, "
          "Operator.transform, SelfAdjointOperator.get_diagonalization_matrix) is proved against contracts on the real "
          "code for matrices of every size and every value, at nesting depths 0, 1 and 2 of the context stack and with "
          "protected / unprotected, registered / unregistered objects: entering pushes exactly one basis, a stale object "
          "is transformed by the product of the stacked transformations and registered with the current basis, leaving "
          "pops the basis, transforms every registered object back with the inverse and re-labels / re-registers it one "
          "level up, the bookkeeping returns to its previous state (Python runs __exit__ on exceptional exit too). A Lean "
          "lemma over these postconditions gives that an object transformed lazily inside a context is back at its "
          "original values after the context is left (Z (Z^-1 X Z) Z^-1 = X). Objects created by copy inside a context "
          "are covered by an allocation-site obligation on SuperOperator.apply. Depths > 2 and the per-class transform of "
          "4-index tensors / evolutions are not decided here."),
    note=("numpy.linalg.inv(Z) is an uninterpreted function of Z with Z inv(Z) = 1 assumed for the (invertible) "
          "diagonalisation matrices; numpy.linalg.eigh's ordering/diagonalisation properties are assumed; nesting depth is "
          "bounded by 2 in the protocol proofs (the code treats every depth by the same statements, but the proof "
          "enumerates the stack)."),
    technique="VCs from the real AST (heap of managed objects with concrete stack depth, symbolic matrices), z3; "
              "similarity round-trip lemma in Lean 4",
)

N2 = "(range(0, n), range(0, n))"


def tr_clause(new, old, S, Si):
    """cell-wise  new = Si . old . S"""
    return ("forall((i, j), %s, %s[i,j] == Sum(k, range(0, n), %s[i,k]*Sum(l, range(0, n), %s[k,l]*%s[l,j])))"
            % (N2, new, Si, old, S))


def same2(a, b):
    return "forall((i, j), %s, %s[i,j] == %s[i,j])" % (N2, a, b)


def same4(a, b):
    return ("forall((i, j, k, l), (range(0, n), range(0, n), range(0, n), range(0, n)), %s[i,j,k,l] == %s[i,j,k,l])" % (a, b))


def mk_manager(S, depth, n):
    Z = [S.array("Z%d" % k, (n, n), "real") for k in range(1, depth + 1)]
    mgr = S.obj(MGR + "Manager", label="mgr", basis_stack=list(range(depth + 1)), basis_transformations=[1] + Z,
                basis_registered={k: [] for k in range(1, depth + 1)}, warn_about_basis_change=False,
                warn_about_basis_changing_objects=False, _in_eigenbasis_of_context=(depth > 0),
                current_basis_operator=None)
    S.singleton("Manager", mgr)
    return mgr, Z


def mk_operator(S, n, basis, protected=False, label="op", cls=OPS + "Operator", rank=2, register=None):
    data = S.array(label + "_data", (n,) * rank, "cx")
    o = S.obj(cls, label=label, _data=data, _current_basis=basis, is_basis_protected=protected, dim=n, name="")
    if register is not None:
        register.fields["basis_registered"][basis].append(o)
    return o


def contracts(reg):
    reg.models.table["matinv"] = reg.models.table["numpy.linalg.inv"]

    def last_eigvecs(ex, a, k, l):
        le = getattr(ex, "last_eigh", None)
        return le[2] if le is not None else None
    reg.models.table["last_eigvecs"] = Builtin("spec:last_eigvecs", last_eigvecs)

    # ---- Operator.transform --------------------------------------------------------------------------------------
    def setup_tr(S, with_inv):
        n = S.int("n")
        mgr, _ = mk_manager(S, 0, n)
        op = mk_operator(S, n, 0, label="self")
        d = dict(self=op, SS=S.array("SS", (n, n), "real"), inv=(S.array("SSinv", (n, n), "real") if with_inv else None), n=n)
        return d

    def result_tr(S, env):
        me = env["self"]
        me.fields["_data"] = S.fresh_array(me.fields["_data"].shape, "cx", prefix="tdata")
        return None

    def ghost_tr(S, env):
        env.setdefault("n", env["SS"].shape[0])
    for with_inv, tag in ((False, ""), (True, "#inverse-given")):
        reg.add(Contract(OPS + "Operator.transform" + tag, setup=(lambda S, w=with_inv: setup_tr(S, w)), ghost=ghost_tr,
                         requires=["n >= 0"], result=result_tr,
                         ensures=[("similarity-transformation",
                                   tr_clause("self._data", "old(self._data)", "SS", "(inv if inv is not None else matinv(SS))"))],
                         dispatch=(lambda env: "" ) if not with_inv else None))

    # ---- SelfAdjointOperator.get_diagonalization_matrix -----------------------------------------------------------------
    def setup_gd(S):
        n = S.int("n")
        mk_manager(S, 0, n)
        return dict(self=mk_operator(S, n, 0, label="self", cls=OPS + "SelfAdjointOperator"), n=n)
    def result_gd(S, env):
        r = S.fresh_array((env["self"].fields["dim"],) * 2, "real", prefix="eigvecs")
        S.ex.last_eigh = (env["self"].fields["_data"], None, r)
        return r
    reg.add(Contract(OPS + "SelfAdjointOperator.get_diagonalization_matrix", setup=setup_gd, requires=[],
                     result=result_gd,
                     ensures=[("is-the-eigenvector-matrix-of-the-current-data",
                               "result is last_eigvecs()")]))

    # ---- Manager bookkeeping ----------------------------------------------------------------------------------------------
    def setup_m(S, depth, extra=None):
        n = S.int("n")
        mgr, Z = mk_manager(S, depth, n)
        d = dict(self=mgr, n=n)
        if extra:
            d.update(extra(S, n))
        return d
    for depth in (0, 1, 2):
        reg.add(Contract(MGR + "Manager.get_current_basis#depth%d" % depth, setup=(lambda S, d=depth: setup_m(S, d)),
                         ensures=[("top-of-stack", "result == %d" % depth)]))
    for depth in (0, 1):
        reg.add(Contract(MGR + "Manager.set_new_basis#depth%d" % depth,
                         setup=(lambda S, d=depth: setup_m(S, d, lambda S, n: dict(SS=S.array("SSnew", (n, n), "real")))),
                         ensures=[("one-basis-pushed", "self.basis_stack == %r" % list(range(depth + 2))),
                                  ("transformation-pushed", "len(self.basis_transformations) == %d and "
                                   "self.basis_transformations[%d] is SS" % (depth + 2, depth + 1)),
                                  ("fresh-registry-for-the-new-basis", "self.basis_registered[%d] == []" % (depth + 1)),
                                  ("returns-new-basis-id", "result == %d" % (depth + 1))]))

    # ---- transform_to_current_basis ---------------------------------------------------------------------------------------------
    def setup_ttcb(S, depth, ob, protected=False):
        n = S.int("n")
        mgr, Z = mk_manager(S, depth, n)
        op = mk_operator(S, n, ob, protected=protected)
        d = dict(self=mgr, operator=op, n=n)
        for k, z in enumerate(Z):
            d["Z%d" % (k + 1)] = z
        return d
    SSG = {(1, 0): "numpy.dot(Z1, numpy.diag(numpy.ones(n)))",
           (2, 0): "numpy.dot(Z1, numpy.dot(Z2, numpy.diag(numpy.ones(n))))",
           (2, 1): "numpy.dot(Z2, numpy.diag(numpy.ones(n)))"}
    for (depth, ob), ssg in SSG.items():
        reg.add(Contract(MGR + "Manager.transform_to_current_basis#depth%d-from%d" % (depth, ob),
                         setup=(lambda S, d=depth, o=ob: setup_ttcb(S, d, o)), requires=["n >= 0"],
                         ensures=[("transformed-by-the-stacked-transformations",
                                   tr_clause("operator._data", "old(operator._data)", "(%s)" % ssg, "matinv(%s)" % ssg)),
                                  ("relabelled-to-current-basis", "operator._current_basis == %d" % depth),
                                  ("registered-with-current-basis", "operator in self.basis_registered[%d]" % depth),
                                  ("stack-untouched", "self.basis_stack == %r" % list(range(depth + 1)))]))
    reg.add(Contract(MGR + "Manager.transform_to_current_basis#already-current", setup=lambda S: setup_ttcb(S, 1, 1),
                     requires=["n >= 0"],
                     ensures=[("data-untouched", same2("operator._data", "old(operator._data)")),
                              ("not-registered-again", "len(self.basis_registered[1]) == 0")]))
    reg.add(Contract(MGR + "Manager.transform_to_current_basis#protected", setup=lambda S: setup_ttcb(S, 2, 0, True),
                     requires=["n >= 0"],
                     ensures=[("data-untouched", same2("operator._data", "old(operator._data)")),
                              ("basis-id-untouched", "operator._current_basis == 0")]))
    reg.add(Contract(MGR + "Manager.transform_to_current_basis#basis-not-on-stack", setup=lambda S: setup_ttcb(S, 1, 7),
                     requires=["n >= 0"], raises={"Exception": {"when": "True", "ensures": [
                         same2("operator._data", "old(operator._data)"), "operator._current_basis == 7"]}}))

    # a depth-generic contract for call sites (getter / setter closures, __enter__)
    def result_ttcb(S, env):
        op = env["operator"]
        mgr = env["self"]
        if op.fields.get("is_basis_protected") is True:
            return None
        cb = mgr.fields["basis_stack"][-1]
        if op.fields["_current_basis"] != cb:
            op.fields["_data"] = S.fresh_array(op.fields["_data"].shape, op.fields["_data"].dtype, prefix="tdata")
            op.fields["_current_basis"] = cb
            mgr.fields["basis_registered"][cb].append(op)
        return None
    reg.add(Contract(MGR + "Manager.transform_to_current_basis", result=result_ttcb, setup=lambda S: setup_ttcb(S, 1, 0),
                     notes="call-site summary of the depth-specific contracts above: re-labels and registers"))

    # ---- eigenbasis_of ------------------------------------------------------------------------------------------------------------
    def setup_enter(S, depth):
        n = S.int("n")
        mgr, Z = mk_manager(S, depth, n)
        op = mk_operator(S, n, depth, label="ctxop", cls=OPS + "SelfAdjointOperator",
                         register=(mgr if depth > 0 else None))
        cm = S.obj(MGR + "eigenbasis_of", label="self", manager=mgr, op=op)
        return dict(self=cm, mgr=mgr, n=n)
    for depth in (0, 1):
        reg.add(Contract(MGR + "eigenbasis_of.__enter__#depth%d" % depth, setup=(lambda S, d=depth: setup_enter(S, d)),
                         requires=["n >= 0"],
                         ensures=[("one-basis-pushed", "mgr.basis_stack == %r" % list(range(depth + 2))),
                                  ("its-transformation-is-the-operator's-eigenvector-matrix",
                                   "mgr.basis_transformations[%d] is last_eigvecs()" % (depth + 1)),
                                  ("fresh-registry", "mgr.basis_registered[%d] == []" % (depth + 1)),
                                  ("context-flag", "mgr._in_eigenbasis_of_context")]))

    def setup_exit(S, depth, protected, also_above):
        n = S.int("n")
        mgr, Z = mk_manager(S, depth, n)
        op = mk_operator(S, n, depth, protected=protected, register=mgr)
        if also_above and depth > 1:
            mgr.fields["basis_registered"][depth - 1].append(op)
        cm = S.obj(MGR + "eigenbasis_of", label="self", manager=mgr, op=op)
        d = dict(self=cm, mgr=mgr, op=op, n=n, ext_ty=None, exc_val=None, tb=None)
        for k, z in enumerate(Z):
            d["Z%d" % (k + 1)] = z
        return d
    for depth, protected, above, tag in ((1, False, False, "depth1"), (1, True, False, "depth1-protected"),
                                         (2, False, False, "depth2"), (2, False, True, "depth2-already-registered-above")):
        ens = [("basis-popped", "mgr.basis_stack == %r" % list(range(depth))),
               ("transformation-popped", "len(mgr.basis_transformations) == %d" % depth),
               ("registry-of-the-left-basis-removed", "%d not in mgr.basis_registered" % depth),
               ("object-relabelled-one-level-up", "op._current_basis == %d" % (depth - 1)),
               ("context-flag", "mgr._in_eigenbasis_of_context == %s" % (depth > 1)),
               ("context-operator-forgotten", "mgr.current_basis_operator is None")]
        if protected:
            ens.append(("protected-object-not-transformed", same2("op._data", "old(op._data)")))
        else:
            ens.append(("transformed-back-with-the-inverse",
                        tr_clause("op._data", "old(op._data)", "matinv(Z%d)" % depth, "Z%d" % depth)))
        if depth > 1:
            ens.append(("registered-exactly-once-one-level-up",
                        "len([x for x in mgr.basis_registered[%d] if x is op]) == 1" % (depth - 1)))
        reg.add(Contract(MGR + "eigenbasis_of.__exit__#" + tag,
                         setup=(lambda S, d=depth, p=protected, a=above: setup_exit(S, d, p, a)),
                         requires=["n >= 0"], ensures=ens))

    # ---- lazy property getter / setter ------------------------------------------------------------------------------------------------
    def setup_prop(S, depth, ob, which, rank=2):
        n = S.int("n")
        mgr, Z = mk_manager(S, depth, n)
        cls = OPS + "Operator" if rank == 2 else SOP + "SuperOperator"
        op = mk_operator(S, n, ob, label="self", cls=cls, rank=rank, register=(mgr if ob > 0 else None))
        closure = {"storage_name": "_data", "name": "data", "dtype": None, "shape": None}
        d = {"self": op, "__closure_parent__": closure, "mgr": mgr, "n": n}
        if which == "set":
            d["value"] = S.array("value", (n,) * rank, "cx")
        return d
    G = TYP + "basis_managed_array_property.<locals>.prop"
    reg.add(Contract(G + "#same-basis", setup=lambda S: setup_prop(S, 1, 1, "get"), requires=["n >= 0"],
                     ensures=[("storage-returned-unchanged", "result is self._data and " + same2("self._data", "old(self._data)")[0:0] + "True"),
                              ("storage-unchanged", same2("self._data", "old(self._data)"))]))
    reg.add(Contract(G + "#stale-object", setup=lambda S: setup_prop(S, 1, 0, "get"), requires=["n >= 0"],
                     ensures=[("object-brought-to-current-basis", "self._current_basis == 1 and self in mgr.basis_registered[1]"),
                              ("transformed-storage-returned", "result is self._data")]))
    for rank in (2, 4):
        reg.add(Contract(G + "~1#stale-object-rank%d" % rank, setup=(lambda S, r=rank: setup_prop(S, 1, 0, "set", r)),
                         requires=["n >= 0"],
                         ensures=[("object-brought-to-current-basis-and-registered",
                                   "self._current_basis == 1 and self in mgr.basis_registered[1]"),
                                  ("value-stored", "self._data is value")]))
    reg.add(Contract(G + "~1#same-basis", setup=lambda S: setup_prop(S, 1, 1, "set"), requires=["n >= 0"],
                     ensures=[("value-stored", "self._data is value"), ("basis-id-kept", "self._current_basis == 1")]))

    # ---- allocation site: a copy made inside a context must be known to the context ---------------------------------------------------------
    def setup_apply(S):
        n = S.int("n")
        mgr, Z = mk_manager(S, 1, n)
        me = mk_operator(S, n, 1, label="self", cls=SOP + "SuperOperator", rank=4, register=mgr)
        oper = mk_operator(S, n, 1, label="oper", cls=OPS + "Operator", register=mgr)
        return dict(self=me, oper=oper, copy=True, mgr=mgr, n=n)
    reg.add(Contract(SOP + "SuperOperator.apply#inside-context", setup=setup_apply, requires=["n >= 0"],
                     ensures=[("copy-is-registered-with-its-basis",
                               "result._current_basis == 0 or result in mgr.basis_registered[result._current_basis]"),
                              ("operand-untouched", same2("oper._data", "old(oper._data)"))]))

    # ---- copy protocol of basis-managed objects: a copy is registered with the basis it lives in -------------------------------------
    def setup_copy(S, depth, ob, deep):
        n = S.int("n")
        mgr, Z = mk_manager(S, depth, n)
        me = mk_operator(S, n, ob, label="self", register=(mgr if ob > 0 else None))
        d = dict(self=me, mgr=mgr, n=n)
        if deep:
            d["memo"] = {}
        return d
    REGD = ("copy-is-registered-with-the-basis-it-lives-in",
            "result._current_basis == self._current_basis and "
            "(result._current_basis == 0 or result in mgr.basis_registered[result._current_basis])")
    for depth, ob in ((0, 0), (1, 0), (1, 1), (2, 1), (2, 2)):
        tag = "#depth%d-object-in-%d" % (depth, ob)
        reg.add(Contract(MGR + "BasisManaged.__copy__" + tag, setup=(lambda S, d=depth, o=ob: setup_copy(S, d, o, False)),
                         requires=["n >= 0"],
                         ensures=[REGD, ("new-object", "result is not self"), ("same-values", same2("result._data", "self._data")),
                                  ("original-untouched", same2("self._data", "old(self._data)"))]))
        reg.add(Contract(MGR + "BasisManaged.__deepcopy__" + tag, setup=(lambda S, d=depth, o=ob: setup_copy(S, d, o, True)),
                         requires=["n >= 0"],
                         ensures=[REGD, ("new-object-with-its-own-storage", "result is not self and result._data is not self._data"),
                                  ("same-values", same2("result._data", "self._data")),
                                  ("original-untouched", same2("self._data", "old(self._data)"))]))


def lemma_roundtrip(ctx):
    """lazy transformation on first access (postcondition of transform_to_current_basis, depth 1) followed by leaving the
    context (postcondition of __exit__, depth 1) returns the original values: hypotheses of similarity_roundtrip with
    A = the matrix the scroll-back loop builds (Z1 . 1), B = Z1"""
    ZC = "numpy.dot(Z1, numpy.diag(numpy.ones(n)))"

    def setup(S):
        n = S.int("n")
        d = dict(n=n, N=n, Z1=S.array("Z1", (n, n), "real"), X=S.array("X", (n, n), "cx"), Y=S.array("Y", (n, n), "cx"),
                 W=S.array("W", (n, n), "cx"))
        return d
    ctx.models.table["matinv"] = ctx.models.table["numpy.linalg.inv"]
    DELTA = "ite(i == j, 1, 0)"
    post = ["n >= 0",
            tr_clause("Y", "X", "(%s)" % ZC, "matinv(%s)" % ZC),           # transform_to_current_basis#depth1-from0
            tr_clause("W", "Y", "matinv(Z1)", "Z1"),                          # eigenbasis_of.__exit__#depth1
            # assumed contract of numpy.linalg.inv for the (invertible) matrices it is applied to
            # (the matrix the scroll-back loop builds is Z1 . 1 = Z1, so its inverse is the inverse of Z1)
            "forall((i, j), %s, Sum(k, range(0, n), Z1[i,k]*matinv(%s)[k,j]) == %s)" % (N2, ZC, DELTA),
            "forall((i, j), %s, Sum(k, range(0, n), (%s)[i,k]*matinv(Z1)[k,j]) == %s)" % (N2, ZC, DELTA)]
    ctx.used_lemmas = set(getattr(ctx, "used_lemmas", ())) | {"similarity_roundtrip"}
    ren = {"A[": "(%s)[" % ZC, "Ai[": "matinv(%s)[" % ZC, "B[": "Z1[", "Bi[": "matinv(Z1)["}
    goals = []
    for nm, cl in lemmalib.LEMMAS["similarity_roundtrip"]["hyps"]:
        cl = cl.replace("range(0, N)", "range(0, n)")
        for a_, b_ in (("Ai[", "@1["), ("Bi[", "@2["), ("A[", "@3["), ("B[", "@4[")):
            cl = cl.replace(a_, b_)
        cl = cl.replace("@1[", ren["Ai["]).replace("@2[", ren["Bi["]).replace("@3[", ren["A["]).replace("@4[", ren["B["])
        goals.append((nm, cl))
    return clause_lemma(ctx, "context-roundtrip-hypotheses", setup, post, goals,
                        where="props/C04.py (over the contracts of transform_to_current_basis and eigenbasis_of.__exit__)")


def plan(ctx):
    p = Plan("C04")
    contracts(ctx.registry)
    M = MGR
    p.functions = ([OPS + "Operator.transform", OPS + "Operator.transform#inverse-given",
                    OPS + "SelfAdjointOperator.get_diagonalization_matrix"]
                   + [M + "Manager.get_current_basis#depth%d" % d for d in (0, 1, 2)]
                   + [M + "Manager.set_new_basis#depth%d" % d for d in (0, 1)]
                   + [M + "Manager.transform_to_current_basis#" + t for t in
                      ("depth1-from0", "depth2-from0", "depth2-from1", "already-current", "protected", "basis-not-on-stack")]
                   + [M + "eigenbasis_of.__enter__#depth%d" % d for d in (0, 1)]
                   + [M + "eigenbasis_of.__exit__#" + t for t in
                      ("depth1", "depth1-protected", "depth2", "depth2-already-registered-above")]
                   + [TYP + "basis_managed_array_property.<locals>.prop#same-basis",
                      TYP + "basis_managed_array_property.<locals>.prop#stale-object",
                      TYP + "basis_managed_array_property.<locals>.prop~1#stale-object-rank2",
                      TYP + "basis_managed_array_property.<locals>.prop~1#stale-object-rank4",
                      TYP + "basis_managed_array_property.<locals>.prop~1#same-basis",
                      SOP + "SuperOperator.apply#inside-context"]
                   + [M + "BasisManaged.__%s__#depth%d-object-in-%d" % (w, d, o) for w in ("copy", "deepcopy")
                      for d, o in ((0, 0), (1, 0), (1, 1), (2, 1), (2, 2))])
    p.lemmas = [lemma_roundtrip]
    p.oracles = ["native/oracle_C04.py"]
    p.trusted = ["Z . numpy.linalg.inv(Z) = 1 for the diagonalisation matrices (invertibility of eigenvector matrices), "
                 "numpy.dot(Z, identity) = Z: together  Z1 . inv(Z1 . 1) = 1  and  (Z1 . 1) . inv(Z1) = 1  (hypotheses of the round-trip lemma)",
                 "numpy.linalg.eigh returns ascending eigenvalues and a matrix diagonalising a Hermitian argument: this is "
                 "what makes the context operator diagonal with ascending eigenvalues inside its own context",
                 "Python runs __exit__ on exceptional exit of a with-body"]
    p.not_decided = ["nesting depths > 2 (the proofs enumerate the stack)",
                     "per-class transform of 4-index tensors, evolutions and dipole moments refines the same similarity action",
                     "basis-independent results (traces, spectra, tr(A rho), propagated dynamics) equal inside and outside"]
    return p
