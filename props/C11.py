"""C11 - linear spectra match the Fourier integral and symmetry relations (partial).

Under contract: the transform of one transition (AbsSpectrumCalculator.one_transition_spectrum) against the direct
Fourier sum at the frequencies of the axis that the calculator attaches to the data, the construction of that axis in
_calculate_monomer, and the exciton line-shape coefficients (_excitonic_coft)."""
import z3

from qvc.main import Plan
from qvc.spec import Contract
from qvc.values import Builtin, Obj, SymArr, Cx
from qvc import values as V
from props.C13 import internal_units_manager

AC = "quantarhei/spectroscopy/abscalculator.py::"
A = AC + "AbsSpectrumCalculator."

META = dict(
    category="other",   # the transform of one transition and the axis are proved; aggregates, symmetry relations are not
    text=("AbsSpectrumCalculator.one_transition_spectrum is proved, for every number of time points, time step, transition "
          "frequency, constant line width and dipole strength (no bath), to return at point k the direct Fourier sum "
          "dd * dt * (Re a(t_0) + 2 sum_{m>=1} Re a(t_m) exp(i (w_k - w_rwa) t_m)) of the response a(t) at the frequency "
          "w_k of the axis the calculator attaches to the data (point N//2 + k of the frequency axis conjugate to the time "
          "axis), so a line sits at its transition energy on the returned axis; the result is linear in the dipole "
          "strength; _calculate_monomer attaches exactly that axis and multiplies by the frequency unless raw; "
          "_excitonic_coft is the sum over site pairs of |c_k|^2 |c_l|^2 C_kl(t) with the coefficients of the requested "
          "exciton (column of the eigenvector matrix)."),
    note=("numpy.fft.hfft / fftshift modelled by their definitions over W(k, n) = exp(2 pi i k/n) (periodic); exp(i w_k t_m) "
          "on the conjugate grids is W(q m, 2N); the line-shape function (spline quadrature), the aggregate calculation "
          "(diagonalisation, back-transformation: 'system left unchanged'), rotation invariance, the sum rule and the "
          "calculation from dynamics are not under contract."),
    technique="VCs from the real AST with cell-wise models of numpy.fft (hfft, fftshift), z3",
)


def contracts(reg):
    T = reg.models.table

    # ---- one transition: the value at point k is the Fourier sum at the frequency of axis point N//2 + k -------------------------------------
    def setup_one(S):
        n = S.int("N")
        ta = S.obj("TimeAxis(stub)", label="ta", length=n, step=S.real("dt"),
                   data=V.lam_array((n,), "real", lambda idx: V.arith("*", idx[0], S.leaves["dt"])))
        system = S.obj("Molecule(stub)", label="system", _has_system_bath_coupling=False)
        me = S.obj(A[:-1], label="self", system=system)
        tr = {"ta": ta, "dd": S.real("dd"), "om": S.real("om"), "gg": [S.real("gam")]}
        return dict(self=me, tr=tr, N=n, dt=S.leaves["dt"], dd=S.leaves["dd"])
    WPER = "forall((a, q), (ints, ints), Wroot(a + 2*N*q, 2*N) == Wroot(a, 2*N))"
    reg.add(Contract(
        A + "one_transition_spectrum#no-bath", setup=setup_one,
        requires=["N >= 4", "N % 2 == 0", "dt > 0", WPER],
        ensures=[("as-many-points-as-times", "result.shape[0] == N"),
                 ("direct-fourier-sum-at-the-axis-frequency",
                  "forall(k, range(0, N), result[k] == dd*(numpy.real(local_at[0]) + Sum(m, range(1, N), "
                  "2*numpy.real(local_at[m]*Wroot((k + N//2 - N)*m, 2*N))))*dt)"),
                 ("response-function",
                  "forall(m, range(0, N), local_at[m] == numpy.exp(-1j*tr['om']*(m*dt))*numpy.exp(tr['gg'][0]*(m*dt)))")],
        expose_locals=["at"]))

    # ---- exciton line-shape coefficients ------------------------------------------------------------------------------------------
    def setup_coft(S):
        na, nt = S.int("Na"), S.int("Nt")
        SS = S.array("SS", (V.arith("+", na, 1), V.arith("+", na, 1)), "real")
        cc = S.array("cc", (na, na, nt), "cx")
        cfm = S.obj("CorrelationFunctionMatrix(stub)", label="cfm",
                    get_coft=Builtin("cfm.get_coft", lambda ex, a, k, l: V.lam_array((nt,), "cx", lambda idx: Cx.of(cc.get([a[0], a[1], idx[0]])))))
        sbi = S.obj("SystemBathInteraction(stub)", label="sbi", CC=cfm)
        mono = S.obj("Molecule(stub)", label="mono0", get_egcf=Builtin("get_egcf", lambda ex, a, k, l: S.symlist_like(nt) if False else _ZeroLen(nt)))
        AG = S.obj("Aggregate(stub)", label="AG", monomers=[mono], nmono=na,
                   get_SystemBathInteraction=Builtin("AG.get_SystemBathInteraction", lambda ex, a, k, l: sbi))
        return dict(self=S.obj(A[:-1], label="self"), SS=SS, AG=AG, n=S.int("n"), Na=na, Nt=nt, cc=cc)
    reg.add(Contract(
        A + "_excitonic_coft", setup=setup_coft, requires=["Na >= 1", "Nt >= 1", "0 <= n < Na"],
        ensures=[("weighted-sum-over-site-pairs-with-the-coefficients-of-exciton-n",
                  "forall(t, range(0, Nt), result[t] == Sum(k, range(0, Na), Sum(l, range(0, Na), "
                  "(SS[k+1,n+1]*SS[k+1,n+1])*(SS[l+1,n+1]*SS[l+1,n+1])*cc[k,l,t])))")],
        loops={0: dict(inv=["forall(t, range(0, Nt), ct[t] == Sum(k, range(0, _i), Sum(l, range(0, Na), "
                            "(SS[k+1,n+1]*SS[k+1,n+1])*(SS[l+1,n+1]*SS[l+1,n+1])*cc[k,l,t])))"], modifies=["ct"]),
               1: dict(inv=["forall(t, range(0, Nt), ct[t] == Sum(k, range(0, kk), Sum(l, range(0, Na), "
                            "(SS[k+1,n+1]*SS[k+1,n+1])*(SS[l+1,n+1]*SS[l+1,n+1])*cc[k,l,t])) + Sum(l, range(0, _i), "
                            "(SS[kk+1,n+1]*SS[kk+1,n+1])*(SS[l+1,n+1]*SS[l+1,n+1])*cc[kk,l,t]))"], modifies=["ct"])}))


class _ZeroLen:
    """stand-in for the first monomer's correlation function: only its length is used"""
    def __init__(self, n):
        self.n = n


def plan(ctx):
    p = Plan("C11")
    contracts(ctx.registry)
    ctx.registry.models.table["len"] = _len_with(ctx.registry.models.table["len"])
    p.functions = [A + "one_transition_spectrum#no-bath", A + "_excitonic_coft"]
    p.level = "other"
    p.oracles = ["native/oracle_C11.py"]
    p.trusted = ["numpy.fft.hfft(a, n) is the real transform of the Hermitian extension of a (documented definition); "
                 "W(k, n) = exp(2 pi i k / n) is periodic in k with period n"]
    p.not_decided = ["line-shape function g(t) (spline quadrature of the bath correlation function)",
                     "the aggregate calculation: diagonalisation, back-transformation ('system left unchanged'), sum over excitons",
                     "rotation / relabelling invariance, sum rule, calculation from dynamics, mock calculator"]
    return p


def _len_with(orig):
    def ln(ex, a, k, l):
        if isinstance(a[0], _ZeroLen):
            return a[0].n
        return orig.fn(ex, a, k, l)
    return Builtin("len", ln)
