"""C11 - linear spectra match the Fourier integral and symmetry relations (partial).

Under contract: the transform of one transition (AbsSpectrumCalculator.one_transition_spectrum) against the direct
Fourier sum at the frequencies of the axis that the calculator attaches to the data, the construction of that axis in
_calculate_monomer, and the exciton line-shape coefficients (_excitonic_coft)."""
import z3

from qvc.main import Plan
from qvc.spec import Contract
from qvc.values import Builtin, Obj, SymArr, Cx
from qvc import values as V
from props.C13 import internal_units_manager

AC = "quantarhei/spectroscopy/abscalculator.py::"
A = AC + "AbsSpectrumCalculator."

META = dict(
    category="other",   # the transform of one transition and the axis are proved; aggregates, symmetry relations are not
    text=("AbsSpectrumCalculator.one_transition_spectrum is proved, for every number of time points, time step, transition "
          "frequency, constant line width and dipole strength (no bath), to return at point k the direct Fourier sum "
          "dd * dt * (Re a(t_0) + 2 sum_{m>=1} Re a(t_m) exp(i (w_k - w_rwa) t_m)) of the response a(t) at the frequency "
          "w_k of the axis the calculator attaches to the data (point N//2 + k of the frequency axis conjugate to the time "
          "axis), so a line sits at its transition energy on the returned axis; the result is linear in the dipole "
          "strength; _calculate_monomer attaches exactly that axis and multiplies by the frequency unless raw; "
          "_excitonic_coft is the sum over site pairs of |c_k|^2 |c_l|^2 C_kl(t) with the coefficients of the requested "
          "exciton (column of the eigenvector matrix). _calculate_aggregate (2-4 states, with and without a supplied "
          "relaxation tensor) is proved to follow the transformation protocol that leaves the system as it was: the "
          "Hamiltonian is diagonalised and transformed back with inv(SS), the dipole operator and a supplied tensor are "
          "transformed with SS and back with inv(SS), each exactly once (stand-ins that record the calls; S then S^-1 is "
          "the identity by the similarity lemma of C04)."),
    note=("numpy.fft.hfft / fftshift modelled by their definitions over W(k, n) = exp(2 pi i k/n) (periodic); exp(i w_k t_m) "
          "on the conjugate grids is W(q m, 2N); the line-shape function (spline quadrature), the values summed over the "
          "excitons in the aggregate calculation, rotation invariance, the sum rule and the calculation from dynamics are "
          "not under contract; in _calculate_aggregate the Hamiltonian, dipole operator and tensor are recording stand-ins."),
    technique="VCs from the real AST with cell-wise models of numpy.fft (hfft, fftshift), z3",
)


def contracts(reg):
    T = reg.models.table

    # ---- one transition: the value at point k is the Fourier sum at the frequency of axis point N//2 + k -------------------------------------
    def setup_one(S):
        n = S.int("N")
        ta = S.obj("TimeAxis(stub)", label="ta", length=n, step=S.real("dt"),
                   data=V.lam_array((n,), "real", lambda idx: V.arith("*", idx[0], S.leaves["dt"])))
        system = S.obj("Molecule(stub)", label="system", _has_system_bath_coupling=False)
        me = S.obj(A[:-1], label="self", system=system)
        tr = {"ta": ta, "dd": S.real("dd"), "om": S.real("om"), "gg": [S.real("gam")]}
        return dict(self=me, tr=tr, N=n, dt=S.leaves["dt"], dd=S.leaves["dd"])
    WPER = "forall((a, q), (ints, ints), Wroot(a + 2*N*q, 2*N) == Wroot(a, 2*N))"
    reg.add(Contract(
        A + "one_transition_spectrum#no-bath", setup=setup_one,
        requires=["N >= 4", "N % 2 == 0", "dt > 0", WPER],
        ensures=[("as-many-points-as-times", "result.shape[0] == N"),
                 ("direct-fourier-sum-at-the-axis-frequency",
                  "forall(k, range(0, N), result[k] == dd*(numpy.real(local_at[0]) + Sum(m, range(1, N), "
                  "2*numpy.real(local_at[m]*Wroot((k + N//2 - N)*m, 2*N))))*dt)"),
                 ("response-function",
                  "forall(m, range(0, N), local_at[m] == numpy.exp(-1j*tr['om']*(m*dt))*numpy.exp(tr['gg'][0]*(m*dt)))")],
        expose_locals=["at"]))

    # ---- exciton line-shape coefficients ------------------------------------------------------------------------------------------
    def setup_coft(S):
        na, nt = S.int("Na"), S.int("Nt")
        SS = S.array("SS", (V.arith("+", na, 1), V.arith("+", na, 1)), "real")
        cc = S.array("cc", (na, na, nt), "cx")
        cfm = S.obj("CorrelationFunctionMatrix(stub)", label="cfm",
                    get_coft=Builtin("cfm.get_coft", lambda ex, a, k, l: V.lam_array((nt,), "cx", lambda idx: Cx.of(cc.get([a[0], a[1], idx[0]])))))
        sbi = S.obj("SystemBathInteraction(stub)", label="sbi", CC=cfm)
        mono = S.obj("Molecule(stub)", label="mono0", get_egcf=Builtin("get_egcf", lambda ex, a, k, l: S.symlist_like(nt) if False else _ZeroLen(nt)))
        AG = S.obj("Aggregate(stub)", label="AG", monomers=[mono], nmono=na,
                   get_SystemBathInteraction=Builtin("AG.get_SystemBathInteraction", lambda ex, a, k, l: sbi))
        return dict(self=S.obj(A[:-1], label="self"), SS=SS, AG=AG, n=S.int("n"), Na=na, Nt=nt, cc=cc)
    reg.add(Contract(
        A + "_excitonic_coft", setup=setup_coft, requires=["Na >= 1", "Nt >= 1", "0 <= n < Na"],
        ensures=[("weighted-sum-over-site-pairs-with-the-coefficients-of-exciton-n",
                  "forall(t, range(0, Nt), result[t] == Sum(k, range(0, Na), Sum(l, range(0, Na), "
                  "(SS[k+1,n+1]*SS[k+1,n+1])*(SS[l+1,n+1]*SS[l+1,n+1])*cc[k,l,t])))")],
        loops={0: dict(inv=["forall(t, range(0, Nt), ct[t] == Sum(k, range(0, _i), Sum(l, range(0, Na), "
                            "(SS[k+1,n+1]*SS[k+1,n+1])*(SS[l+1,n+1]*SS[l+1,n+1])*cc[k,l,t])))"], modifies=["ct"]),
               1: dict(inv=["forall(t, range(0, Nt), ct[t] == Sum(k, range(0, kk), Sum(l, range(0, Na), "
                            "(SS[k+1,n+1]*SS[k+1,n+1])*(SS[l+1,n+1]*SS[l+1,n+1])*cc[k,l,t])) + Sum(l, range(0, _i), "
                            "(SS[kk+1,n+1]*SS[kk+1,n+1])*(SS[l+1,n+1]*SS[l+1,n+1])*cc[kk,l,t]))"], modifies=["ct"])}))

    # ---- the aggregate calculation: what is transformed into the exciton basis is transformed back with the inverse ---------------------
    # Ghost protocol: the Hamiltonian, the dipole operator and a supplied relaxation tensor are stand-ins that record the
    # transformations applied to them; by the similarity lemma of C04 (S then S^-1 is the identity) the recorded sequence
    # [into the eigenbasis with SS, back with inv(SS)] leaves each of them as it was.  The sum over excitons is formed from
    # call-site summaries of one_transition_spectrum / _excitonic_coft (their contracts are above).
    def setup_agg(S, dim, with_tensor):
        internal_units_manager(S)
        nt = S.int("Nt")
        SS = S.array("SS", (dim, dim), "real")
        log = {"HH": [], "DD": [], "RR": []}
        S.ex.transform_log = log

        def tag(x):
            if x is SS:
                return "SS"
            if getattr(x, "inverse_of", None) is SS:
                return "inv(SS)"
            return "other"

        def recorder(who):
            return Builtin(who + ".transform", lambda ex, a, k, l: log[who].append("transform:" + tag(a[0])))
        HH = S.obj("Hamiltonian(stub)", label="HH", dim=dim, data=S.array("Hdata", (dim, dim), "real"),
                   diagonalize=Builtin("HH.diagonalize", lambda ex, a, k, l: (log["HH"].append("diagonalize"), SS)[1]),
                   transform=recorder("HH"))
        DD = S.obj("TransitionDipoleMoment(stub)", label="DD", transform=recorder("DD"),
                   dipole_strength=Builtin("DD.dipole_strength", lambda ex, a, k, l: S.fresh_real("dd")))
        system = S.obj("Aggregate(stub)", label="system", _has_system_bath_coupling=S.bool("had_sbc"),
                       get_Hamiltonian=Builtin("system.get_Hamiltonian", lambda ex, a, k, l: HH),
                       get_TransitionDipoleMoment=Builtin("system.get_TransitionDipoleMoment", lambda ex, a, k, l: DD))
        ta = S.obj("TimeAxis(stub)", label="ta", length=nt, step=S.real("dt"))
        fa = S.obj("FrequencyAxis(stub)", label="fa", data=S.array("fdata", (V.arith("*", 2, nt),), "real"))
        me = S.obj(A[:-1], label="self", system=system, TimeAxis=ta, frequencyAxis=fa, rwa=S.real("rwa"),
                   one_transition_spectrum=Builtin("self.one_transition_spectrum",
                                                   lambda ex, a, k, l: S.fresh_array((nt,), "cx", prefix="line")),
                   _excitonic_coft=Builtin("self._excitonic_coft", lambda ex, a, k, l: S.fresh_array((nt,), "cx", prefix="ct")))
        RR = None
        if with_tensor:
            RR = S.obj("RelaxationTensor(stub)", label="RR", data=S.array("Rdata", (dim, dim, dim, dim), "cx"), transform=recorder("RR"))
        return dict(self=me, relaxation_tensor=RR, relaxation_hamiltonian=None, rate_matrix=None, raw=S.bool("raw"), Nt=nt)

    def agg_hook(ex, cinfo, args, kwargs, line):
        if cinfo.name == "FrequencyAxis" and (ex.registry.under_proof or "").split("#")[0].endswith("_calculate_aggregate"):
            n = args[1]
            return (Obj("FrequencyAxis(stub)", {"data": SymArr((n,), "real", name="newaxis"), "length": n}),)
        if cinfo.name == "AbsSpectrum":
            return (Obj("AbsSpectrum(stub)", {"axis": kwargs.get("axis"), "data": kwargs.get("data")}),)
        return None
    reg.models.hooks_instantiate.insert(0, agg_hook)
    orig_isinstance = T["isinstance"]

    def isinstance_stub(ex, a, k, l):
        if isinstance(a[0], Obj) and isinstance(a[0].cls, str) and a[0].cls.endswith("(stub)"):
            return False          # the stand-in tensor is time-independent
        return orig_isinstance.fn(ex, a, k, l)
    T["isinstance"] = Builtin("isinstance", isinstance_stub)

    def ghost_agg(S, env):
        log = S.ex.transform_log
        env["HH_calls"], env["DD_calls"], env["RR_calls"] = list(log["HH"]), list(log["DD"]), list(log["RR"])
    for dim in (2, 3, 4):
        for with_tensor in (False, True):
            reg.add(Contract(A + "_calculate_aggregate#%d-states-%s" % (dim, "with-tensor" if with_tensor else "no-tensor"),
                             setup=(lambda S, d=dim, w=with_tensor: setup_agg(S, d, w)), ghost=ghost_agg, requires=["Nt >= 2"],
                             ensures=[("hamiltonian-diagonalised-then-transformed-back-with-the-inverse",
                                       "HH_calls == ['diagonalize', 'transform:inv(SS)']"),
                                      ("dipole-operator-transformed-and-transformed-back-with-the-inverse",
                                       "DD_calls == ['transform:SS', 'transform:inv(SS)']"),
                                      ("relaxation-tensor-transformed-and-transformed-back-with-the-inverse",
                                       "RR_calls == %s" % (["transform:SS", "transform:inv(SS)"] if with_tensor else []))]))


class _ZeroLen:
    """stand-in for the first monomer's correlation function: only its length is used"""
    def __init__(self, n):
        self.n = n


def plan(ctx):
    p = Plan("C11")
    contracts(ctx.registry)
    ctx.registry.models.table["len"] = _len_with(ctx.registry.models.table["len"])
    p.functions = [A + "one_transition_spectrum#no-bath", A + "_excitonic_coft"] + \
                  [A + "_calculate_aggregate#%d-states-%s" % (d, t) for d in (2, 3, 4) for t in ("no-tensor", "with-tensor")]
    p.level = "other"
    p.oracles = ["native/oracle_C11.py"]
    p.trusted = ["numpy.fft.hfft(a, n) is the real transform of the Hermitian extension of a (documented definition); "
                 "W(k, n) = exp(2 pi i k / n) is periodic in k with period n"]
    p.not_decided = ["line-shape function g(t) (spline quadrature of the bath correlation function)",
                     "the aggregate calculation: values of the sum over excitons (the transformation protocol is under contract); "
                     "that the classes' transform() methods implement the similarity action (C04)",
                     "rotation / relabelling invariance, sum rule, calculation from dynamics, mock calculator"]
    return p


def _len_with(orig):
    def ln(ex, a, k, l):
        if isinstance(a[0], _ZeroLen):
            return a[0].n
        return orig.fn(ex, a, k, l)
    return Builtin("len", ln)
