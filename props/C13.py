"""C13 - Fourier transforms and time/frequency axes are mutually inverse.

Axes: the constructors and both conversion methods are executed symbolically on the real code (start, step real; length
any integer >= 2); numpy.fft.fftfreq / fftshift / linspace are modelled cell-wise (their documented definitions).  The
round trips t -> w -> t and w -> t -> w are lemmas over the conversion postconditions.
Transforms: numpy.fft.fft / ifft are modelled by their defining sums over W(k, n) = exp(2 pi i k / n) (uninterpreted, with
periodicity and multiplicativity); see the plan for what is proved and what is a bounded stand-in."""
import z3

from qvc.main import Plan, bounded_contract
from qvc.spec import Contract, clause_lemma
from qvc.values import Builtin, Obj, SymArr, Cx, fresh
from qvc import values as V
from qvc import lemmalib
from props.common import transparent_units_contexts

TM = "quantarhei/core/time.py::"
FQ = "quantarhei/core/frequency.py::"
VA = "quantarhei/core/valueaxis.py::"
DF = "quantarhei/core/dfunction.py::"

META = dict(
    category="proof",
    text=("ValueAxis/TimeAxis/FrequencyAxis constructors, TimeAxis.get_FrequencyAxis and FrequencyAxis.get_TimeAxis are "
          "proved against contracts on the real code for every start, step > 0 and length >= 2, both axis types, even and "
          "odd lengths: the derived axis has the closed-form start / step / length / conjugate-origin, and the two "
          "round trips return the original axis exactly (real arithmetic)."),
    note=("real numbers for floats; numpy.linspace, numpy.fft.fftfreq, fftshift, ifftshift, fft, ifft modelled by their "
          "documented cell-wise definitions; exp(2 pi i k/n) uninterpreted with periodicity and multiplicativity."),
    technique="VCs from the real AST with cell-wise models of numpy.fft index functions, z3 (non-linear real arithmetic); "
              "round-trip lemmas over the postconditions",
)

PI2 = "(2.0*numpy.pi)"


MGR = "quantarhei/core/managers.py::"


def internal_units_manager(S):
    """the Manager singleton with internal units current (axes conversions work in internal units; the units
    machinery itself is the subject of C05)"""
    if "Manager" in S.ex.globals_heap:
        return S.ex.globals_heap["Manager"]
    m = S.obj(MGR + "Manager", label="mgr", current_units={"energy": "int", "frequency": "int", "dipolemoment": "int",
                                                          "temperature": "2pi/fs", "time": "fs", "length": "int"})
    S.singleton("Manager", m)
    return m


def mk_time_axis(S, atype, label="self"):
    internal_units_manager(S)
    n = S.int("N")
    start, step, fs = S.real("t0"), S.real("dt"), S.real("fs")
    data = V.lam_array((n,), "real", lambda idx: V.arith("+", start, V.arith("*", idx[0], step)))
    o = S.obj(TM + "TimeAxis", label=label, _start=start, _step=step, _length=n, data=data, atype=atype,
              frequency_start=fs, allowed_atypes=["upper-half", "complete"])
    return o, n


def mk_freq_axis(S, atype, label="self"):
    internal_units_manager(S)
    n = S.int("N")
    start, step, ts = S.real("w0"), S.real("dw"), S.real("ts")
    data = V.lam_array((n,), "real", lambda idx: V.arith("+", start, V.arith("*", idx[0], step)))
    o = S.obj(FQ + "FrequencyAxis", label=label, _start=start, _step=step, _length=n, _data=data, atype=atype,
              time_start=ts, allowed_atypes=["upper-half", "complete"])
    return o, n


def contracts(reg):
    transparent_units_contexts(reg.models)

    # ---- TimeAxis -> FrequencyAxis --------------------------------------------------------------------------------------
    def setup_t(S, atype):
        o, n = mk_time_axis(S, atype)
        return dict(self=o, N=n, t0=S.leaves["t0"], dt=S.leaves["dt"], fs=S.leaves["fs"])
    reg.add(Contract(TM + "TimeAxis.get_FrequencyAxis#complete", setup=lambda S: setup_t(S, "complete"),
                     requires=["N >= 2", "dt > 0"],
                     ensures=[("same-number-of-points", "result.length == N and result.atype == 'complete'"),
                              ("frequency-step", "result.step == %s/(N*dt)" % PI2),
                              ("frequency-start", "result.start == fs - %s*(N//2)/(N*dt)" % PI2),
                              ("conjugate-origin-is-the-centre-of-the-time-axis", "result.time_start == t0 + (N//2)*dt"),
                              ("grid", "forall(i, range(0, N), result.data[i] == result.start + i*result.step)")]))
    reg.add(Contract(TM + "TimeAxis.get_FrequencyAxis#upper-half", setup=lambda S: setup_t(S, "upper-half"),
                     requires=["N >= 1", "dt > 0"],
                     ensures=[("twice-the-number-of-points", "result.length == 2*N and result.atype == 'upper-half'"),
                              ("frequency-step", "result.step == %s/(2*N*dt)" % PI2),
                              ("frequency-start", "result.start == fs - %s*N/(2*N*dt)" % PI2),
                              ("conjugate-origin-is-the-start-of-the-time-axis", "result.time_start == t0"),
                              ("grid", "forall(i, range(0, 2*N), result.data[i] == result.start + i*result.step)")]))

    # ---- FrequencyAxis -> TimeAxis --------------------------------------------------------------------------------------
    def setup_w(S, atype):
        o, n = mk_freq_axis(S, atype)
        return dict(self=o, N=n, w0=S.leaves["w0"], dw=S.leaves["dw"], ts=S.leaves["ts"])
    reg.add(Contract(FQ + "FrequencyAxis.get_TimeAxis#complete", setup=lambda S: setup_w(S, "complete"),
                     requires=["N >= 2", "dw > 0"],
                     ensures=[("same-number-of-points", "result.length == N and result.atype == 'complete'"),
                              ("time-step", "result.step == %s/(N*dw)" % PI2),
                              ("time-start", "result.start == ts - (N//2)*%s/(N*dw)" % PI2),
                              ("conjugate-origin-is-the-centre-of-the-frequency-axis",
                               "result.frequency_start == w0 + (N//2)*dw"),
                              ("grid", "forall(i, range(0, N), result.data[i] == result.start + i*result.step)")]))
    reg.add(Contract(FQ + "FrequencyAxis.get_TimeAxis#upper-half", setup=lambda S: setup_w(S, "upper-half"),
                     requires=["N >= 2", "dw > 0"],
                     ensures=[("half-the-number-of-points", "result.length == N//2 and result.atype == 'upper-half'"),
                              ("time-step", "result.step == %s/(N*dw)" % PI2),
                              ("time-start", "result.start == ts"),
                              ("conjugate-origin-is-the-centre-of-the-frequency-axis",
                               "result.frequency_start == w0 + (N//2)*dw"),
                              ("grid", "forall(i, range(0, N//2), result.data[i] == result.start + i*result.step)")],
                     raises={"Exception": dict(when="N % 2 != 0")}))

    # ---- constructors ----------------------------------------------------------------------------------------------------
    def setup_ctor(S, which):
        internal_units_manager(S)
        n = S.int("N")
        if which == "value":
            me = S.obj(VA + "ValueAxis", label="self")
            return dict(self=me, start=S.real("a0"), length=n, step=S.real("da"), N=n)
        if which == "time":
            me = S.obj(TM + "TimeAxis", label="self")
            return dict(self=me, start=S.real("a0"), length=n, step=S.real("da"), atype="complete",
                        frequency_start=S.real("fs"), N=n)
        me = S.obj(FQ + "FrequencyAxis", label="self")
        return dict(self=me, start=S.real("a0"), length=n, step=S.real("da"), atype="upper-half", time_start=S.real("ts"), N=n)
    GRID = [("linear-grid", "forall(i, range(0, N), self.data[i] == start + i*step)"),
            ("parameters-stored", "self.start == start and self.step == step and self.length == N")]
    reg.add(Contract(VA + "ValueAxis.__init__", setup=lambda S: setup_ctor(S, "value"), requires=["N >= 1"], ensures=GRID, inline=True))
    reg.add(Contract(TM + "TimeAxis.__init__", setup=lambda S: setup_ctor(S, "time"), requires=["N >= 1"],
                     ensures=GRID + [("type-and-conjugate-origin", "self.atype == 'complete' and self.frequency_start == frequency_start")],
                     inline=True))
    reg.add(Contract(FQ + "FrequencyAxis.__init__", setup=lambda S: setup_ctor(S, "freq"), requires=["N >= 1"],
                     ensures=GRID + [("type-and-conjugate-origin", "self.atype == 'upper-half' and self.time_start == time_start")],
                     inline=True))

    # ---- Fourier transforms ------------------------------------------------------------------------------------------------
    T = reg.models.table

    def warr(ex, a, k, l):
        """Warr(N)[k] = W(k, N);  Warr(N, -1)[k] = W(-k, N)"""
        n = a[0]
        sgn = a[1] if len(a) > 1 else 1
        return V.lam_array((n,), "cx", lambda idx: T["Wroot"].fn(ex, [V.arith("*", sgn, idx[0]) if sgn != 1 else idx[0], n], {}, l))
    T["Warr"] = Builtin("spec:Warr", warr)

    def raw_dft(ex, a, k, l):
        """the un-normalised centred transform as the code composes it: fftshift(N*ifft(ifftshift(y))) / fftshift(fft(ifftshift(y)))"""
        y, sgn = a[0], (a[1] if len(a) > 1 else 1)
        inner = T["numpy.fft.ifftshift"].fn(ex, [y], {}, l)
        if sgn == 1:
            tr = T["numpy.fft.ifft"].fn(ex, [inner], {}, l)
            n = y.shape[0]
            tr = V.lam_array((n,), "cx", lambda idx: V.arith("*", n, Cx.of(tr.get(idx))))
        else:
            tr = T["numpy.fft.fft"].fn(ex, [inner], {}, l)
        return T["numpy.fft.fftshift"].fn(ex, [tr], {}, l)
    T["raw_dft"] = Builtin("spec:raw_dft", raw_dft)

    def setup_ft(S, which):
        """a function on a complete axis of any length"""
        if which == "time":
            ax, n = mk_time_axis(S, "complete", label="axis")
        else:
            ax, n = mk_freq_axis(S, "complete", label="axis")
        y = S.array("y", (n,), "cx")
        me = S.obj(DF + "DFunction", label="self", axis=ax, data=y, _has_imag=True, _is_empty=False,
                   _splines_initialized=False)
        d = dict(self=me, N=n, y=y, c=V.arith("//", n, 2))
        if which == "time":
            d.update(window=None, dt=S.leaves["dt"])
        else:
            d.update(dw=S.leaves["dw"])
        return d
    WPER = "forall((a, q), (ints, ints), Wroot(a + N*q, N) == Wroot(a, N))"
    WPERM = "forall((a, q), (ints, ints), Wroot(-(a + N*q), N) == Wroot(-a, N))"
    reg.add(Contract(DF + "DFunction.get_Fourier_transform#time-complete", setup=lambda S: setup_ft(S, "time"),
                     requires=["N >= 2", "dt > 0", WPER],
                     ensures=[("on-the-conjugate-axis", "result.axis.length == N and result.axis.step == %s/(N*dt)" % PI2),
                              ("direct-fourier-sum",
                               "forall(k, range(0, N), result.data[k] == Sum(n, range(0, N), y[n]*Wroot((n - c)*(k - c), N))*dt)",
                               dict(use=[("dft_centred", {"N": "N", "c": "c", "y": "y", "W": "Warr(N)", "Y": "raw_dft(y)"})]))]))
    reg.add(Contract(DF + "DFunction.get_Fourier_transform#frequency-complete", setup=lambda S: setup_ft(S, "freq"),
                     requires=["N >= 2", "dw > 0", WPER],
                     ensures=[("on-the-conjugate-axis", "result.axis.length == N and result.axis.step == %s/(N*dw)" % PI2),
                              ("direct-fourier-sum",
                               "forall(k, range(0, N), result.data[k] == Sum(n, range(0, N), y[n]*Wroot((n - c)*(k - c), N))*dw/%s)" % PI2,
                               dict(use=[("dft_centred", {"N": "N", "c": "c", "y": "y", "W": "Warr(N)", "Y": "raw_dft(y)"})]))]))
    reg.add(Contract(DF + "DFunction.get_inverse_Fourier_transform#time-complete", setup=lambda S: setup_ft(S, "time"),
                     requires=["N >= 2", "dt > 0", WPERM],
                     ensures=[("on-the-conjugate-axis", "result.axis.length == N and result.axis.step == %s/(N*dt)" % PI2),
                              ("direct-fourier-sum-with-the-opposite-sign",
                               "forall(k, range(0, N), result.data[k] == Sum(n, range(0, N), y[n]*Wroot(-((n - c)*(k - c)), N))*dt)",
                               dict(use=[("dft_centred", {"N": "N", "c": "c", "y": "y", "W": "Warr(N, -1)", "Y": "raw_dft(y, -1)"})]))]))
    reg.add(Contract(DF + "DFunction.get_inverse_Fourier_transform#frequency-complete", setup=lambda S: setup_ft(S, "freq"),
                     requires=["N >= 2", "dw > 0", WPERM],
                     ensures=[("on-the-conjugate-axis", "result.axis.length == N and result.axis.step == %s/(N*dw)" % PI2),
                              ("direct-fourier-sum-with-the-opposite-sign",
                               "forall(k, range(0, N), result.data[k] == Sum(n, range(0, N), y[n]*Wroot(-((n - c)*(k - c)), N))*dw/%s)" % PI2,
                               dict(use=[("dft_centred", {"N": "N", "c": "c", "y": "y", "W": "Warr(N, -1)", "Y": "raw_dft(y, -1)"})]))]))


def _call(S, q, obj):
    fi = S.ex.repo.function(q)
    return S.ex.call_function(fi, [], {}, bound=obj)


def lemma_roundtrips(ctx):
    """the real code of both conversions executed one after the other on a symbolic axis"""
    SAME_T = [("same-length-and-type", "back.length == ax.length and back.atype == ax.atype"),
              ("same-step", "back.step == ax.step"), ("same-start", "back.start == ax.start"),
              ("same-conjugate-origin", "back.frequency_start == ax.frequency_start"),
              ("same-grid", "forall(i, range(0, ax.length), back.data[i] == ax.data[i])")]
    SAME_W = [("same-length-and-type", "back.length == ax.length and back.atype == ax.atype"),
              ("same-step", "back.step == ax.step"), ("same-start", "back.start == ax.start"),
              ("same-conjugate-origin", "back.time_start == ax.time_start"),
              ("same-grid", "forall(i, range(0, ax.length), back.data[i] == ax.data[i])")]
    obs = []
    for atype in ("complete", "upper-half"):
        def setup_t(S, atype=atype):
            ax, n = mk_time_axis(S, atype, label="ax")
            S.ex.assume(z3.And(n >= (2 if atype == "complete" else 1), S.leaves["dt"] > 0))
            w = _call(S, TM + "TimeAxis.get_FrequencyAxis", ax)
            back = _call(S, FQ + "FrequencyAxis.get_TimeAxis", w)
            return dict(ax=ax, w=w, back=back, N=n)
        obs += clause_lemma(ctx, "t-w-t-" + atype, setup_t, ["N >= 1", "ax.step > 0"] + (["N >= 2"] if atype == "complete" else []),
                            SAME_T, where="props/C13.py: TimeAxis.get_FrequencyAxis then FrequencyAxis.get_TimeAxis (real code)")

        def setup_w(S, atype=atype):
            ax, n = mk_freq_axis(S, atype, label="ax")
            S.ex.assume(z3.And(n >= 2, S.leaves["dw"] > 0))
            if atype == "upper-half":
                S.ex.assume(n % 2 == 0)
            t = _call(S, FQ + "FrequencyAxis.get_TimeAxis", ax)
            back = _call(S, TM + "TimeAxis.get_FrequencyAxis", t)
            return dict(ax=ax, t=t, back=back, N=n)
        obs += clause_lemma(ctx, "w-t-w-" + atype, setup_w, ["N >= 2", "ax.step > 0"] + (["N % 2 == 0"] if atype == "upper-half" else []),
                            SAME_W, where="props/C13.py: FrequencyAxis.get_TimeAxis then TimeAxis.get_FrequencyAxis (real code)")
    return obs


def plan(ctx):
    p = Plan("C13")
    contracts(ctx.registry)
    p.functions = [TM + "TimeAxis.get_FrequencyAxis#complete", TM + "TimeAxis.get_FrequencyAxis#upper-half",
                   FQ + "FrequencyAxis.get_TimeAxis#complete", FQ + "FrequencyAxis.get_TimeAxis#upper-half",
                   VA + "ValueAxis.__init__", TM + "TimeAxis.__init__", FQ + "FrequencyAxis.__init__",
                   DF + "DFunction.get_Fourier_transform#time-complete", DF + "DFunction.get_Fourier_transform#frequency-complete",
                   DF + "DFunction.get_inverse_Fourier_transform#time-complete",
                   DF + "DFunction.get_inverse_Fourier_transform#frequency-complete"]
    p.lemmas = [lemma_roundtrips]
    p.extra_axioms = list(V.pi_axioms())
    p.oracles = ["native/oracle_C13.py"]
    return p
