"""C13 - Fourier transforms and time/frequency axes are mutually inverse.

Axes: the constructors and both conversion methods are executed symbolically on the real code (start, step real; length
any integer >= 2); numpy.fft.fftfreq / fftshift / linspace are modelled cell-wise (their documented definitions).  The
round trips t -> w -> t and w -> t -> w are lemmas over the conversion postconditions.
Transforms: numpy.fft.fft / ifft are modelled by their defining sums over W(k, n) = exp(2 pi i k / n) (uninterpreted, with
periodicity and multiplicativity); see the plan for what is proved and what is a bounded stand-in."""
import z3

from qvc.main import Plan, bounded_contract
from qvc.spec import Contract, clause_lemma
from qvc.values import Builtin, Obj, SymArr, Cx, fresh
from qvc import values as V
from qvc import lemmalib
from props.common import transparent_units_contexts

TM = "quantarhei/core/time.py::"
FQ = "quantarhei/core/frequency.py::"
VA = "quantarhei/core/valueaxis.py::"
DF = "quantarhei/core/dfunction.py::"

META = dict(
    category="proof",
    text=("ValueAxis/TimeAxis/FrequencyAxis constructors, TimeAxis.get_FrequencyAxis and FrequencyAxis.get_TimeAxis are "
          "proved against contracts on the real code for every start, step > 0 and length >= 2, both axis types, even and "
          "odd lengths: the derived axis has the closed-form start / step / length / conjugate origin, and both round "
          "trips (t->w->t, w->t->w; the real code of both conversions executed in sequence) return the original axis "
          "exactly. DFunction.get_Fourier_transform and get_inverse_Fourier_transform are proved, for every length and "
          "all complex data, to return the direct Fourier sum on the conjugate axis: complete time and frequency axes "
          "(centred sum, exponent sign +/-), upper-half time axes (sum over the Hermitian extension f(-t) = conj f(t), "
          "loop invariant on the extension buffer), upper-half frequency axes (non-negative times of the centred inverse "
          "sum). The re-centring of both indices by the cyclic shifts, the Hermitian extension and the inversion "
          "(transform then inverse transform returns the original values) are Lean lemmas over the postconditions."),
    note=("real numbers for floats; numpy.linspace, numpy.fft.fftfreq, fftshift, ifftshift, fft, ifft are modelled by "
          "their documented cell-wise definitions; W(k, n) = exp(2 pi i k/n) is uninterpreted with periodicity, "
          "multiplicativity and orthogonality (sum over a period) assumed; exp(i w_k t_n) on the conjugate grids is "
          "identified with W((k-c)(n-c), N). Windowed transforms, get_Fourier_transform of upper-half frequency "
          "functions and inverse transforms of time-domain upper-half functions are not under contract."),
    technique="VCs from the real AST with cell-wise models of numpy.fft, z3 (non-linear real arithmetic); cyclic-shift, "
              "Hermitian-extension and inversion lemmas for finite Fourier sums in Lean 4",
)

PI2 = "(2.0*numpy.pi)"


MGR = "quantarhei/core/managers.py::"


def internal_units_manager(S):
    """the Manager singleton with internal units current (axes conversions work in internal units; the units
    machinery itself is the subject of C05)"""
    if "Manager" in S.ex.globals_heap:
        return S.ex.globals_heap["Manager"]
    m = S.obj(MGR + "Manager", label="mgr", current_units={"energy": "int", "frequency": "int", "dipolemoment": "int",
                                                          "temperature": "2pi/fs", "time": "fs", "length": "int"})
    S.singleton("Manager", m)
    return m


def _conj(c):
    return Cx(c.re, V.arith("-", 0, c.im))


def mk_time_axis(S, atype, label="self"):
    internal_units_manager(S)
    n = S.int("N")
    start, step, fs = S.real("t0"), S.real("dt"), S.real("fs")
    data = V.lam_array((n,), "real", lambda idx: V.arith("+", start, V.arith("*", idx[0], step)))
    o = S.obj(TM + "TimeAxis", label=label, _start=start, _step=step, _length=n, data=data, atype=atype,
              frequency_start=fs, allowed_atypes=["upper-half", "complete"])
    return o, n


def mk_freq_axis(S, atype, label="self"):
    internal_units_manager(S)
    n = S.int("N")
    start, step, ts = S.real("w0"), S.real("dw"), S.real("ts")
    data = V.lam_array((n,), "real", lambda idx: V.arith("+", start, V.arith("*", idx[0], step)))
    o = S.obj(FQ + "FrequencyAxis", label=label, _start=start, _step=step, _length=n, _data=data, atype=atype,
              time_start=ts, allowed_atypes=["upper-half", "complete"])
    return o, n


def contracts(reg):
    transparent_units_contexts(reg.models)

    # ---- TimeAxis -> FrequencyAxis --------------------------------------------------------------------------------------
    def setup_t(S, atype):
        o, n = mk_time_axis(S, atype)
        return dict(self=o, N=n, t0=S.leaves["t0"], dt=S.leaves["dt"], fs=S.leaves["fs"])
    reg.add(Contract(TM + "TimeAxis.get_FrequencyAxis#complete", setup=lambda S: setup_t(S, "complete"),
                     requires=["N >= 2", "dt > 0"],
                     ensures=[("same-number-of-points", "result.length == N and result.atype == 'complete'"),
                              ("frequency-step", "result.step == %s/(N*dt)" % PI2),
                              ("frequency-start", "result.start == fs - %s*(N//2)/(N*dt)" % PI2),
                              ("conjugate-origin-is-the-centre-of-the-time-axis", "result.time_start == t0 + (N//2)*dt"),
                              ("grid", "forall(i, range(0, N), result.data[i] == result.start + i*result.step)")]))
    reg.add(Contract(TM + "TimeAxis.get_FrequencyAxis#upper-half", setup=lambda S: setup_t(S, "upper-half"),
                     requires=["N >= 1", "dt > 0"],
                     ensures=[("twice-the-number-of-points", "result.length == 2*N and result.atype == 'upper-half'"),
                              ("frequency-step", "result.step == %s/(2*N*dt)" % PI2),
                              ("frequency-start", "result.start == fs - %s*N/(2*N*dt)" % PI2),
                              ("conjugate-origin-is-the-start-of-the-time-axis", "result.time_start == t0"),
                              ("grid", "forall(i, range(0, 2*N), result.data[i] == result.start + i*result.step)")]))

    # ---- FrequencyAxis -> TimeAxis --------------------------------------------------------------------------------------
    def setup_w(S, atype):
        o, n = mk_freq_axis(S, atype)
        return dict(self=o, N=n, w0=S.leaves["w0"], dw=S.leaves["dw"], ts=S.leaves["ts"])
    reg.add(Contract(FQ + "FrequencyAxis.get_TimeAxis#complete", setup=lambda S: setup_w(S, "complete"),
                     requires=["N >= 2", "dw > 0"],
                     ensures=[("same-number-of-points", "result.length == N and result.atype == 'complete'"),
                              ("time-step", "result.step == %s/(N*dw)" % PI2),
                              ("time-start", "result.start == ts - (N//2)*%s/(N*dw)" % PI2),
                              ("conjugate-origin-is-the-centre-of-the-frequency-axis",
                               "result.frequency_start == w0 + (N//2)*dw"),
                              ("grid", "forall(i, range(0, N), result.data[i] == result.start + i*result.step)")]))
    reg.add(Contract(FQ + "FrequencyAxis.get_TimeAxis#upper-half", setup=lambda S: setup_w(S, "upper-half"),
                     requires=["N >= 2", "dw > 0"],
                     ensures=[("half-the-number-of-points", "result.length == N//2 and result.atype == 'upper-half'"),
                              ("time-step", "result.step == %s/(N*dw)" % PI2),
                              ("time-start", "result.start == ts"),
                              ("conjugate-origin-is-the-centre-of-the-frequency-axis",
                               "result.frequency_start == w0 + (N//2)*dw"),
                              ("grid", "forall(i, range(0, N//2), result.data[i] == result.start + i*result.step)")],
                     raises={"Exception": dict(when="N % 2 != 0")}))

    # ---- constructors ----------------------------------------------------------------------------------------------------
    def setup_ctor(S, which):
        internal_units_manager(S)
        n = S.int("N")
        if which == "value":
            me = S.obj(VA + "ValueAxis", label="self")
            return dict(self=me, start=S.real("a0"), length=n, step=S.real("da"), N=n)
        if which == "time":
            me = S.obj(TM + "TimeAxis", label="self")
            return dict(self=me, start=S.real("a0"), length=n, step=S.real("da"), atype="complete",
                        frequency_start=S.real("fs"), N=n)
        me = S.obj(FQ + "FrequencyAxis", label="self")
        return dict(self=me, start=S.real("a0"), length=n, step=S.real("da"), atype="upper-half", time_start=S.real("ts"), N=n)
    GRID = [("linear-grid", "forall(i, range(0, N), self.data[i] == start + i*step)"),
            ("parameters-stored", "self.start == start and self.step == step and self.length == N")]
    reg.add(Contract(VA + "ValueAxis.__init__", setup=lambda S: setup_ctor(S, "value"), requires=["N >= 1"], ensures=GRID, inline=True))
    reg.add(Contract(TM + "TimeAxis.__init__", setup=lambda S: setup_ctor(S, "time"), requires=["N >= 1"],
                     ensures=GRID + [("type-and-conjugate-origin", "self.atype == 'complete' and self.frequency_start == frequency_start")],
                     inline=True))
    reg.add(Contract(FQ + "FrequencyAxis.__init__", setup=lambda S: setup_ctor(S, "freq"), requires=["N >= 1"],
                     ensures=GRID + [("type-and-conjugate-origin", "self.atype == 'upper-half' and self.time_start == time_start")],
                     inline=True))

    # ---- Fourier transforms ------------------------------------------------------------------------------------------------
    T = reg.models.table

    def warr(ex, a, k, l):
        """Warr(N)[k] = W(k, N);  Warr(N, -1)[k] = W(-k, N)"""
        n = a[0]
        sgn = a[1] if len(a) > 1 else 1
        return V.lam_array((n,), "cx", lambda idx: T["Wroot"].fn(ex, [V.arith("*", sgn, idx[0]) if sgn != 1 else idx[0], n], {}, l))
    T["Warr"] = Builtin("spec:Warr", warr)

    def raw_dft(ex, a, k, l):
        """the un-normalised centred transform as the code composes it: fftshift(N*ifft(ifftshift(y))) / fftshift(fft(ifftshift(y)))"""
        y, sgn = a[0], (a[1] if len(a) > 1 else 1)
        inner = T["numpy.fft.ifftshift"].fn(ex, [y], {}, l)
        if sgn == 1:
            tr = T["numpy.fft.ifft"].fn(ex, [inner], {}, l)
            n = y.shape[0]
            tr = V.lam_array((n,), "cx", lambda idx: V.arith("*", n, Cx.of(tr.get(idx))))
        else:
            tr = T["numpy.fft.fft"].fn(ex, [inner], {}, l)
        return T["numpy.fft.fftshift"].fn(ex, [tr], {}, l)
    T["raw_dft"] = Builtin("spec:raw_dft", raw_dft)

    def setup_ft(S, which):
        """a function on a complete axis of any length"""
        if which == "time":
            ax, n = mk_time_axis(S, "complete", label="axis")
        else:
            ax, n = mk_freq_axis(S, "complete", label="axis")
        y = S.array("y", (n,), "cx")
        me = S.obj(DF + "DFunction", label="self", axis=ax, data=y, _has_imag=True, _is_empty=False,
                   _splines_initialized=False)
        d = dict(self=me, N=n, y=y, c=V.arith("//", n, 2))
        if which == "time":
            d.update(window=None, dt=S.leaves["dt"])
        else:
            d.update(dw=S.leaves["dw"])
        return d
    WPER = "forall((a, q), (ints, ints), Wroot(a + N*q, N) == Wroot(a, N))"
    WPERM = "forall((a, q), (ints, ints), Wroot(-(a + N*q), N) == Wroot(-a, N))"
    reg.add(Contract(DF + "DFunction.get_Fourier_transform#time-complete", setup=lambda S: setup_ft(S, "time"),
                     requires=["N >= 2", "dt > 0", WPER],
                     ensures=[("on-the-conjugate-axis", "result.axis.length == N and result.axis.step == %s/(N*dt)" % PI2),
                              ("direct-fourier-sum",
                               "forall(k, range(0, N), result.data[k] == Sum(n, range(0, N), y[n]*Wroot((n - c)*(k - c), N))*dt)",
                               dict(use=[("dft_centred", {"N": "N", "c": "c", "y": "y", "W": "Warr(N)", "Y": "raw_dft(y)"})]))]))
    reg.add(Contract(DF + "DFunction.get_Fourier_transform#frequency-complete", setup=lambda S: setup_ft(S, "freq"),
                     requires=["N >= 2", "dw > 0", WPER],
                     ensures=[("on-the-conjugate-axis", "result.axis.length == N and result.axis.step == %s/(N*dw)" % PI2),
                              ("direct-fourier-sum",
                               "forall(k, range(0, N), result.data[k] == Sum(n, range(0, N), y[n]*Wroot((n - c)*(k - c), N))*dw/%s)" % PI2,
                               dict(use=[("dft_centred", {"N": "N", "c": "c", "y": "y", "W": "Warr(N)", "Y": "raw_dft(y)"})]))]))
    reg.add(Contract(DF + "DFunction.get_inverse_Fourier_transform#time-complete", setup=lambda S: setup_ft(S, "time"),
                     requires=["N >= 2", "dt > 0", WPERM],
                     ensures=[("on-the-conjugate-axis", "result.axis.length == N and result.axis.step == %s/(N*dt)" % PI2),
                              ("direct-fourier-sum-with-the-opposite-sign",
                               "forall(k, range(0, N), result.data[k] == Sum(n, range(0, N), y[n]*Wroot(-((n - c)*(k - c)), N))*dt)",
                               dict(use=[("dft_centred", {"N": "N", "c": "c", "y": "y", "W": "Warr(N, -1)", "Y": "raw_dft(y, -1)"})]))]))
    reg.add(Contract(DF + "DFunction.get_inverse_Fourier_transform#frequency-complete", setup=lambda S: setup_ft(S, "freq"),
                     requires=["N >= 2", "dw > 0", WPERM],
                     ensures=[("on-the-conjugate-axis", "result.axis.length == N and result.axis.step == %s/(N*dw)" % PI2),
                              ("direct-fourier-sum-with-the-opposite-sign",
                               "forall(k, range(0, N), result.data[k] == Sum(n, range(0, N), y[n]*Wroot(-((n - c)*(k - c)), N))*dw/%s)" % PI2,
                               dict(use=[("dft_centred", {"N": "N", "c": "c", "y": "y", "W": "Warr(N, -1)", "Y": "raw_dft(y, -1)"})]))]))

    # ---- upper-half axes: the function is given for t >= 0 and continued by f(-t) = conj f(t) ---------------------------------------
    def setup_half(S, which):
        if which == "time":
            ax, n = mk_time_axis(S, "upper-half", label="axis")
        else:
            ax, n = mk_freq_axis(S, "upper-half", label="axis")
        y = S.array("y", (n,), "cx")
        me = S.obj(DF + "DFunction", label="self", axis=ax, data=y, _has_imag=S.bool("has_imag"), _is_empty=False,
                   _splines_initialized=False)
        d = dict(self=me, N=n, y=y)
        if which == "time":
            d.update(window=None, dt=S.leaves["dt"], M=V.arith("*", 2, n))
        else:
            d.update(dw=S.leaves["dw"], c=V.arith("//", n, 2), H=V.arith("//", n, 2))
        return d

    def hermitian_ext(ex, a, k, l):
        """the buffer the code builds from y: y on [0,N), 0 at N, conj(y[M-j]) above"""
        y = a[0]
        n = y.shape[0]
        m = V.arith("*", 2, n)

        def cell(idx):
            j = idx[0]
            return V.ite(V.compare("<", j, n), Cx.of(y.get([j])),
                         V.ite(V.compare("==", j, n), Cx(z3.RealVal(0), z3.RealVal(0)),
                               _conj(Cx.of(y.get([V.arith("-", m, j)])))))
        return V.lam_array((m,), "cx", cell)
    T["hermitian_ext"] = Builtin("spec:hermitian_ext", hermitian_ext)

    def raw_half(ex, a, k, l):
        """fftshift(M*ifft(yy)) as the code composes it"""
        yy = a[0]
        m = yy.shape[0]
        tr = T["numpy.fft.ifft"].fn(ex, [yy], {}, l)
        tr = V.lam_array((m,), "cx", lambda idx: V.arith("*", m, Cx.of(tr.get(idx))))
        return T["numpy.fft.fftshift"].fn(ex, [tr], {}, l)
    T["raw_half"] = Builtin("spec:raw_half", raw_half)
    WPER2 = "forall((a, q), (ints, ints), Wroot(a + M*q, M) == Wroot(a, M))"
    reg.add(Contract(DF + "DFunction.get_Fourier_transform#time-upper-half", setup=lambda S: setup_half(S, "time"),
                     requires=["N >= 1", "dt > 0", WPER2],
                     ensures=[("on-the-conjugate-axis", "result.axis.length == 2*N and result.axis.step == %s/(2*N*dt)" % PI2),
                              ("direct-fourier-sum-over-the-hermitian-extension",
                               "forall(k, range(0, M), result.data[k] == (Sum(n, range(0, N), y[n]*Wroot(n*(k - N), M)) "
                               "+ Sum(n, range(1, N), conj(y[n])*Wroot((0 - n)*(k - N), M)))*dt)",
                               dict(use=[("dft_hermitian", {"N": "N", "M": "M", "y": "y", "yy": "local_yy",
                                                            "W": "Warr(M)", "Y": "raw_half(local_yy)"})]))],
                     expose_locals=["yy"],
                     loops={0: dict(inv=["forall(j, range(M - _i, M), yy[j] == conj(y[M - j]))",
                                         "forall(j, range(0, M - _i), yy[j] == entry(yy)[j])"], modifies=["yy"])}))
    WPERMH = "forall((a, q), (ints, ints), Wroot(-(a + N*q), N) == Wroot(-a, N))"
    reg.add(Contract(DF + "DFunction.get_inverse_Fourier_transform#frequency-upper-half", setup=lambda S: setup_half(S, "freq"),
                     requires=["N >= 2", "N % 2 == 0", "dw > 0", WPERMH],
                     ensures=[("on-the-conjugate-axis", "result.axis.length == H and result.axis.step == %s/(N*dw)" % PI2),
                              ("non-negative-times-of-the-centred-inverse-sum",
                               "forall(k, range(H, N), result.data[k - H] == Sum(n, range(0, N), y[n]*Wroot(-((n - c)*(k - c)), N))*dw/%s)" % PI2,
                               dict(use=[("dft_centred", {"N": "N", "c": "c", "y": "y", "W": "Warr(N, -1)", "Y": "raw_dft(y, -1)"})]))]))


def _call(S, q, obj):
    fi = S.ex.repo.function(q)
    return S.ex.call_function(fi, [], {}, bound=obj)


def lemma_roundtrips(ctx):
    """the real code of both conversions executed one after the other on a symbolic axis"""
    SAME_T = [("same-length-and-type", "back.length == ax.length and back.atype == ax.atype"),
              ("same-step", "back.step == ax.step"), ("same-start", "back.start == ax.start"),
              ("same-conjugate-origin", "back.frequency_start == ax.frequency_start"),
              ("same-grid", "forall(i, range(0, ax.length), back.data[i] == ax.data[i])")]
    SAME_W = [("same-length-and-type", "back.length == ax.length and back.atype == ax.atype"),
              ("same-step", "back.step == ax.step"), ("same-start", "back.start == ax.start"),
              ("same-conjugate-origin", "back.time_start == ax.time_start"),
              ("same-grid", "forall(i, range(0, ax.length), back.data[i] == ax.data[i])")]
    obs = []
    for atype in ("complete", "upper-half"):
        def setup_t(S, atype=atype):
            ax, n = mk_time_axis(S, atype, label="ax")
            S.ex.assume(z3.And(n >= (2 if atype == "complete" else 1), S.leaves["dt"] > 0))
            w = _call(S, TM + "TimeAxis.get_FrequencyAxis", ax)
            back = _call(S, FQ + "FrequencyAxis.get_TimeAxis", w)
            return dict(ax=ax, w=w, back=back, N=n)
        obs += clause_lemma(ctx, "t-w-t-" + atype, setup_t, ["N >= 1", "ax.step > 0"] + (["N >= 2"] if atype == "complete" else []),
                            SAME_T, where="props/C13.py: TimeAxis.get_FrequencyAxis then FrequencyAxis.get_TimeAxis (real code)")

        def setup_w(S, atype=atype):
            ax, n = mk_freq_axis(S, atype, label="ax")
            S.ex.assume(z3.And(n >= 2, S.leaves["dw"] > 0))
            if atype == "upper-half":
                S.ex.assume(n % 2 == 0)
            t = _call(S, FQ + "FrequencyAxis.get_TimeAxis", ax)
            back = _call(S, TM + "TimeAxis.get_FrequencyAxis", t)
            return dict(ax=ax, t=t, back=back, N=n)
        obs += clause_lemma(ctx, "w-t-w-" + atype, setup_w, ["N >= 2", "ax.step > 0"] + (["N % 2 == 0"] if atype == "upper-half" else []),
                            SAME_W, where="props/C13.py: FrequencyAxis.get_TimeAxis then TimeAxis.get_FrequencyAxis (real code)")
    return obs


def lemma_transform_roundtrip(ctx):
    """postcondition of get_Fourier_transform (complete time axis) followed by the postcondition of
    get_inverse_Fourier_transform (complete frequency axis with step 2 pi/(N dt)) returns the original values:
    hypotheses of the Lean lemma dft_inversion"""
    def setup(S):
        n = S.int("N")
        d = dict(N=n, c=V.arith("//", n, 2), dt=S.real("dt"), dw=S.real("dw"), y=S.array("y", (n,), "cx"),
                 F=S.array("F", (n,), "cx"), g=S.array("g", (n,), "cx"))
        d["Fs"] = V.lam_array((n,), "cx", lambda idx: V.arith("/", Cx.of(d["F"].get(idx)), d["dt"]))
        d["gs"] = V.lam_array((n,), "cx", lambda idx: V.arith("/", V.arith("*", Cx.of(d["g"].get(idx)), V.arith("*", 2, V.const_pi())),
                                                                 V.arith("*", d["dw"], d["dt"])))
        return d
    post = ["N >= 2", "dt > 0", "dw == %s/(N*dt)" % PI2,
            # trusted facts about W(k, N) = exp(2 pi i k / N)
            "forall((a, b), (ints, ints), Wroot(a + b, N) == Wroot(a, N)*Wroot(b, N))",
            "forall(d, ints, Sum(k, range(0, N), Wroot((k - c)*d, N)) == ite(d % N == 0, N, 0))",
            # DFunction.get_Fourier_transform#time-complete : direct-fourier-sum
            "forall(k, range(0, N), F[k] == Sum(n, range(0, N), y[n]*Wroot((n - c)*(k - c), N))*dt)",
            # DFunction.get_inverse_Fourier_transform#frequency-complete : direct-fourier-sum-with-the-opposite-sign
            "forall(k, range(0, N), g[k] == Sum(n, range(0, N), F[n]*Wroot(-((n - c)*(k - c)), N))*dw/%s)" % PI2]
    goals = [("original-values-recovered", "forall(m, range(0, N), g[m] == y[m])")]
    return clause_lemma(ctx, "transform-then-inverse-transform", setup, post, goals,
                        where="props/C13.py (over the postconditions of the two transforms)",
                        use=[("dft_inversion", {"N": "N", "c": "c", "s1": "dt", "s2": "dw/%s" % PI2, "y": "y", "W": "Warr(N)",
                                                "F": "F", "g": "g"})])


def plan(ctx):
    p = Plan("C13")
    contracts(ctx.registry)
    p.functions = [TM + "TimeAxis.get_FrequencyAxis#complete", TM + "TimeAxis.get_FrequencyAxis#upper-half",
                   FQ + "FrequencyAxis.get_TimeAxis#complete", FQ + "FrequencyAxis.get_TimeAxis#upper-half",
                   VA + "ValueAxis.__init__", TM + "TimeAxis.__init__", FQ + "FrequencyAxis.__init__",
                   DF + "DFunction.get_Fourier_transform#time-complete", DF + "DFunction.get_Fourier_transform#frequency-complete",
                   DF + "DFunction.get_inverse_Fourier_transform#time-complete",
                   DF + "DFunction.get_inverse_Fourier_transform#frequency-complete",
                   DF + "DFunction.get_Fourier_transform#time-upper-half",
                   DF + "DFunction.get_inverse_Fourier_transform#frequency-upper-half"]
    p.lemmas = [lemma_roundtrips, lemma_transform_roundtrip]
    p.extra_axioms = list(V.pi_axioms())
    p.trusted = ["numpy.fft.fft / ifft compute sum_j x[j] exp(-/+ 2 pi i j m / n) (/n); fftshift / ifftshift are roll(x, n//2) / "
                 "roll(x, -(n//2)); fftfreq(n, d)[i] = (i if i <= (n-1)//2 else i-n)/(n d); numpy.linspace is the linear grid",
                 "W(k, n) = exp(2 pi i k / n): W(a + n q) = W(a), W(a + b) = W(a) W(b), sum over a period of W((k-c) d) = n if n | d else 0",
                 "3.14159265 < pi < 3.14159266 is all that is used of pi"]
    p.not_decided = ["windowed transforms (window argument)", "Fourier transform of a function on an upper-half frequency axis",
                     "inverse transform applied to a time-domain upper-half function (factor conventions)",
                     "round trip transform / inverse transform on upper-half axes (needs the Hermitian symmetry of the "
                     "spectrum)", "floating-point rounding (\"up to rounding\" is exact equality over the reals here)"]
    p.oracles = ["native/oracle_C13.py"]
    return p
