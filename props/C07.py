"""C07 - operator form, tensor form and exact limits of a relaxation tensor agree."""
import z3

from qvc.main import Plan
from qvc.spec import Contract, clause_lemma
from qvc.values import Builtin, Obj, SymArr
from qvc import values as V
from qvc import lemmalib
from props.common import serial_manager, plain_basis_properties
import props.C01 as C01

RT = "quantarhei/qm/liouvillespace/redfieldtensor.py::"
SO = "quantarhei/qm/liouvillespace/superoperator.py::"
RP = "quantarhei/qm/propagators/rdmpropagator.py::"

META = dict(
    category="proof",
    text=("RedfieldRelaxationTensor.apply in operator form is proved (loop invariant over the bath components, arbitrary "
          "complex - not only Hermitian - operand) to return sum_m K rho L+ + L rho K^T - K^T L rho - rho L+ K cell by "
          "cell, SuperOperator.apply to return the contraction sum_cd R[a,b,c,d] rho[c,d]; a Lean lemma whose hypotheses "
          "are those two postconditions and the postcondition of the operator-to-tensor conversion (C01) gives that both "
          "forms act identically on every operator, for every number of states and bath components. The two functions "
          "that apply the same actions inside the propagation loops, rdmpropagator._OTI and _TTI, are proved to add "
          "(dt/ll) times exactly those two expressions to the accumulated term. The spline integral behind the two Redfield "
          "tensors is under contract in both places: _guts_Cmplx_Splines (time-independent) adds, for every pair (a,b), "
          "the value at the LAST time index of the antiderivative of C(t) exp(-i w_ab t) times K[ms,a,b] to Lambda[ms,a,b] "
          "and touches no other bath component; TDRedfieldRelaxationTensor._implementation stores at every time index t "
          "the value of the same antiderivative at t times K - the same expression, so the time-dependent operators at "
          "their last index are the time-independent ones, and they vanish at time zero (the antiderivative starts at "
          "zero). Through that lemma "
          "the operator-form propagation step inherits the trace/Hermiticity results of C02. Not decided here: equality "
          "of whole propagated dynamics (same generator is shown, truncation not needed), the four-index form of the "
          "time-dependent limits, the analytic pure-dephasing limit."),
    note="objects acted upon are stand-ins with a plain data array; basis contexts are the subject of C04; "
         "UnivariateSpline(t, y, s=0).antiderivative()(t) is an uninterpreted deterministic function of (t, y) that is "
         "zero at the first point (assumed contract of SciPy).",
    technique="VCs from the real AST (sidecar loop invariant, modular call rule) discharged by z3; operator-form = "
              "tensor-form lemma in Lean 4 with hypotheses printed from the contract clauses",
)

N2 = "(range(0, N), range(0, N))"
OPTERM = ("Sum(k, range(0, N), Km[{m},a,k]*Sum(l, range(0, N), rho[k,l]*Ld[{m},l,b])) "
          "+ Sum(k, range(0, N), Lm[{m},a,k]*Sum(l, range(0, N), rho[k,l]*Km[{m},b,l])) "
          "- Sum(k, range(0, N), Sum(l, range(0, N), Km[{m},l,a]*Lm[{m},l,k])*rho[k,b]) "
          "- Sum(k, range(0, N), rho[a,k]*Sum(l, range(0, N), Ld[{m},k,l]*Km[{m},l,b]))")


def contracts(reg):
    plain_basis_properties(reg.models)

    def setup_apply(S):
        serial_manager(S)
        n, nb = S.int("N"), S.int("Nb")
        Km, Lm, Ld = S.array("Km", (nb, n, n), "real"), S.array("Lm", (nb, n, n), "cx"), S.array("Ld", (nb, n, n), "cx")
        me = S.obj(RT + "RedfieldRelaxationTensor", label="self", as_operators=True, _Km=Km, _Lm=Lm, _Ld=Ld)
        rho = S.array("rho", (n, n), "cx")
        oper = S.obj("Operator(stub)", label="oper", data=rho)
        return dict(self=me, oper=oper, copy=True, N=n, Nb=nb, Km=Km, Lm=Lm, Ld=Ld, rho=rho)
    # the code's Kd[mm] is K[mm]^T; written out, the accumulated term for component m is OPTERM
    CODE_TERM = OPTERM
    reg.add(Contract(
        RT + "RedfieldRelaxationTensor.apply", setup=setup_apply, requires=["N >= 0", "Nb >= 0"],
        ensures=[("operator-form-action",
                  "forall((a, b), %s, result.data[a,b] == Sum(mm, range(0, Nb), %s))" % (N2, OPTERM.format(m="mm"))),
                 ("operand-untouched", "oper.data is rho"),
                 ("result-is-a-new-object", "result is not oper")],
        loops={0: dict(inv=["forall((a, b), %s, ven[a,b] == Sum(mm, range(0, _i), %s))" % (N2, OPTERM.format(m="mm")),
                            "forall((m, i, j), (range(0, _i), range(0, N), range(0, N)), Kd[m,i,j] == Km[m,j,i])"],
                       modifies=["ven", "Kd"])}))

    def setup_sapply(S):
        serial_manager(S)
        n = S.int("N")
        R = S.array("R", (n, n, n, n), "cx")
        me = S.obj(SO + "SuperOperator", label="self", _data=R)
        rho = S.array("rho", (n, n), "cx")
        oper = S.obj("Operator(stub)", label="oper", data=rho)
        return dict(self=me, oper=oper, copy=True, N=n, R=R, rho=rho)
    reg.add(Contract(
        SO + "SuperOperator.apply", setup=setup_sapply, requires=["N >= 0"],
        ensures=[("tensor-form-action",
                  "forall((a, b), %s, result.data[a,b] == Sum(c, range(0, N), Sum(d, range(0, N), R[a,b,c,d]*rho[c,d])))" % N2),
                 ("operand-untouched", "oper.data is rho"),
                 ("result-is-a-new-object", "result is not oper")]))

    # ---- the same two actions as they are applied inside the propagation loops (rdmpropagator._OTI / _TTI) -----------------------
    # _OTI receives K^T explicitly (Kd[m] = Km[m]^T is built by its callers); stated with that as a precondition the
    # accumulated term is the same OPTERM as for RedfieldRelaxationTensor.apply
    def setup_oti(S):
        n, nb = S.int("N"), S.int("Nb")
        Km = S.array("Km", (nb, n, n), "real")
        # precondition built into the set-up: Kd[m] is the transpose of Km[m] (how every caller constructs it)
        Kd = V.lam_array((nb, n, n), "real", lambda idx: Km.get([idx[0], idx[2], idx[1]]))
        Lm, Ld = S.array("Lm", (nb, n, n), "cx"), S.array("Ld", (nb, n, n), "cx")
        return dict(rhoY=S.array("rhoY", (n, n), "cx"), Km=Km, Kd=Kd, Lm=Lm, Ld=Ld, ll=S.int("ll"), dt=S.real("dt"),
                    rho1=S.array("rho", (n, n), "cx"), N=n, Nb=nb, rho=None)

    def ghost_oti(S, env):
        env["rho"] = env["rho1"]
    KT = "forall((m, i, j), (range(0, Nb), range(0, N), range(0, N)), Kd[m,i,j] == Km[m,j,i])"
    reg.add(Contract(
        RP + "_OTI", setup=setup_oti, ghost=ghost_oti, requires=["N >= 0", "Nb >= 0", "ll >= 1", ("Kd-is-K-transposed", KT)],      # (holds by construction of the set-up)
        modifies=["rhoY"],
        ensures=[("operator-form-action-added",
                  "forall((a, b), %s, rhoY[a,b] == old(rhoY)[a,b] + Sum(mm, range(0, Nb), (dt/ll)*(%s)))"
                  % (N2, OPTERM.format(m="mm"))),
                 ("state-untouched", "forall((a, b), %s, rho1[a,b] == old(rho1)[a,b])" % N2)],
        loops={0: dict(inv=["forall((a, b), %s, rhoY[a,b] == entry(rhoY)[a,b] + Sum(mm, range(0, _i), (dt/ll)*(%s)))"
                            % (N2, OPTERM.format(m="mm"))])}))

    def setup_tti(S):
        n = S.int("N")
        return dict(rhoY=S.array("rhoY", (n, n), "cx"), RR=S.array("R", (n, n, n, n), "cx"), IR=0, ll=S.int("ll"),
                    dt=S.real("dt"), rho1=S.array("rho", (n, n), "cx"), L=S.int("L"), N=n)
    reg.add(Contract(
        RP + "_TTI", setup=setup_tti, requires=["N >= 0", "ll >= 1", "L >= 1"], modifies=["rhoY"],
        ensures=[("tensor-form-action-added",
                  "forall((a, b), %s, rhoY[a,b] == old(rhoY)[a,b] + (dt/ll)*Sum(c, range(0, N), "
                  "Sum(d, range(0, N), RR[a,b,c,d]*rho1[c,d])))" % N2)]))

    # ---- the spline integral: its final value (time-independent tensor) and its running value (time-dependent tensor) ---------------------
    # spline_primitive(t, y) is the assumed contract of UnivariateSpline(t, y, s=0).antiderivative()(t): a deterministic
    # function of the two arrays that vanishes at the first point.
    INTEGRAND = "rc1[0:length]*numpy.exp(-1.0j*Om[a,b]*tm)"
    PRIM = "(spline_primitive(tm, numpy.real(%s))[{t}] + 1.0j*spline_primitive(tm, numpy.imag(%s))[{t}])" % (INTEGRAND, INTEGRAND)

    def setup_guts(S):
        nb, na, nt, ln = S.int("Nb"), S.int("Na"), S.int("Nt"), S.int("length")
        me = S.obj(RT + "RedfieldRelaxationTensor", label="self")
        return dict(self=me, ms=S.int("ms"), Lm=S.array("Lm", (nb, na, na), "cx"), Km=S.array("Km", (nb, na, na), "real"),
                    Na=na, Om=S.array("Om", (na, na), "real"), length=ln, rc1=S.array("rc1", (nt,), "cx"),
                    tm=S.array("tm", (ln,), "real"), Nb=nb, Nt=nt)
    reg.add(Contract(
        RT + "RedfieldRelaxationTensor._guts_Cmplx_Splines", setup=setup_guts,
        requires=["Na >= 0", "0 <= ms and ms < Nb", "1 <= length and length <= Nt"],
        modifies=["Lm"],
        ensures=[("final-value-of-the-spline-integral-times-K-added",
                  "forall((a, b), (range(0, Na), range(0, Na)), Lm[ms,a,b] == old(Lm)[ms,a,b] + %s*Km[ms,a,b])"
                  % PRIM.format(t="length - 1")),
                 ("other-bath-components-untouched",
                  "forall((m, a, b), (range(0, Nb), range(0, Na), range(0, Na)), implies(m != ms, Lm[m,a,b] == old(Lm)[m,a,b]))")]))

    # time-dependent tensor: the running value of the same integral, at every time index (set-up, preconditions and the
    # loop specification of the K-operator loop are those of C01; the Lambda loops are summarised automatically)
    C01.contracts_td(reg)
    base = reg.contracts[C01.TD + "TDRedfieldRelaxationTensor._implementation#operators"]
    TINT = "sbi.CC.get_coft(m, m)[0:local_length]*numpy.exp(-1.0j*local_Om[a,b]*local_tm)"
    TPRIM = "(spline_primitive(local_tm, numpy.real(%s))[t] + 1.0j*spline_primitive(local_tm, numpy.imag(%s))[t])" % (TINT, TINT)
    ALL4 = "(range(0, self.Nt), range(0, Nb), range(0, Na), range(0, Na))"
    reg.add(Contract(
        C01.TD + "TDRedfieldRelaxationTensor._implementation#lambda-values", setup=base.setup,
        requires=list(base.requires) + ["sbi.TimeAxis.length >= 1"], loops=base.loops,
        ensures=[("running-value-of-the-spline-integral-times-K-at-every-time",
                  "forall((t, m, a, b), %s, self.Lm[t,m,a,b] == %s*self.Km[m,a,b])" % (ALL4, TPRIM)),
                 ("vanishes-at-time-zero",
                  "forall((m, a, b), (range(0, Nb), range(0, Na), range(0, Na)), implies(self.Nt >= 1, self.Lm[0,m,a,b] == 0))"),
                 ("transition-frequencies", "forall((a, b), (range(0, Na), range(0, Na)), local_Om[a,b] == local_hD[a] - local_hD[b])"),
                 ("times-are-the-bath-time-axis-up-to-the-cut-off",
                  "self.Nt == local_length and forall(t, range(0, local_length), local_tm[t] == sbi.TimeAxis.data[t])")],
        expose_locals=["Om", "tm", "length", "hD"]))


def lemma_forms_agree(ctx):
    """postconditions of the conversion (C01), of the operator-form apply and of the tensor-form apply are the hypotheses /
    conclusion of the Lean lemma operator_equals_tensor"""
    def setup(S):
        n, nb = S.int("N"), S.int("Nb")
        d = dict(N=n, Na=n, Nb=nb, Km=S.array("Km", (nb, n, n), "real"), Lm=S.array("Lm", (nb, n, n), "cx"),
                 Ld=S.array("Ld", (nb, n, n), "cx"), R=S.array("R", (n, n, n, n), "cx"), rho=S.array("rho", (n, n), "cx"),
                 O=S.array("O", (n, n), "cx"), T=S.array("T", (n, n), "cx"))
        d["K"], d["L"], d["r"] = d["Km"], d["Lm"], d["rho"]
        return d
    R4 = C01.R4
    post = ["N >= 0", "Nb >= 0",
            "forall((a, b, c, d), %s, R[a,b,c,d] == Sum(mm, range(0, Nb), %s))" % (R4, C01.REL_M.format(m="mm")),
            "forall((a, b), %s, O[a,b] == Sum(mm, range(0, Nb), %s))" % (N2, OPTERM.format(m="mm")),
            "forall((a, b), %s, T[a,b] == Sum(c, range(0, N), Sum(d, range(0, N), R[a,b,c,d]*rho[c,d])))" % N2]
    ctx.used_lemmas = set(getattr(ctx, "used_lemmas", ())) | {"operator_equals_tensor"}
    obs = clause_lemma(ctx, "apply-posts-give-lemma-hypotheses", setup, post,
                       lemmalib.LEMMAS["operator_equals_tensor"]["hyps"],
                       where="props/C07.py (over the contracts of apply / SuperOperator.apply / _convert_operators_2_tensor)")
    obs += clause_lemma(ctx, "forms-act-identically", setup,
                        post + [lemmalib.LEMMAS["operator_equals_tensor"]["concl"]],
                        [("operator-form-equals-tensor-form", "forall((a, b), %s, O[a,b] == T[a,b])" % N2)],
                        where="props/C07.py (conclusion of the Lean lemma + postcondition of SuperOperator.apply)")
    return obs


def plan(ctx):
    p = Plan("C07")
    contracts(ctx.registry)
    p.functions = [RT + "RedfieldRelaxationTensor.apply", SO + "SuperOperator.apply", RP + "_OTI", RP + "_TTI",
                   RT + "RedfieldRelaxationTensor._guts_Cmplx_Splines",
                   C01.TD + "TDRedfieldRelaxationTensor._implementation#lambda-values"]
    tt_, yy_ = z3.Consts("ax_t ax_y", z3.ArraySort(z3.IntSort(), z3.RealSort()))
    prim_ = z3.Function("u_prim", z3.ArraySort(z3.IntSort(), z3.RealSort()), z3.ArraySort(z3.IntSort(), z3.RealSort()),
                        z3.ArraySort(z3.IntSort(), z3.RealSort()))
    p.extra_axioms = list(getattr(p, "extra_axioms", [])) + [
        z3.ForAll([tt_, yy_], z3.Select(prim_(tt_, yy_), 0) == 0, patterns=[prim_(tt_, yy_)])]
    p.lemmas = [lemma_forms_agree]
    p.oracles = ["native/oracle_C07.py"]
    p.trusted = ["UnivariateSpline(t, y, s=0).antiderivative()(t) is a deterministic function prim(t, y) of the two arrays with "
                 "prim(t, y)[0] == 0 (SciPy: the antiderivative is the integral from the first knot)",
                 "in the _OTI set-up Kd[m] is the transpose of Km[m] (how every caller builds it)",
                 "numpy.linalg.eigh / scipy.linalg.inv in the time-dependent implementation: assumed contracts as in C01"]
    p.not_decided = ["TDRedfieldRelaxationTensor.data[0] == 0 and data[-1] == static tensor in four-index form: shown for the "
                     "operator components Lambda_m(t) (the conversion to four-index form is the same function of them, C01)",
                     "uncoupled sites reproduce exp(-i w t - g(t)) up to the time-step error",
                     "equality of whole propagated trajectories (only the generator is shown equal)"]
    return p
