"""C20 - distributed work ranges partition the index range exactly.

Functions under contract (read from the working tree on every run):
  parallel.py::_calculate_ranges, _calculate_ranges_list, _calculate_ranges_array,
  block_distributed_range, block_distributed_list, block_distributed_array
The property-level clauses (first/last/contiguous/balanced/empty) are transcribed from the property statement and
are postconditions of `_calculate_ranges`; the public helpers are proved modularly from that contract.
"""
from qvc.main import Plan
from qvc.spec import Contract
from qvc import lean

META = dict(
    category="proof",
    text=("Every block-distribution helper is proved against a contract whose postcondition is the partition "
          "statement of the property (first block starts at start, last ends at stop, consecutive blocks contiguous, "
          "sizes within one of each other, empty range gives empty blocks, each helper returns exactly the caller's "
          "block) for all process counts, ranks, starts and stops with no bound: the rank loop is summarised from "
          "the AST, z3 discharges the non-linear integer obligations; a Lean lemma then gives, for every P and every "
          "summand, that the sum over ranks of per-block sums equals the serial sum."),
    note="MPI itself (Allreduce as the sum over ranks) is not modelled; asynchronous_range is outside the subset.",
    technique="VCs from the real AST (map-loop summary of the rank loop, modular call rule) discharged by z3; "
              "sum-over-blocks lemma in Lean 4/Mathlib with hypotheses printed from the contract clauses",
)

PAR = "quantarhei/core/parallel.py::"
MGR = "quantarhei/core/managers.py::"

# partition of [start, stop) into config.size blocks R[k] = [R[k][0], R[k][1])  -- from the property text
PARTITION = [
    ("len", "len({R}) == {P}"),
    ("covers-from-start", "implies({stop} >= {start}, {R}[0][0] == {start})"),
    ("covers-to-stop", "implies({stop} >= {start}, {R}[{P}-1][1] == {stop})"),
    ("contiguous", "implies({stop} >= {start}, forall(k, range(0, {P}-1), {R}[k][1] == {R}[k+1][0]))"),
    ("balanced", "implies({stop} >= {start}, forall(k, range(0, {P}), "
                 "({stop}-{start})//{P} <= {R}[k][1]-{R}[k][0] and {R}[k][1]-{R}[k][0] <= ({stop}-{start})//{P} + 1))"),
    ("empty-range-empty-blocks", "implies({stop} < {start}, forall(k, range(0, {P}), {R}[k][1] <= {R}[k][0]))"),
    ("within", "implies({stop} >= {start}, forall(k, range(0, {P}), {start} <= {R}[k][0] and {R}[k][1] <= {stop}))"),
]


def partition(R, P, start, stop):
    return [(n, c.format(R=R, P=P, start=start, stop=stop)) for n, c in PARTITION]


def _cfg(S):
    cfg = S.obj(PAR + "DistributedConfiguration", label="cfg", size=S.int("size"), rank=S.int("rank"),
                parallel_level=S.int("parallel_level"), parallel_region=S.int("parallel_region"))
    mgr = S.obj(MGR + "Manager", label="mgr", parallel_conf=cfg)
    S.singleton("Manager", mgr)
    return cfg


CFG_OK = ["cfg.size >= 1", "0 <= cfg.rank", "cfg.rank < cfg.size"]


def contracts(reg):
    # ---- _calculate_ranges --------------------------------------------------------------------
    def setup_cr(S):
        cfg = S.obj(PAR + "DistributedConfiguration", label="config", size=S.int("size"), rank=S.int("rank"))
        return dict(config=cfg, start=S.int("start"), stop=S.int("stop"))

    def result_cr(S, env):
        cfg = env["config"]
        cfg.fields["ranges"] = S.fresh_symlist(cfg.fields["size"], width=2, prefix="ranges")
        return [S.fresh_int("N1"), S.fresh_int("N2")]

    reg.add(Contract(
        PAR + "_calculate_ranges", setup=setup_cr,
        requires=["config.size >= 1", "0 <= config.rank", "config.rank < config.size"],
        modifies=["config.ranges"], result=result_cr,
        ensures=partition("config.ranges", "config.size", "start", "stop") + [
            ("own-block", "result[0] == config.ranges[config.rank][0] and result[1] == config.ranges[config.rank][1]"),
        ]))

    # ---- thin wrappers ---------------------------------------------------------------------------
    def setup_crl(S):
        cfg = S.obj(PAR + "DistributedConfiguration", label="config", size=S.int("size"), rank=S.int("rank"))
        n = S.int("n")
        return dict(config=cfg, dlist=S.symlist("dlist", n))

    reg.add(Contract(
        PAR + "_calculate_ranges_list", setup=setup_crl,
        requires=["config.size >= 1", "0 <= config.rank", "config.rank < config.size", "len(dlist) >= 0"],
        modifies=["config.ranges"], result=result_cr,
        ensures=partition("config.ranges", "config.size", "0", "len(dlist)") + [
            ("own-block", "result[0] == config.ranges[config.rank][0] and result[1] == config.ranges[config.rank][1]"),
        ]))

    def setup_cra(S):
        cfg = S.obj(PAR + "DistributedConfiguration", label="config", size=S.int("size"), rank=S.int("rank"))
        n = S.int("n")
        return dict(config=cfg, array=S.array("array", (n,), "real"))

    reg.add(Contract(
        PAR + "_calculate_ranges_array", setup=setup_cra,
        requires=["config.size >= 1", "0 <= config.rank", "config.rank < config.size", "array.shape[0] >= 0"],
        modifies=["config.ranges"], result=result_cr,
        ensures=partition("config.ranges", "config.size", "0", "array.shape[0]") + [
            ("own-block", "result[0] == config.ranges[config.rank][0] and result[1] == config.ranges[config.rank][1]"),
        ]))

    # ---- public helpers --------------------------------------------------------------------------
    RAISES = {"Exception": {"when": "cfg.parallel_region < 1",
                            "ensures": ["cfg.parallel_level == old(cfg.parallel_level)"]}}

    def setup_bdr(S):
        cfg = _cfg(S)
        return dict(start=S.int("start"), stop=S.int("stop"))

    def ghost_cfg(S, env):
        env["cfg"] = S.ex.globals_heap["Manager"].fields["parallel_conf"]

    LO = "cfg.ranges[cfg.rank][0]"
    HI = "cfg.ranges[cfg.rank][1]"
    def result_bdr(S, env):
        from qvc.values import Range
        cfg = S.ex.globals_heap["Manager"].fields["parallel_conf"]
        from qvc.values import is_z3
        lvl = cfg.fields.get("parallel_level")
        if is_z3(lvl) or lvl == 1:
            cfg.fields["ranges"] = S.fresh_symlist(cfg.fields["size"], width=2, prefix="ranges")
        r_ = Range(S.fresh_int("blk_lo"), S.fresh_int("blk_hi"))
        r_.distributed = True        # ghost: what a loop over this range writes is a per-process partial result
        return r_

    reg.add(Contract(
        PAR + "block_distributed_range", setup=setup_bdr, ghost=ghost_cfg, requires=CFG_OK, raises=RAISES,
        result=result_bdr,
        ensures=[("serial-whole-range", "implies(cfg.parallel_level != 1, result.start == start and result.stop == stop)"),
                 ("parallel-own-block", "implies(cfg.parallel_level == 1, result.start == %s and result.stop == %s)" % (LO, HI))]
        + [("parallel-" + n, "implies(cfg.parallel_level == 1, %s)" % c)
           for n, c in partition("cfg.ranges", "cfg.size", "start", "stop")]))

    def setup_bdl(S, ri):
        _cfg(S)
        n = S.int("n")
        return dict(dlist=S.symlist("dlist", n), return_index=ri)

    block = "0 <= %s and %s <= %s and %s <= len(dlist)" % (LO, LO, HI, HI)
    for ri in (False, True):
        elem = "result[k][0] == {lo}+k and result[k][1] == dlist[{lo}+k]" if ri else "result[k] == dlist[{lo}+k]"
        reg.add(Contract(
            PAR + "block_distributed_list" + ("#return_index" if ri else ""),
            setup=(lambda S, ri=ri: setup_bdl(S, ri)), ghost=ghost_cfg,
            requires=CFG_OK + ["len(dlist) >= 0"], raises=RAISES,
            ensures=[("serial-whole-list", "implies(cfg.parallel_level != 1, len(result) == len(dlist) and "
                      "forall(k, range(0, len(dlist)), %s))" % elem.format(lo="0")),
                     ("parallel-block-in-list", "implies(cfg.parallel_level == 1, %s)" % block),
                     ("parallel-own-block", "implies(cfg.parallel_level == 1, len(result) == %s - %s and "
                      "forall(k, range(0, %s - %s), %s))" % (HI, LO, HI, LO, elem.format(lo=LO)))]
            + [("parallel-" + n, "implies(cfg.parallel_level == 1, %s)" % c)
               for n, c in partition("cfg.ranges", "cfg.size", "0", "len(dlist)")]))

    def setup_bda(S, ri):
        _cfg(S)
        n = S.int("n")
        return dict(array=S.array("array", (n,), "real"), return_index=ri)

    blocka = "0 <= %s and %s <= %s and %s <= array.shape[0]" % (LO, LO, HI, HI)
    for ri in (False, True):
        elem = "result[k][0] == {lo}+k and result[k][1] == array[{lo}+k]" if ri else "result[k] == array[{lo}+k]"
        reg.add(Contract(
            PAR + "block_distributed_array" + ("#return_index" if ri else ""),
            setup=(lambda S, ri=ri: setup_bda(S, ri)), ghost=ghost_cfg,
            requires=CFG_OK + ["array.shape[0] >= 0"], raises=RAISES,
            ensures=[("serial-whole-array", "implies(cfg.parallel_level != 1, len(result) == array.shape[0] and "
                      "forall(k, range(0, array.shape[0]), %s))" % elem.format(lo="0")),
                     ("parallel-block-in-array", "implies(cfg.parallel_level == 1, %s)" % blocka),
                     ("parallel-own-block", "implies(cfg.parallel_level == 1, len(result) == %s - %s and "
                      "forall(k, range(0, %s - %s), %s))" % (HI, LO, HI, LO, elem.format(lo=LO)))]
            + [("parallel-" + n, "implies(cfg.parallel_level == 1, %s)" % c)
               for n, c in partition("cfg.ranges", "cfg.size", "0", "array.shape[0]")]))


REPLAY_COMMON = r'''
import sys, json
from fractions import Fraction
import quantarhei
from quantarhei.core import parallel
from quantarhei.core.managers import Manager

class StubConf:
    """stands in for DistributedConfiguration when mpi4py is absent: the helpers read only these fields"""
    def __init__(self, size, rank, parallel_level=1, parallel_region=1):
        self.size, self.rank = size, rank
        self.parallel_level, self.parallel_region = parallel_level, parallel_region
        self.inparallel_entered = False
        self.range = None
        self.ranges = None

def partition_violations(blocks, P, start, stop):
    """the property statement, natively"""
    bad = []
    if len(blocks) != P:
        bad.append("number of blocks %d != %d" % (len(blocks), P))
        return bad
    if stop >= start:
        q = (stop - start) // P
        if blocks[0][0] != start: bad.append("first block starts at %r, not at start=%r" % (blocks[0][0], start))
        if blocks[-1][1] != stop: bad.append("last block ends at %r, not at stop=%r" % (blocks[-1][1], stop))
        for k in range(P - 1):
            if blocks[k][1] != blocks[k + 1][0]: bad.append("blocks %d and %d are not contiguous: %r %r" % (k, k + 1, blocks[k], blocks[k + 1]))
        for k in range(P):
            n = blocks[k][1] - blocks[k][0]
            if not (q <= n <= q + 1): bad.append("block %d has size %d, not in [%d,%d]" % (k, n, q, q + 1))
        covered = sorted(i for b in blocks for i in range(b[0], b[1]))
        if covered != list(range(start, stop)): bad.append("union of blocks %r != range(%d,%d)" % (blocks, start, stop))
    else:
        for k in range(P):
            if blocks[k][1] > blocks[k][0]: bad.append("block %d non-empty for an empty range" % k)
    return bad
'''


def replayer(ob, model):
    nm = ob.name
    size = model.get("size")
    if not isinstance(size, int) or size < 1 or size > 64:
        return None
    if "_calculate_ranges" in ob.where and "start" in model:
        return REPLAY_COMMON + r'''
size, start, stop = MODEL["size"], MODEL["start"], MODEL["stop"]
blocks = []
for rank in range(size):
    r = parallel._calculate_ranges(StubConf(size, rank), start, stop)
    blocks.append((r[0], r[1]))
bad = partition_violations(blocks, size, start, stop)
print("size=%d start=%d stop=%d blocks=%r" % (size, start, stop, blocks))
for b in bad: print("VIOLATED:", b)
sys.exit(1 if bad else 0)
'''
    if "block_distributed_range" in ob.where:
        return REPLAY_COMMON + r'''
size, start, stop = MODEL["size"], MODEL["start"], MODEL["stop"]
level = MODEL.get("parallel_level", 1)
m = Manager()
saved = m.parallel_conf
bad = []
try:
    blocks = []
    for rank in range(size):
        m.parallel_conf = StubConf(size, rank, parallel_level=level)
        r = parallel.block_distributed_range(start, stop)
        blocks.append((r.start, r.stop))
    if level == 1:
        bad = partition_violations(blocks, size, start, stop)
    else:
        bad = ["serial branch returned %r" % (b,) for b in blocks if b != (start, stop) and not (stop <= start and b[1] <= b[0])]
finally:
    m.parallel_conf = saved
print("size=%d level=%d start=%d stop=%d blocks=%r" % (size, level, start, stop, blocks))
for b in bad: print("VIOLATED:", b)
sys.exit(1 if bad else 0)
'''
    if "block_distributed_list" in ob.where or "block_distributed_array" in ob.where:
        which = "list" if "block_distributed_list" in ob.where else "array"
        ri = "#return_index" in nm or "#return_index" in ob.where
        return REPLAY_COMMON + (r'''
import numpy
size, n = MODEL["size"], max(0, MODEL.get("n", 0))
level = MODEL.get("parallel_level", 1)
which, ri = %r, %r
data = [10 * (i + 1) for i in range(n)]
arg = data if which == "list" else numpy.array(data, dtype=float)
m = Manager()
saved = m.parallel_conf
got = []
try:
    for rank in range(size):
        m.parallel_conf = StubConf(size, rank, parallel_level=level)
        f = parallel.block_distributed_list if which == "list" else parallel.block_distributed_array
        r = f(arg, return_index=ri)
        got.append([(int(x[0]), float(x[1])) for x in r] if ri else [float(x) for x in r])
finally:
    m.parallel_conf = saved
bad = []
if level == 1:
    # every rank's share, concatenated, must be the whole sequence exactly once, sizes balanced
    flat = [x for g in got for x in g]
    want = [(i, float(d)) for i, d in enumerate(data)] if ri else [float(d) for d in data]
    if flat != want: bad.append("concatenated shares %%r != whole sequence %%r" %% (got, want))
    q = n // size
    for k, g in enumerate(got):
        if not (q <= len(g) <= q + 1): bad.append("rank %%d got %%d items, not in [%%d,%%d]" %% (k, len(g), q, q + 1))
else:
    want = [(i, float(d)) for i, d in enumerate(data)] if ri else [float(d) for d in data]
    for k, g in enumerate(got):
        if g != want: bad.append("serial branch rank %%d got %%r" %% (k, g))
print("which=%%s return_index=%%s size=%%d level=%%d n=%%d got=%%r" %% (which, ri, size, level, n, got))
for b in bad: print("VIOLATED:", b)
sys.exit(1 if bad else 0)
''' % (which, ri))
    return None


# ---- sum-reduction over blocks equals the serial sum ------------------------------------------------
# z3: partition (the postcondition of _calculate_ranges) |- the hypotheses of the Lean lemma, with lo[k] := R[k][0],
# hi[k] := R[k][1];  Lean: those hypotheses |- the sum identity, for every P and every summand f.
SUM_TYPES = {"P": "int", "start": "int", "stop": "int", "lo": "iarr1", "hi": "iarr1", "f": "arr1"}
SUM_HYPS = [("hP", "1 <= P"),
            ("h_first", "lo[0] == start"),
            ("h_last", "hi[P-1] == stop"),
            ("h_contig", "forall(k, range(0, P-1), hi[k] == lo[k+1])"),
            ("h_mono", "forall(k, range(0, P), lo[k] <= hi[k])")]
SUM_CONCL = "Sum(r, range(0, P), Sum(k, range(lo[r], hi[r]), f[k])) == Sum(k, range(start, stop), f[k])"
SUM_PROOF = """
have key : ∀ m : ℕ, ((m:ℤ) + 1 ≤ P) →
    (∑ r ∈ Finset.Ico (0:ℤ) ((m:ℤ)+1), ∑ k ∈ Finset.Ico (lo r) (hi r), f k
      = ∑ k ∈ Finset.Ico (lo 0) (hi (m:ℤ)), f k) ∧ lo 0 ≤ hi (m:ℤ) := by
  intro m
  induction m with
  | zero =>
    intro h
    constructor
    · have e : Finset.Ico (0:ℤ) (((0:ℕ):ℤ)+1) = {0} := by
        ext x; simp [Finset.mem_Ico]; omega
      rw [e]; simp
    · simpa using h_mono 0 (le_refl _) (by simp at h; omega)
  | succ m ih =>
    intro h
    have hm : (m:ℤ) + 1 ≤ P := by push_cast at h; omega
    obtain ⟨ih1, ih2⟩ := ih hm
    have hc : hi (m:ℤ) = lo ((m:ℤ)+1) := h_contig m (by omega) (by push_cast at h; omega)
    have hmono : lo ((m:ℤ)+1) ≤ hi ((m:ℤ)+1) := h_mono _ (by omega) (by push_cast at h; omega)
    push_cast
    constructor
    · rw [int_sum_Ico_succ _ (by omega : (0:ℤ) ≤ (m:ℤ)+1), ih1, hc]
      exact int_sum_Ico_consecutive f (by rw [← hc]; exact ih2) hmono
    · rw [hc] at ih2; exact le_trans ih2 hmono
have hP' : ((P-1).toNat : ℤ) = P - 1 := Int.toNat_of_nonneg (by omega)
have := (key (P-1).toNat (by rw [hP']; omega)).1
rw [hP'] at this
rw [show P - 1 + 1 = P by ring] at this
rw [this, h_first, h_last]
"""


def lemma_partition_gives_sum_hyps(ctx):
    from qvc.spec import clause_lemma
    from qvc.values import SymArr

    def setup(S):
        P = S.int("P")
        R = S.symlist("R", P, width=2)
        lo = SymArr((P,), "int", re=R.comps[0], name="lo")
        hi = SymArr((P,), "int", re=R.comps[1], name="hi")
        return dict(P=P, R=R, lo=lo, hi=hi, start=S.int("start"), stop=S.int("stop"))
    hyps = ["P >= 1", "stop >= start"] + partition("R", "P", "start", "stop")
    return clause_lemma(ctx, "partition-gives-sum-hypotheses", setup, hyps, SUM_HYPS,
                        where="props/C20.py (over the contract of _calculate_ranges)")


def plan(ctx):
    p = Plan("C20")
    contracts(ctx.registry)
    p.functions = [PAR + "_calculate_ranges", PAR + "_calculate_ranges_list", PAR + "_calculate_ranges_array",
                   PAR + "block_distributed_range",
                   PAR + "block_distributed_list", PAR + "block_distributed_list#return_index",
                   PAR + "block_distributed_array", PAR + "block_distributed_array#return_index"]
    p.lemmas = [lemma_partition_gives_sum_hyps]
    p.lean = [lean.bridge_lemma("blocks_sum", SUM_TYPES, SUM_HYPS, SUM_CONCL, SUM_PROOF)]
    # consumers of the helpers: every array written inside a block-distributed loop must be sum-reduced before the
    # parallel region is closed (ghost protocol installed by props.common.add_parallel_contracts); the consumer
    # functions are re-verified here with their C01 contracts so that the protocol obligations belong to this property
    import props.C01 as C01
    from props.common import add_parallel_contracts
    C01.contracts(ctx.registry)
    C01.contracts2(ctx.registry)
    add_parallel_contracts(ctx.registry)
    RT = "quantarhei/qm/liouvillespace/redfieldtensor.py::"
    p.functions += [RT + "RedfieldRelaxationTensor._implementation#operators", RT + "RedfieldRelaxationTensor._implementation#tensor",
                    RT + "RedfieldRelaxationTensor._convert_operators_2_tensor"]
    p.replayers = [replayer]
    p.oracles = ["native/oracle_C20.py"]
    p.trusted = ["MPI itself (Allreduce = elementwise sum over ranks) is not modelled; the partition lemma is what "
                 "makes a sum over ranks of per-block sums equal the serial sum"]
    p.not_decided = ["asynchronous_range / RangeDistributor (thread + MPI message passing) are outside the modelled subset"]
    return p
