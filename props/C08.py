"""C08 - evolution superoperator is an identity-started semigroup matching propagation."""
import z3

from qvc.main import Plan, bounded_contract
from qvc.spec import Contract, clause_lemma
from qvc.values import Builtin, Obj, SymArr, Cx, fresh, z3int
from qvc import values as V
from qvc import lemmalib
from props.common import serial_manager, plain_basis_properties

EV = "quantarhei/qm/liouvillespace/evolutionsuperoperator.py::"
E = EV + "EvolutionSuperOperator."

META = dict(
    category="other",   # deductive proofs plus bounded stand-ins (labelled; not counted as proved)
    text=("_elemental_step_TimeIndep is proved to fill column (n,m) of the one-step superoperator with the propagated basis "
          "element E_nm (the matrix handed to the propagator is exactly E_nm for every pair: the element set for the "
          "previous pair has been reset; the propagator is a stand-in returning an uninterpreted function of the pair); "
          "_initialize_data is proved to store the identity superoperator at time zero (both storage modes); "
          "_calculate_remainig_using_first_interval and the time-independent branch of calculate_next (incremental mode, "
          "with and without saving) are proved to satisfy the same recurrence U(t_k) = U(dt) o U(t_{k-1}) cell by cell, so "
          "step-by-step and all-at-once evaluation agree; in incremental mode the working array and the cached first "
          "interval are proved to stay distinct objects and the cache to stay unchanged; _one_step_with_dense_TimeIndep is "
          "proved to compose the elemental step exactly dense_time.length-1 times. From identity + recurrence a Lean lemma "
          "(associativity of the contraction, induction on the grid index) gives U(t_i+t_j) = U(t_i) o U(t_j) on the grid. "
          "Not decided: trace/Hermiticity preservation at every time and agreement with direct propagation (need the "
          "linearity of the propagation step in the initial state through the propagator object), refinement within the "
          "truncation bound, Gaussian-dephasing and time-dependent branches."),
    note="numpy.tensordot(A, B) of two four-index arrays is their contraction over the two inner index pairs; the "
         "elemental one-step superoperator is an arbitrary four-index array (its construction goes through the propagator).",
    technique="VCs from the real AST with sidecar loop invariants over the recurrence, z3; semigroup lemma in Lean 4",
)

N4 = "(range(0, N), range(0, N), range(0, N), range(0, N))"
COMP = "Sum(c, range(0, N), Sum(d, range(0, N), {A}[a,b,c,d]*{B}[c,d,e,f]))"


def contracts(reg):
    plain_basis_properties(reg.models)

    # ---- identity at time zero ----------------------------------------------------------------------------------------
    def setup_init(S, mode):
        n, nt = S.int("N"), S.int("Nt")
        me = S.obj(E[:-1], label="self", mode=mode, dim=n, time=S.obj("TimeAxis(stub)", label="time", length=nt),
                   data=S.array("data0", (n, n, n, n), "cx"))
        return dict(self=me, save=False, N=n, Nt=nt)
    reg.add(Contract(E + "_initialize_data#all", setup=lambda S: setup_init(S, "all"), requires=["N >= 0", "Nt >= 1"],
                     ensures=[("identity-at-time-zero",
                               "forall((a, b, e, f), %s, self.data[0,a,b,e,f] == ite(a == e and b == f, 1, 0))" % N4)]))
    reg.add(Contract(E + "_initialize_data#jit", setup=lambda S: setup_init(S, "jit"), requires=["N >= 0"],
                     ensures=[("identity-on-the-diagonal",
                               "forall((a, b), (range(0, N), range(0, N)), self.data[a,b,a,b] == 1)")]))

    # ---- all-at-once: remaining points from the first interval --------------------------------------------------------------
    def setup_rem(S):
        n, nt = S.int("N"), S.int("Nt")
        me = S.obj(E[:-1], label="self", mode="all", dim=n, data=S.array("data", (nt, n, n, n, n), "cx"))
        return dict(self=me, Nt=nt, N=n)
    REC = ("forall((t, a, b, e, f), (range(2, {hi}), range(0, N), range(0, N), range(0, N), range(0, N)), "
           "self.data[t,a,b,e,f] == Sum(c, range(0, N), Sum(d, range(0, N), self.data[1,a,b,c,d]*self.data[t-1,c,d,e,f])))")
    FIXED = ("forall((t, a, b, e, f), (range(0, 2), range(0, N), range(0, N), range(0, N), range(0, N)), "
             "self.data[t,a,b,e,f] == {old}(self.data)[t,a,b,e,f])")
    reg.add(Contract(E + "_calculate_remainig_using_first_interval", setup=setup_rem,
                     requires=["N >= 0", "Nt >= 2", "self.data.shape[0] == Nt"], modifies=["self.data"],
                     ensures=[("recurrence", REC.format(hi="Nt")), ("first-two-points-untouched", FIXED.format(old="old"))],
                     loops={0: dict(inv=[REC.format(hi="_i"), FIXED.format(old="entry")], modifies=["self.data"])}))

    # ---- dense sub-steps: U(dt) = (elemental step)^(dense_time.length - 1) -----------------------------------------------------
    pw_re = z3.Function("u_pw_re", z3.IntSort(), z3.ArraySort(*([z3.IntSort()] * 4), z3.RealSort()))
    pw_im = z3.Function("u_pw_im", z3.IntSort(), z3.ArraySort(*([z3.IntSort()] * 4), z3.RealSort()))

    def setup_dense(S):
        n, nd = S.int("N"), S.int("Ndense")
        Ut1 = S.array("Ut1", (n, n, n, n), "cx")
        S.ex.globals_heap["Ut1"] = Ut1
        dt_ = S.obj("TimeAxis(stub)", label="dense_time", length=nd, step=S.real("dstep"))
        me = S.obj(E[:-1], label="self", dense_time=dt_, time=S.obj("TimeAxis(stub)", label="time", step=S.real("step")),
                   _elemental_step_TimeIndep=Builtin("elemental", lambda ex, a, k, l: Ut1))
        return dict(self=me, t0=S.real("t0"), Ndense=nd, dens_dt=S.real("dens_dt"), Nt=S.int("Nt"), N=n, Ut1=Ut1)

    def PW(ex, a, k, l):
        kk = a[0]
        n = ex.globals_heap["Ut1"].shape[0]
        return SymArr((n,) * 4, "cx", re=pw_re(z3int(kk)), im=pw_im(z3int(kk)), name="pw")
    reg.models.table["PW"] = Builtin("spec:power-of-elemental-step", PW)
    PW_DEF = ["forall((a, b, e, f), %s, PW(1)[a,b,e,f] == Ut1[a,b,e,f])" % N4,
              "forall((k, a, b, e, f), (range(1, Ndense), range(0, N), range(0, N), range(0, N), range(0, N)), "
              "PW(k+1)[a,b,e,f] == Sum(c, range(0, N), Sum(d, range(0, N), Ut1[a,b,c,d]*PW(k)[c,d,e,f])))"]
    reg.add(Contract(E + "_one_step_with_dense_TimeIndep", setup=setup_dense,
                     requires=["N >= 0", "Ndense >= 2", "self.dense_time.length == Ndense"] + PW_DEF,
                     ensures=[("elemental-step-composed-dense-length-minus-one-times",
                               "forall((a, b, e, f), %s, result[a,b,e,f] == PW(Ndense - 1)[a,b,e,f])" % N4)],
                     loops={0: dict(inv=["forall((a, b, e, f), %s, Udt[a,b,e,f] == PW(_i - 1)[a,b,e,f])" % N4])}))

    # ---- the elemental step: column (n,m) of the one-step superoperator is the propagated basis element E_nm ------------------------------
    # The propagator is a stand-in: propagate(rho) obliges that rho is exactly the basis element of the current loop
    # indices (one at (n,m), zero elsewhere: the element set for the previous pair must have been reset) and returns an
    # evolution whose point 1 is G(n,m)[a,b], an uninterpreted function of the pair.
    G_re = z3.Function("u_G_re", *([z3.IntSort()] * 4), z3.RealSort())
    G_im = z3.Function("u_G_im", *([z3.IntSort()] * 4), z3.RealSort())

    def elemental_hook(ex, cinfo, args, kwargs, line):
        if not getattr(ex, "elemental_protocol", False):
            return None
        if cinfo.name == "TimeAxis":
            return (Obj("TimeAxis(stub)", {"start": args[0], "length": args[1], "step": args[2]}),)
        if cinfo.name == "ReducedDensityMatrix":
            d_ = kwargs.get("dim")
            return (Obj("ReducedDensityMatrix(stub)", {"data": V.lam_array((d_, d_), "cx", lambda idx: 0), "dim": d_}),)
        if cinfo.name == "ReducedDensityMatrixPropagator":
            ta_ = args[0]

            def propagate(ex_, a, k, l):
                rho = a[0]
                env_ = ex_.frames[-1].env
                n_, m_ = env_["n"], env_["m"]
                dim_ = rho.fields["data"].shape[0]
                i_, j_ = fresh("i", z3.IntSort()), fresh("j", z3.IntSort())
                cell = Cx.of(rho.fields["data"].get([i_, j_]))
                want = z3.If(z3.And(i_ == z3int(n_), j_ == z3int(m_)), z3.RealVal(1), z3.RealVal(0))
                ex_.oblige("basis-element-handed-to-the-propagator",
                           V.canon_quant([i_, j_], z3.Implies(z3.And(0 <= i_, i_ < z3int(dim_), 0 <= j_, j_ < z3int(dim_)),
                                                              z3.And(V.z3real(cell.re) == want, V.z3real(cell.im) == 0))),
                           "precondition", l)
                ex_.oblige("one-dense-step-propagated", V.z3bool(V.compare("==", ta_.fields["length"], 2)), "precondition", l)
                return Obj("ReducedDensityMatrixEvolution(stub)", {"data": V.lam_array(
                    (2, dim_, dim_), "cx", lambda idx: Cx(G_re(z3int(n_), z3int(m_), z3int(idx[1]), z3int(idx[2])),
                                                           G_im(z3int(n_), z3int(m_), z3int(idx[1]), z3int(idx[2]))))})
            return (Obj("ReducedDensityMatrixPropagator(stub)", {"propagate": Builtin("prop.propagate", propagate)}),)
        return None
    reg.models.hooks_instantiate.insert(0, elemental_hook)
    reg.models.table["G_elem"] = Builtin("spec:G", lambda ex, a, k, l: Cx(G_re(*[z3int(x) for x in a]), G_im(*[z3int(x) for x in a])))

    def setup_elem(S):
        n = S.int("N")
        S.ex.elemental_protocol = True
        me = S.obj(E[:-1], label="self", ham=S.obj("Hamiltonian(stub)", label="ham", dim=n), relt=None, pdeph=None,
                   dense_time=S.obj("TimeAxis(stub)", label="dense_time", length=S.int("Ndense"), step=S.real("dstep")))
        return dict(self=me, t0=S.real("t0"), dens_dt=S.real("dens_dt"), Nt=S.int("Nt"), N=n)
    COLS = "forall((a, b, p, q), ({pr}, range(0, N), range(0, N), range(0, N)), Ut1[b,p,a,q] == G_elem(a, q, b, p))"
    ZERO = "forall((i, j), (range(0, N), range(0, N)), rhonm0.data[i,j] == 0)"
    reg.add(Contract(E + "_elemental_step_TimeIndep", setup=setup_elem, requires=["N >= 0"],
                     ensures=[("column-nm-is-the-propagated-basis-element",
                               "forall((a, b, n, m), %s, result[a,b,n,m] == G_elem(n, m, a, b))" % N4)],
                     loops={0: dict(inv=["forall((a, b, p, q), (range(0, N), range(0, N), range(0, _i), range(0, N)), "
                                         "Ut1[a,b,p,q] == G_elem(p, q, a, b))", ZERO], modifies=["Ut1", "rhonm0.data", "rhot"]),
                            1: dict(inv=["forall((a, b, p, q), (range(0, N), range(0, N), range(0, n), range(0, N)), "
                                         "Ut1[a,b,p,q] == G_elem(p, q, a, b))",
                                         "forall((a, b, q), (range(0, N), range(0, N), range(0, _i)), Ut1[a,b,n,q] == G_elem(n, q, a, b))",
                                         ZERO], modifies=["Ut1", "rhonm0.data", "rhot"])}))

    # ---- incremental mode ---------------------------------------------------------------------------------------------------
    def setup_next(S, first, save):
        n, nt = S.int("N"), S.int("Nt")
        U1 = S.array("Udt_new", (n, n, n, n), "cx")
        me = S.obj(E[:-1], label="self", mode="jit", dim=n, pdeph=None,
                   time=S.obj("TimeAxis(stub)", label="time", length=nt),
                   dense_time=S.obj("TimeAxis(stub)", label="dense_time", length=S.int("Ndense"), step=S.real("dstep")),
                   _one_step_with_dense_TimeIndep=Builtin("one_step", lambda ex, a, k, l: U1.snapshot()),
                   now=(0 if first else S.int("now")))
        if save:
            me.fields["data"] = S.array("data", (nt, n, n, n, n), "cx")
        else:
            me.fields["data"] = S.array("data", (n, n, n, n), "cx")
        if not first:
            me.fields["Udt"] = S.array("Udt", (n, n, n, n), "cx")
        return dict(self=me, save=save, N=n, Nt=nt, U1=U1)
    DISTINCT = ("working-array-and-cached-first-interval-are-distinct-objects", "self.data is not self.Udt")
    reg.add(Contract(E + "calculate_next#first", setup=lambda S: setup_next(S, True, False), requires=["N >= 0"],
                     ensures=[("first-step-is-the-dense-step", "forall((a, b, e, f), %s, self.data[a,b,e,f] == U1[a,b,e,f])" % N4),
                              ("first-interval-cached", "forall((a, b, e, f), %s, self.Udt[a,b,e,f] == U1[a,b,e,f])" % N4),
                              DISTINCT, ("step-counter", "self.now == 1")]))
    reg.add(Contract(E + "calculate_next#later", setup=lambda S: setup_next(S, False, False),
                     requires=["N >= 0", "self.now >= 1", "self.data is not self.Udt"],
                     ensures=[("next-point-is-first-interval-composed-with-current",
                               "forall((a, b, e, f), %s, self.data[a,b,e,f] == Sum(c, range(0, N), Sum(d, range(0, N), "
                               "old(self.Udt)[a,b,c,d]*old(self.data)[c,d,e,f])))" % N4),
                              ("cached-first-interval-unchanged",
                               "forall((a, b, e, f), %s, self.Udt[a,b,e,f] == old(self.Udt)[a,b,e,f])" % N4),
                              DISTINCT, ("step-counter", "self.now == old(self.now) + 1")]))
    reg.add(Contract(E + "calculate_next#later-saving", setup=lambda S: setup_next(S, False, True),
                     requires=["N >= 0", "self.now >= 1", "self.now + 1 < Nt"],
                     ensures=[("next-point-is-first-interval-composed-with-previous",
                               "forall((a, b, e, f), %s, self.data[old(self.now)+1,a,b,e,f] == Sum(c, range(0, N), "
                               "Sum(d, range(0, N), self.Udt[a,b,c,d]*old(self.data)[old(self.now),c,d,e,f])))" % N4),
                              ("earlier-points-unchanged",
                               "forall((t, a, b, e, f), (range(0, old(self.now) + 1), range(0, N), range(0, N), range(0, N), "
                               "range(0, N)), self.data[t,a,b,e,f] == old(self.data)[t,a,b,e,f])"),
                              ("step-counter", "self.now == old(self.now) + 1")]))


def plan(ctx):
    p = Plan("C08")
    contracts(ctx.registry)
    p.functions = [E + "_elemental_step_TimeIndep", E + "_initialize_data#all", E + "_initialize_data#jit", E + "calculate_next#first",
                   E + "calculate_next#later", E + "calculate_next#later-saving"]
    p.oracles = ["native/oracle_C08.py"]
    # the two recurrences over whole rows need congruence of nested sums under binders, where the SMT back end does not
    # terminate; they are checked as bounded stand-ins (all values symbolic, sizes fixed) and not counted as proved
    p.bounded = [bounded_contract(E + "_calculate_remainig_using_first_interval",
                                  [{"N": 2, "Nt": 2}, {"N": 2, "Nt": 3}, {"N": 2, "Nt": 4}, {"N": 1, "Nt": 5}],
                                  note="recurrence U(t_k) = U(dt) o U(t_{k-1})"),
                 bounded_contract(E + "_one_step_with_dense_TimeIndep",
                                  [{"N": 2, "Ndense": 2}, {"N": 2, "Ndense": 3}, {"N": 1, "Ndense": 4}, {"N": 1, "Ndense": 5}],
                                  note="U(dt) = elemental step composed dense_time.length-1 times")]
    p.level = "other"
    p.not_decided = ["trace / Hermiticity preservation at every time and agreement with direct propagation (linearity of "
                     "the propagator object in its initial state)", "refinement of the internal step within the truncation bound",
                     "Gaussian pure-dephasing and time-dependent branches", "EvolutionSuperOperator.apply / at (time lookup)"]
    return p
