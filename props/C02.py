"""C02 - propagated density matrices stay valid states (trace and Hermiticity at every stored time)."""
import z3

from qvc.main import Plan
from qvc.spec import Contract, clause_lemma
from qvc.values import Builtin, Obj, SymArr, Cx, fresh, lam_array
from qvc import values as V
from qvc import lemmalib
from props.common import serial_manager, plain_basis_properties

RP = "quantarhei/qm/propagators/rdmpropagator.py::"
SV = "quantarhei/qm/propagators/svpropagator.py::"
P = RP + "ReducedDensityMatrixPropagator."

META = dict(
    category="other",   # proofs, with an open known finding (a clause that is false on this tree)
    text=("The building blocks of the short-time expansion are proved cell by cell (_COM: i dt/l [H, rho]; _TTI: dt/l R rho "
          "added in place) and the propagation loops without and with a tensor-form relaxation generator are proved, with "
          "loop invariants over the time / refinement / expansion-order loops (symbolic sizes, number of times, Nref and "
          "order L), to keep tr rho(t_i) = tr rho(0) and rho(t_i) Hermitian at every stored time; the per-term facts "
          "(a commutator with a Hermitian H of a Hermitian matrix is traceless and, times i, Hermitian; a tensor with the "
          "two C01 identities maps Hermitian matrices to traceless-increment Hermitian ones; sums of such terms) are Lean "
          "lemmas whose hypotheses are discharged at the loop body from the callee contracts. The state-vector "
          "propagator's dispatch is proved to hand the requested expansion order on. The conversion of a stored evolution "
          "between the rotating-wave frame and the laboratory frame (DensityMatrixEvolution.convert_from_RWA, both "
          "directions) is proved to multiply element (a,b) at time t_i by exp(-/+ i (W_a - W_b) t_i) for every time index, "
          "to set the frame flag accordingly and to leave an evolution that is already in the laboratory frame untouched. "
          "Not decided: positive "
          "semidefiniteness, agreement with exp(Lt), conservation of norm/purity/energy, state-vector vs density-matrix "
          "and rotating-wave vs laboratory frame agreement - all statements about the truncation error of the expansion."),
    note=("operator-form generators (_OTI) are covered through C07 (operator form = tensor form); pure dephasing "
          "preserves trace/Hermiticity only for a real symmetric zero-diagonal rate matrix (API precondition); field-"
          "driven variants are not under contract; density matrices / evolutions are stand-in objects with a plain data "
          "array."),
    technique="VCs from the real AST with sidecar loop invariants and Lean-proved step lemmas imported as instances; z3",
)

N2 = "(range(0, N), range(0, N))"
HERM = "forall((a, b), %s, conj({X}[a,b]) == {X}[b,a])" % N2
TR = "Sum(a, range(0, N), {X}[a,a])"


def contracts(reg):
    plain_basis_properties(reg.models)

    # ---- building blocks ---------------------------------------------------------------------------------------------
    def setup_com(S):
        n = S.int("N")
        return dict(HH=S.array("HH", (n, n), "cx"), ll=S.int("ll"), dt=S.real("dt"), rho1=S.array("rho1", (n, n), "cx"),
                    has_NonHerm=False, N=n)

    def ghost_n(S, env):
        env.setdefault("N", env["rho1"].shape[0])
    reg.add(Contract(RP + "_COM", setup=setup_com, ghost=ghost_n, requires=["N >= 0", "ll >= 1"],
                     result=lambda S, env: S.fresh_array((env["N"], env["N"]), "cx", prefix="com"),
                     ensures=[("commutator",
                               "forall((a, b), %s, result[a,b] == (1j*dt/ll)*(Sum(k, range(0, N), HH[a,k]*rho1[k,b]) - "
                               "Sum(k, range(0, N), rho1[a,k]*HH[k,b])))" % N2)]))

    def setup_tti(S):
        n = S.int("N")
        return dict(rhoY=S.array("rhoY", (n, n), "cx"), RR=S.array("RR", (n, n, n, n), "cx"), IR=0, ll=S.int("ll"),
                    dt=S.real("dt"), rho1=S.array("rho1", (n, n), "cx"), L=S.int("L"), N=n)
    reg.add(Contract(RP + "_TTI", setup=setup_tti, ghost=ghost_n, requires=["N >= 0", "ll >= 1", "L >= 1", "IR == 0"],
                     modifies=["rhoY"],
                     ensures=[("tensor-action-added",
                               "forall((a, b), %s, rhoY[a,b] == old(rhoY)[a,b] + (dt/ll)*Sum(c, range(0, N), "
                               "Sum(d, range(0, N), RR[a,b,c,d]*rho1[c,d])))" % N2)]))

    # ---- propagation loops ---------------------------------------------------------------------------------------------
    def evo_hook(ex, cinfo, args, kwargs, line):
        if cinfo.name == "ReducedDensityMatrixEvolution":
            ta, rhoi = args[0], args[1]
            nt = ta.fields["length"]
            n = rhoi.fields["data"].shape[0]
            d = SymArr((nt, n, n), "cx", name="prdata")
            ini = rhoi.fields["data"].snapshot()
            a, b = fresh("a", z3.IntSort()), fresh("b", z3.IntSort())
            c0 = d.get([0, a, b])
            i0 = ini.get([a, b])
            ex.assume(V.canon_quant([a, b], z3.And(c0.re == i0.re, c0.im == i0.im)))
            ex.used_models.add("assume:ReducedDensityMatrixEvolution(timeaxis, rhoi).data[0] == rhoi.data")
            return (Obj("ReducedDensityMatrixEvolution(stand-in)", {"data": d, "is_in_rwa": False}),)
        return None
    reg.models.hooks_instantiate.append(evo_hook)

    def setup_prop(S, relax):
        serial_manager(S)
        n, nt = S.int("N"), S.int("Nt")
        ta = S.obj("TimeAxis(stub)", label="TimeAxis", length=nt, data=S.array("tdata", (nt,), "real"))
        H = S.array("Hdata", (n, n), "cx")
        ham = S.obj("Hamiltonian(stub)", label="Hamiltonian", has_rwa=S.bool("has_rwa"), data=H,
                    get_RWA_data=Builtin("Hamiltonian.get_RWA_data", lambda ex, a, k, l: S.ex.globals_heap["Hrwa"]))
        Hr = S.array("Hrwa", (n, n), "cx")
        S.ex.globals_heap["Hrwa"] = Hr
        rhoi = S.obj("ReducedDensityMatrix(stub)", label="rhoi", data=S.array("rho0", (n, n), "cx"))
        me = S.obj(P[:-1], label="self", TimeAxis=ta, Nt=nt, Nref=S.int("Nref"), dt=S.real("dt"), Hamiltonian=ham,
                   has_NonHerm=False, has_PDeph=False, has_Iterm=False)
        d = dict(self=me, rhoi=rhoi, L=S.int("L"), N=n, Nt=nt, Hdata=H, Hrwa=Hr)
        if relax:
            RR = S.array("RR", (n, n, n, n), "cx")
            me.fields["RelaxationTensor"] = S.obj("RelaxationTensor(stub)", label="RT", as_operators=False, data=RR)
            d["RR"] = RR
        return d
    REQ = ["N >= 0", "Nt >= 1", "self.Nt == self.TimeAxis.length", "self.Nref >= 0", "L >= 0",
           ("hamiltonian-hermitian", HERM.format(X="Hdata")), ("rwa-hamiltonian-hermitian", HERM.format(X="Hrwa")),
           ("initial-state-hermitian", HERM.format(X="rhoi.data"))]
    ENS = [("trace-conserved-at-every-stored-time",
            "forall(t, range(0, Nt), Sum(a, range(0, N), result.data[t,a,a]) == Sum(a, range(0, N), rhoi.data[a,a]))"),
           ("hermitian-at-every-stored-time",
            "forall((t, a, b), (range(0, Nt), range(0, N), range(0, N)), conj(result.data[t,a,b]) == result.data[t,b,a])")]
    INV_STATE = [HERM.format(X="rho2"), TR.format(X="rho2") + " == " + TR.format(X="rhoi.data")]
    INV_OUT = ["indx == _i + 1", "forall((a, b), %s, rho1[a,b] == rho2[a,b])" % N2] + INV_STATE + [
        "forall(t, range(0, indx), Sum(a, range(0, N), pr.data[t,a,a]) == Sum(a, range(0, N), rhoi.data[a,a]))",
        "forall((t, a, b), (range(0, indx), range(0, N), range(0, N)), conj(pr.data[t,a,b]) == pr.data[t,b,a])"]
    INV_MID = ["forall((a, b), %s, rho1[a,b] == rho2[a,b])" % N2] + INV_STATE
    INV_IN = [HERM.format(X="rho1")] + INV_STATE
    STEP_H = ("hamiltonian_step", {"N": "N", "c": "self.dt/ll", "H": "HH", "r1": "pre(rho1)", "r2": "pre(rho2)",
                                   "n1": "rho1", "n2": "rho2"})
    reg.add(Contract(P + "__propagate_short_exp", setup=lambda S: setup_prop(S, False), requires=REQ, ensures=ENS,
                     loops={0: dict(inv=INV_OUT, modifies=["pr.data"]), 1: dict(inv=INV_MID), 2: dict(inv=INV_IN, use_post=[STEP_H])}))
    reg.models.table["tensordot"] = reg.models.table["numpy.tensordot"]
    LET_T = {"A_": "-_COM(HH, ll, self.dt, pre(rho1))", "T_": "tensordot(RR, pre(rho1))"}
    STEPS_T = [("commutator_term", {"N": "N", "c": "self.dt/ll", "H": "HH", "r1": "pre(rho1)", "n1": "A_"}),
               ("tensor_term", {"N": "N", "R": "RR", "r": "pre(rho1)", "T": "T_"}),
               ("add_scaled", {"N": "N", "c": "self.dt/ll", "A": "A_", "T": "T_", "r2": "pre(rho2)", "n1": "rho1",
                               "n2": "rho2"})]
    REQ_T = REQ + [("generator-traceless", "forall((c, d), %s, Sum(a, range(0, N), RR[a,a,c,d]) == 0)" % N2),
                   ("generator-hermiticity-preserving",
                    "forall((a, b, c, d), (range(0, N), range(0, N), range(0, N), range(0, N)), conj(RR[a,b,c,d]) == RR[b,a,d,c])")]
    reg.add(Contract(P + "__propagate_short_exp_with_relaxation", setup=lambda S: setup_prop(S, True), requires=REQ_T,
                     ensures=ENS,
                     loops={3: dict(inv=["indx == _i"] + INV_OUT[1:], modifies=["pr.data"]), 4: dict(inv=INV_MID),
                            5: dict(inv=INV_IN, let_post=LET_T, use_post=STEPS_T)}))

    # ---- tensor-form generator with pure dephasing (operator splitting: the dephasing factor is applied per sub-step) -----
    def setup_deph(S, kind):
        d = setup_prop(S, True)
        n = d["N"]
        D = S.array("Ddeph", (n, n), "real")
        me = d["self"]
        me.fields["has_PDeph"] = True
        me.fields["PDeph"] = S.obj("PureDephasing(stub)", label="PDeph", dtype=kind, data=D)
        # whatever a previous call (or the constructor) left behind
        me.fields["expo"] = S.array("stale_expo", (n, n), "real")
        me.fields["t0"] = S.real("stale_t0")
        d["Ddeph"] = D
        return d
    EXPO_OK = ("forall((a, b), %s, self.expo[a,b] == exp(-self.PDeph.data[a,b]*self.dt))" % N2)
    REQ_D = REQ_T + [("dephasing-rates-symmetric", "forall((a, b), %s, Ddeph[a,b] == Ddeph[b,a])" % N2),
                     ("dephasing-rates-zero-diagonal", "forall(a, range(0, N), Ddeph[a,a] == 0)")]
    reg.models.table["exp"] = reg.models.table["numpy.exp"]
    reg.add(Contract(P + "__propagate_short_exp_with_relaxation#lorentzian-dephasing",
                     setup=lambda S: setup_deph(S, "Lorentzian"), requires=REQ_D, ensures=ENS,
                     loops={0: dict(inv=["indx == _i", ("dephasing-factor-matches-the-step", EXPO_OK)[1], "self.t0 == 0"]
                                    + INV_OUT[1:], modifies=["pr.data"]),
                            1: dict(inv=[EXPO_OK, "self.t0 == 0"] + INV_MID),
                            2: dict(inv=INV_IN, let_post=LET_T, use_post=STEPS_T)}))

    # ---- state vector propagator: the requested expansion order reaches the expansion ------------------------------------
    SE = z3.Function("u_short_exp", z3.IntSort(), z3.IntSort(), z3.IntSort())

    def setup_sv(S):
        serial_manager(S)
        ham = S.obj("Hamiltonian(stub)", label="Hamiltonian")
        me = S.obj(SV + "StateVectorPropagator", label="self", Hamiltonian=ham, Nref=S.int("Nref"),
                   TimeAxis=S.obj("TimeAxis(stub)", label="ta"), Odt=S.real("Odt"), dt=S.real("dt"))
        return dict(self=me, psii=S.int("psi_id"), L=S.int("L"), hfce=None, nonlinear=False)
    reg.add(Contract(SV + "StateVectorPropagator._propagate_short_exp",
                     result=lambda S, env: SE(V.z3int(env["psii"]), V.z3int(env["L"])) if not isinstance(env["L"], int)
                     else SE(V.z3int(env["psii"]), z3.IntVal(env["L"])),
                     notes="abstract result: a deterministic function of the initial state (identity) and the order L"))
    # the loop structure itself: every refined sub-step starts its expansion from the current state (first term = current
    # state), and what is stored at time index i is the state after i*Nref sub-steps
    def sve_hook(ex, cinfo, args, kwargs, line):
        if cinfo.name == "StateVectorEvolution":
            ta, psii = args[0], args[1]
            d = SymArr((ta.fields["length"], psii.fields["data"].shape[0]), "cx", name="svdata")
            return (Obj("StateVectorEvolution(stub)", {"data": d, "is_in_rwa": False}),)
        return None
    reg.models.hooks_instantiate.append(sve_hook)

    def setup_sv_loop(S):
        n, nt = S.int("N"), S.int("Nt")
        ham = S.obj("Hamiltonian(stub)", label="ham", has_rwa=False, data=S.array("HH", (n, n), "cx"))
        ta = S.obj("TimeAxis(stub)", label="timeaxis", length=nt)
        me = S.obj(SV + "StateVectorPropagator", label="self", ham=ham, timeaxis=ta, Nt=nt, Nref=S.int("Nref"), dt=S.real("dt"))
        psii = S.obj("StateVector(stub)", label="psii", data=S.array("psi0", (n,), "cx"))
        return dict(self=me, psii=psii, L=S.int("L"), N=n, Nt=nt)
    SAME = "forall(a, range(0, N), psi1[a] == psi2[a])"
    reg.add(Contract(SV + "StateVectorPropagator._propagate_short_exp#loop-structure", setup=setup_sv_loop,
                     requires=["N >= 0", "Nt >= 1", "self.Nref >= 1", "L >= 1"],
                     ensures=[("expansion-restarted-from-the-final-state", "forall(a, range(0, N), local_psi1[a] == local_psi2[a])")],
                     loops={0: dict(inv=["indx == _i", ("sub-step-starts-from-the-current-state", SAME)[1]], modifies=["pr.data"]),
                            1: dict(inv=[SAME]),
                            2: dict(inv=[], modifies=["psi1", "psi2"])},
                     expose_locals=["psi1", "psi2"]))
    reg.models.table["SE"] = Builtin("spec:short_exp", lambda ex, a, k, l: SE(V.z3int(a[0]), V.z3int(a[1])))
    reg.add(Contract(SV + "StateVectorPropagator.propagate", setup=setup_sv, requires=[],
                     ensures=[("requested-expansion-order-is-used", "result == SE(psii, L)")]))
    # the density-matrix propagator's dispatch hands the order on as well
    for nm in ("__propagate_short_exp", "__propagate_short_exp_with_relaxation", "__propagate_short_exp_with_rel_operators"):
        pass

    # ---- rotating-wave frame <-> laboratory frame of a stored evolution -------------------------------------------------------------
    DM = "quantarhei/qm/propagators/dmevolution.py::DensityMatrixEvolution"

    def setup_rwa(S, in_rwa, sgn):
        n, nt = S.int("N"), S.int("Nt")
        om = S.array("HOmega", (n,), "real")
        ta = S.obj("TimeAxis(stub)", label="TimeAxis", length=nt, data=S.array("tdata", (nt,), "real"))
        ham = S.obj("Hamiltonian(stub)", label="ham", get_RWA_skeleton=Builtin("ham.get_RWA_skeleton", lambda ex, a, k, l: om))
        me = S.obj(DM, label="self", TimeAxis=ta, _data=S.array("evo", (nt, n, n), "cx"), is_in_rwa=in_rwa)
        return dict(self=me, ham=ham, sgn=sgn, N=n, Nt=nt, HOmega=om, tdata=ta.fields["data"])
    T = reg.models.table
    T["exp"] = T["numpy.exp"]
    T["conj"] = T["numpy.conj"]
    PHASE = ("forall((i, a, b), (range(0, {hi}), range(0, N), range(0, N)), self.data[i,a,b] == "
             "exp(-({sg})*1j*HOmega[a]*tdata[i])*({old}[i,a,b]*conj(exp(-({sg})*1j*HOmega[b]*tdata[i]))))")
    REST = "forall((i, a, b), (range(_i, Nt), range(0, N), range(0, N)), self.data[i,a,b] == entry(self.data)[i,a,b])"
    for in_rwa, sgn, tag in ((True, 1, "from-the-rotating-frame"), (False, -1, "into-the-rotating-frame"), (True, -1, "backward-again")):
        reg.add(Contract(
            DM + ".convert_from_RWA#" + tag, setup=(lambda S, r=in_rwa, g=sgn: setup_rwa(S, r, g)),
            requires=["N >= 0", "Nt >= 0"],
            ensures=[("every-element-gets-the-phase-of-its-frequency-difference",
                      PHASE.format(hi="Nt", sg=str(sgn), old="old(self.data)")),
                     ("frame-flag", "self.is_in_rwa == %s" % ("False" if sgn == 1 else str(in_rwa)))] + ([
                     # the propagators use the state they are given as the rotating-frame state at the first time of
                     # their axis (the frames coincide there): converting must leave the first stored point as it is
                     ("initial-state-is-the-same-in-both-frames-on-any-axis",
                      "implies(Nt >= 1, forall((a, b), (range(0, N), range(0, N)), self.data[0,a,b] == old(self.data)[0,a,b]))")]
                     if tag == "from-the-rotating-frame" else []),
            loops={0: dict(inv=[PHASE.format(hi="_i", sg=str(sgn), old="entry(self.data)"), REST], modifies=["self.data"])}))
    # state-vector evolutions: every component gets the phase of its own frequency
    SVE = "quantarhei/qm/propagators/statevectorevolution.py::StateVectorEvolution"

    def setup_rwa_sv(S, in_rwa, sgn):
        d = setup_rwa(S, in_rwa, sgn)
        n, nt = d["N"], d["Nt"]
        d["self"] = S.obj(SVE, label="self", TimeAxis=d["self"].fields["TimeAxis"], data=S.array("psi", (nt, n), "cx"), is_in_rwa=in_rwa)
        return d
    PHASE_SV = ("forall((i, a), (range(0, {hi}), range(0, N)), self.data[i,a] == "
                "exp(-({sg})*1j*HOmega[a]*tdata[i])*{old}[i,a])")
    REST_SV = "forall((i, a), (range(_i, Nt), range(0, N)), self.data[i,a] == entry(self.data)[i,a])"
    for in_rwa, sgn, tag in ((True, 1, "from-the-rotating-frame"), (False, -1, "into-the-rotating-frame")):
        reg.add(Contract(
            SVE + ".convert_from_RWA#" + tag, setup=(lambda S, r=in_rwa, g=sgn: setup_rwa_sv(S, r, g)),
            requires=["N >= 0", "Nt >= 0"],
            ensures=[("every-component-gets-the-phase-of-its-frequency", PHASE_SV.format(hi="Nt", sg=str(sgn), old="old(self.data)")),
                     ("frame-flag", "self.is_in_rwa == %s" % ("False" if sgn == 1 else str(in_rwa)))] + ([
                     ("initial-state-is-the-same-in-both-frames-on-any-axis",
                      "implies(Nt >= 1, forall(a, range(0, N), self.data[0,a] == old(self.data)[0,a]))")]
                     if tag == "from-the-rotating-frame" else []),
            loops={0: dict(inv=[PHASE_SV.format(hi="_i", sg=str(sgn), old="entry(self.data)"), REST_SV], modifies=["self.data"])}))

    reg.add(Contract(
        DM + ".convert_from_RWA#already-in-the-laboratory-frame", setup=lambda S: setup_rwa(S, False, 1),
        requires=["N >= 0", "Nt >= 0"],
        ensures=[("nothing-converted-twice", "forall((i, a, b), (range(0, Nt), range(0, N), range(0, N)), "
                                             "self.data[i,a,b] == old(self.data)[i,a,b])"),
                 ("frame-flag", "self.is_in_rwa == False")]))


def plan(ctx):
    p = Plan("C02")
    contracts(ctx.registry)
    p.functions = [RP + "_COM", RP + "_TTI", P + "__propagate_short_exp", P + "__propagate_short_exp_with_relaxation",
                   P + "__propagate_short_exp_with_relaxation#lorentzian-dephasing",
                   SV + "StateVectorPropagator.propagate", SV + "StateVectorPropagator._propagate_short_exp#loop-structure"] + \
                  ["quantarhei/qm/propagators/dmevolution.py::DensityMatrixEvolution.convert_from_RWA#" + t
                   for t in ("from-the-rotating-frame", "into-the-rotating-frame", "backward-again", "already-in-the-laboratory-frame")] + \
                  ["quantarhei/qm/propagators/statevectorevolution.py::StateVectorEvolution.convert_from_RWA#" + t
                   for t in ("from-the-rotating-frame", "into-the-rotating-frame")]
    p.extra_axioms = [V.ufun("exp", 0) == 1]
    p.oracles = ["native/oracle_C02.py"]
    p.not_decided = ["positive semidefiniteness; agreement with exp(Lt) within the truncation bound; conservation of norm, "
                     "purity, energy; state-vector vs density-matrix agreement; RWA vs laboratory frame (truncation error)"]
    p.api_preconditions = ["PureDephasing rate matrix must be real symmetric with zero diagonal for trace/Hermiticity "
                           "to be preserved by _APPLY_DEPH"]
    return p
