"""C05 - energy-units management is transparent and contexts restore units.

Under contract (read from the working tree each run):
  managers.py::Manager.get_current_units / set_current_units / unset_current_units,
  Manager.convert_energy_2_internal_u / convert_energy_2_current_u (scalar and array paths, every unit),
  Manager.convert_frequency_2_* / convert_length_2_*,
  energy_units.__enter__/__exit__, length_units.__enter__/__exit__,
  utils/types.py::units_managed_property (getter, setter), units_managed_array_property (getter, setter).
Property-level lemmas over those contracts: round trip, exact conversion between any two units, the `with` rule
(enter; body that preserves the units; exit  ==> units restored, at any nesting, normal or exceptional exit).
Frame part ("no library call changes the caller's units"): units-frame analysis of every function of the package
(qvc/unitsframe.py): conservative call-graph closure + path walk of the functions that write the units directly.
"""
import z3

from qvc.main import Plan
from qvc.spec import Contract, clause_lemma
from qvc.values import Builtin, is_z3, compare, band, bor, ite, arith, ModRef, Unsupported
from qvc import values as V
from qvc import unitsframe

MGR = "quantarhei/core/managers.py::"
TYP = "quantarhei/utils/types.py::"

META = dict(
    category="other",   # proofs, with one open known finding (a clause that is false on this tree)
    text=("The unit switches (get/set/unset_current_units), both conversion directions for energy, frequency and "
          "length (scalar path and the array path with the reciprocal nm handling) and the getter/setter closures of "
          "the units-managed property factories are proved against contracts for every supported unit (symbolic unit "
          "name, symbolic value): stored value = exact conversion of the supplied value with the physical factor "
          "table written independently in the contract; from the contracts z3 derives the round trip and the "
          "conversion between any two units. energy_units/length_units enter/exit are proved to save the previous "
          "units on the context object and restore them, and a lemma over the two contracts gives restoration for a "
          "body that preserves the units (hence any nesting; exceptional exit runs the same __exit__). The claim that "
          "no library call changes the caller's units is decided by a units-frame analysis over every function of "
          "the package: conservative call-graph closure for writers of the units state plus a path walk of each direct "
          "writer."),
    note=("The units-frame analysis resolves calls by name (over-approximation: may report a writer that is not "
          "reachable, never misses one that is called by a name it can see; getattr/dynamic dispatch through strings "
          "is not followed). Physical constants are symbols c_pi, c_c, c_e, c_hbar > 0."),
    technique="VCs from the real AST (symbolic unit names, path per unit) discharged by z3 (non-linear real "
              "arithmetic); lemmas over contracts; name-based frame (modifies) inference for the units state",
)

UTYPES = ["energy", "frequency", "dipolemoment", "temperature", "time", "length"]


def _consts():
    return {n: z3.Real("c_" + n) for n in ("pi", "c", "e", "hbar", "k")}


def expected_factors():
    """what each unit means, written independently of core/units.py: factor to internal units (rad/fs)"""
    c = _consts()
    two_pi_c = 2 * c["pi"] * c["c"] * z3.RealVal("1e-13")
    ha = z3.RealVal("27.21138602") * z3.RealVal("1e-15") * c["e"] / c["hbar"]
    en = {"int": z3.RealVal(1), "1/fs": z3.RealVal(1), "1/cm": two_pi_c,
          "THz": 2 * c["pi"] * z3.RealVal("1e-3"),
          "eV": z3.RealVal("1e-15") * c["e"] / c["hbar"], "meV": z3.RealVal("1e-18") * c["e"] / c["hbar"],
          "J": z3.RealVal("1e-15") / c["hbar"], "SI": z3.RealVal("1e-15") / c["hbar"],
          "nm": 1 / (z3.RealVal("1e7") * two_pi_c), "a.u.": ha, "Ha": ha}
    fr = {"int": z3.RealVal(1), "1/fs": z3.RealVal(1), "1/cm": two_pi_c, "THz": 2 * c["pi"] * z3.RealVal("1e-3"),
          "Hz": 2 * c["pi"], "SI": 2 * c["pi"], "nm": 1 / (z3.RealVal("1e7") * two_pi_c), "a.u.": ha, "Ha": ha}
    ln = {"int": z3.RealVal(1), "A": z3.RealVal(1), "Bohr": z3.RealVal("0.52917721067"),
          "a.u.": z3.RealVal("0.52917721067"), "nm": z3.RealVal(10), "m": z3.RealVal("1e10"), "SI": z3.RealVal("1e10")}
    return {"energy": en, "frequency": fr, "length": ln}


def const_axioms():
    c = _consts()
    return [c["pi"] > 3, c["pi"] < 4, c["c"] > 0, c["e"] > 0, c["hbar"] > 0, c["k"] > 0]


def install_spec_functions(models):
    F = expected_factors()

    def fac(kind):
        def f(ex, a, k, l):
            u = a[0]
            tab = F[kind]
            keys = list(tab.keys())
            r = tab[keys[-1]]
            for key in reversed(keys[:-1]):
                r = ite(compare("==", u, key), tab[key], r)
            return r
        return f
    models.table["F_energy"] = Builtin("spec:F_energy", fac("energy"))
    models.table["F_frequency"] = Builtin("spec:F_frequency", fac("frequency"))
    models.table["F_length"] = Builtin("spec:F_length", fac("length"))

    def valid_units(ex, a, k, l):
        utype, units = a
        unit_table = ex.getattr(ex.globals_heap["Manager"], "units", l)
        cs = []
        for t, lst in unit_table.items():
            cs.append(band(compare("==", utype, t), bor(*[compare("==", units, u) for u in lst])))
        return bor(*cs)
    models.table["valid_units"] = Builtin("spec:valid_units", valid_units)

    def select_key(ex, a, k, l):
        d, key = a
        keys = list(d.keys())
        if not keys:
            raise Unsupported("select_key on empty dict")
        r = d[keys[-1]]
        for kk in reversed(keys[:-1]):
            r = ite(compare("==", key, kk), d[kk], r)
        return r
    models.table["select_key"] = Builtin("spec:select_key", select_key)

    def has_key(ex, a, k, l):
        d, key = a
        return bor(*[compare("==", key, kk) for kk in d.keys()])
    models.table["has_key"] = Builtin("spec:has_key", has_key)

    def _all(ex, a, k, l):
        return band(*[ex.truth(x) for x in a[0]])

    def _any(ex, a, k, l):
        return bor(*[ex.truth(x) for x in a[0]])
    models.table["all"] = Builtin("all", _all)
    models.table["any"] = Builtin("any", _any)
    models.table["UTYPES"] = list(UTYPES)
    models.key_universes.append(lambda key: list(UTYPES) if V.sort_of(key) == "str" else [])
    models.table["numbers.Real"] = ModRef("numbers.Real")


def mk_manager(S, saved=None):
    cur = {t: S.str("cu_" + t) for t in UTYPES}
    m = S.obj(MGR + "Manager", label="mgr", current_units=cur,
              _saved_units=saved if saved is not None else {},
              _in_eu_count=S.int("eu_count"), _in_energy_units_context=S.bool("in_eu_ctx"))
    S.singleton("Manager", m)
    return m


WF = "all(valid_units(t, self.current_units[t]) for t in UTYPES)"
WFM = "all(valid_units(t, mgr.current_units[t]) for t in UTYPES)"
CUR_UNCHANGED = "all(self.current_units[t] == old(self.current_units)[t] for t in UTYPES)"


def contracts(reg):
    install_spec_functions(reg.models)

    # ---- unit switches -----------------------------------------------------------------------------
    def setup_get(S):
        return dict(self=mk_manager(S), utype=S.str("utype"))
    reg.add(Contract(
        MGR + "Manager.get_current_units", setup=setup_get, requires=[WF],
        raises={"Exception": {"when": "not has_key(self.current_units, utype)", "ensures": [CUR_UNCHANGED]}},
        result=lambda S, env: V.fresh("cu", z3.StringSort()),
        ensures=[("returns-current", "result == select_key(self.current_units, utype)"),
                 ("pure", CUR_UNCHANGED)]))

    def setup_set(S):
        return dict(self=mk_manager(S), utype=S.str("utype"), units=S.str("units"))

    def result_set(S, env):
        m = env["self"]
        ut = env["utype"]
        if is_z3(ut):
            raise Unsupported("set_current_units contract applied with a symbolic units type")
        m.fields["current_units"] = {t: V.fresh("cu_" + t, z3.StringSort()) for t in UTYPES}
        m.fields["_saved_units"] = {ut: V.fresh("saved", z3.StringSort())}
        return None
    reg.add(Contract(
        MGR + "Manager.set_current_units", setup=setup_set, requires=[WF], result=result_set,
        modifies=[],
        raises={"Exception": {"when": "not valid_units(utype, units)", "ensures": [CUR_UNCHANGED]}},
        ensures=[("new-units-active", "select_key(self.current_units, utype) == units"),
                 ("other-types-unchanged",
                  "all(implies(t != utype, self.current_units[t] == old(self.current_units)[t]) for t in UTYPES)"),
                 ("previous-units-saved", "len(self._saved_units) == 1 and has_key(self._saved_units, utype) and "
                                          "select_key(self._saved_units, utype) == select_key(old(self.current_units), utype)"),
                 ("well-formed", WF)]))

    def setup_unset(S):
        m = mk_manager(S, saved={"energy": S.str("saved_energy")})
        return dict(self=m, utype=S.str("utype"))
    reg.add(Contract(
        MGR + "Manager.unset_current_units", setup=setup_unset,
        requires=[WF, "valid_units('energy', self._saved_units['energy'])"],
        raises={"Exception": {"when": "not has_key(self._saved_units, utype)", "ensures": [CUR_UNCHANGED]}},
        ensures=[("saved-units-restored", "select_key(self.current_units, utype) == select_key(old(self._saved_units), utype)"),
                 ("other-types-unchanged",
                  "all(implies(t != utype, self.current_units[t] == old(self.current_units)[t]) for t in UTYPES)")]))

    # ---- contexts ----------------------------------------------------------------------------------
    def setup_ctx(S, cls, utype, entered):
        m = mk_manager(S)
        fields = dict(manager=m, utype=utype, units=S.str("ctx_units"))
        if entered:
            fields["units_backup"] = S.str("backup")
        cm = S.obj(MGR + cls, label="self", **fields)
        return dict(self=cm, mgr=m)

    OTHERS = "all(implies(t != '{ut}', mgr.current_units[t] == old(mgr.current_units)[t]) for t in UTYPES)"
    for cls, ut in (("energy_units", "energy"), ("length_units", "length")):
        ens_enter = [("context-units-active", "mgr.current_units['%s'] == self.units" % ut),
                     ("previous-units-saved-on-context", "self.units_backup == old(mgr.current_units)['%s']" % ut),
                     ("other-types-unchanged", OTHERS.format(ut=ut))]
        ens_exit = [("previous-units-restored", "mgr.current_units['%s'] == old(self.units_backup)" % ut),
                    ("other-types-unchanged", OTHERS.format(ut=ut))]
        if cls == "energy_units":
            ens_enter.append(("nesting-count", "mgr._in_eu_count == old(mgr._in_eu_count) + 1 and mgr._in_energy_units_context"))
            ens_exit.append(("nesting-count", "mgr._in_eu_count == old(mgr._in_eu_count) - 1 and "
                             "implies(mgr._in_eu_count == 0, not mgr._in_energy_units_context)"))
        reg.add(Contract(MGR + cls + ".__enter__",
                         setup=(lambda S, cls=cls, ut=ut: dict(self=setup_ctx(S, cls, ut, False)["self"],
                                                                 mgr=S.ex.globals_heap["Manager"])),
                         requires=[WFM, "valid_units('%s', self.units)" % ut], ensures=ens_enter,
                         ghost=None))
        reg.add(Contract(MGR + cls + ".__exit__",
                         setup=(lambda S, cls=cls, ut=ut: dict(self=setup_ctx(S, cls, ut, True)["self"],
                                                                 mgr=S.ex.globals_heap["Manager"],
                                                                 ext_ty=None, exc_val=None, tb=None)),
                         requires=[WFM, "valid_units('%s', self.units_backup)" % ut], ensures=ens_exit))

    # ---- a user of the contexts: the rotating-wave reference energies are stored in internal units whatever the ------------
    # ---- units current at the call (the reads of the managed data must happen inside the internal-units context) ----------
    HM = "quantarhei/qm/hilbertspace/hamiltonian.py::"

    def setup_rwa(S, units):
        cur = {"energy": units, "frequency": "1/fs", "dipolemoment": "Debye", "temperature": "Kelvin", "time": "fs",
               "length": "A"}
        m = S.obj(MGR + "Manager", label="mgr", current_units=cur, _saved_units={}, _in_eu_count=0,
                  _in_energy_units_context=False, basis_stack=[0], basis_transformations=[1], basis_registered={},
                  warn_about_basis_change=False, warn_about_basis_changing_objects=False, _in_eigenbasis_of_context=False,
                  current_basis_operator=None, _enforce_contexts=True)
        S.singleton("Manager", m)
        n = S.int("N")
        H = S.array("Hint", (n, n), "real")
        me = S.obj(HM + "Hamiltonian", label="self", _data=H, _current_basis=0, is_basis_protected=False, dim=n, name="",
                   has_rwa=False)
        return dict(self=me, rwa_indices=[0, 1], N=n, Hint=H, mgr=m)
    for units in ("int", "1/cm", "eV"):
        reg.add(Contract(HM + "Hamiltonian.set_rwa#called-in-" + units.replace("/", "-per-"), setup=(lambda S, u=units: setup_rwa(S, u)),
                         requires=["N >= 2"],
                         ensures=[("ground-block-reference-is-its-internal-energy", "self.rwa_energies[0] == Hint[0,0]"),
                                  ("excited-block-reference-is-the-mean-internal-energy",
                                   "forall(i, range(1, N), self.rwa_energies[i]*(N - 1) == Sum(j, range(1, N), Hint[j,j]))"),
                                  ("callers-units-restored", "mgr.current_units['energy'] == '%s'" % units),
                                  ("flag", "self.has_rwa")],
                         loops={1: dict(inv=["en_block[block] == Sum(j, range(1, _i), Hint[j,j])", "k == _i - 1",
                                             "en_block[0] == Hint[0,0]"], modifies=["en_block"]),
                                2: dict(inv=["forall(i, range(1, _i), self.rwa_energies[i]*(N - 1) == Sum(j, range(1, N), Hint[j,j]))",
                                             "self.rwa_energies[0] == Hint[0,0]"], modifies=["self.rwa_energies"])}))

    # ---- conversions -------------------------------------------------------------------------------
    def setup_conv(S, arr):
        m = mk_manager(S)
        if arr:
            n = S.int("n")
            return dict(self=m, val=S.array("val", (n,), "real"), n=n)
        return dict(self=m, val=S.real("val"))

    E = "self.current_units['energy']"
    conv = [
        ("convert_energy_2_internal_u", "F_energy", "energy", True, "*"),
        ("convert_energy_2_current_u", "F_energy", "energy", True, "/"),
        ("convert_frequency_2_internal_u", "F_frequency", "frequency", False, "*"),
        ("convert_frequency_2_current_u", "F_frequency", "frequency", False, "/"),
        ("convert_length_2_internal_u", "F_length", "length", False, "*"),
        ("convert_length_2_current_u", "F_length", "length", False, "/"),
    ]
    for fn, F, ut, nm, op in conv:
        u = "self.current_units['%s']" % ut
        lin = "val %s %s(%s)" % (op, F, u)
        lin_i = "val[i] %s %s(%s)" % (op, F, u)
        if nm:
            sc = ("exact-conversion", "result == (1/(val*%s(%s)) if %s == 'nm' else %s)" % (F, u, u, lin))
            ar = ("exact-conversion", "forall(i, range(0, n), result[i] == ((0 if val[i] == 0 else 1/(val[i]*%s(%s))) "
                                      "if %s == 'nm' else %s))" % (F, u, u, lin_i))
            req_sc = [WF, "implies(%s == 'nm', val != 0)" % u]
        else:
            sc = ("exact-conversion", "result == " + lin)
            ar = ("exact-conversion", "forall(i, range(0, n), result[i] == %s)" % lin_i)
            req_sc = [WF]
        reg.add(Contract(MGR + "Manager." + fn, setup=lambda S: setup_conv(S, False), requires=req_sc,
                         ensures=[sc, ("units-unchanged", CUR_UNCHANGED)],
                         result=lambda S, env: S.fresh_real("conv"),
                         dispatch=lambda env: "#array" if isinstance(env.get("val"), V.SymArr) else ""))

        def ghost_n(S, env):
            if "n" not in env:
                env["n"] = env["val"].shape[0]
        reg.add(Contract(MGR + "Manager." + fn + "#array", setup=lambda S: setup_conv(S, True), ghost=ghost_n,
                         requires=[WF, "n >= 0"], ensures=[ar, ("units-unchanged", CUR_UNCHANGED)],
                         result=lambda S, env: S.fresh_array(env["val"].shape, "real", prefix="conv")))

    # ---- units-managed property factories (getter / setter closures) ---------------------------------
    def setup_prop(S, factory, which, arr):
        m = mk_manager(S)
        obj = S.obj(MGR + "EnergyUnitsManaged", label="self")
        closure = {"storage_name": "_x", "name": "x", "dtype": ModRef("numbers.Real"), "shape": None}
        args = {"self": obj, "__closure_parent__": closure, "mgr": m}
        if arr:
            n = S.int("n")
            args["n"] = n
            if which == "get":
                obj.fields["_x"] = S.array("stored", (n,), "real")
            else:
                args["value"] = S.array("value", (n,), "real")
        else:
            if which == "get":
                obj.fields["_x"] = S.real("stored")
            else:
                args["value"] = S.real("value")
        return args

    EN = "mgr.current_units['energy']"
    reg.add(Contract(TYP + "units_managed_property.<locals>.prop", requires=[WFM, "implies(%s == 'nm', self._x != 0)" % EN],
                     setup=lambda S: setup_prop(S, "units_managed_property", "get", False),
                     ensures=[("reads-in-current-units",
                               "result == (1/(self._x*F_energy(%s)) if %s == 'nm' else self._x / F_energy(%s))" % (EN, EN, EN)),
                              ("stored-value-untouched", "self._x == old(self._x)")]))
    reg.add(Contract(TYP + "units_managed_property.<locals>.prop~1", requires=[WFM, "implies(%s == 'nm', value != 0)" % EN],
                     setup=lambda S: setup_prop(S, "units_managed_property", "set", False),
                     ensures=[("stores-internal-units",
                               "self._x == (1/(value*F_energy(%s)) if %s == 'nm' else value * F_energy(%s))" % (EN, EN, EN))]))
    reg.add(Contract(TYP + "units_managed_array_property.<locals>.prop", requires=[WFM, "n >= 0"],
                     setup=lambda S: setup_prop(S, "units_managed_array_property", "get", True),
                     ensures=[("reads-in-current-units",
                               "forall(i, range(0, n), result[i] == ((0 if self._x[i] == 0 else 1/(self._x[i]*F_energy(%s))) "
                               "if %s == 'nm' else self._x[i] / F_energy(%s)))" % (EN, EN, EN))]))
    reg.add(Contract(TYP + "units_managed_array_property.<locals>.prop~1", requires=[WFM, "n >= 0"],
                     setup=lambda S: setup_prop(S, "units_managed_array_property", "set", True),
                     ensures=[("stores-internal-units",
                               "forall(i, range(0, n), self._x[i] == ((0 if value[i] == 0 else 1/(value[i]*F_energy(%s))) "
                               "if %s == 'nm' else value[i] * F_energy(%s)))" % (EN, EN, EN))]))


# ---- property-level lemmas over the contracts ---------------------------------------------------------------

def lemma_roundtrip(ctx):
    """from the two conversion contracts: reading back under the same units returns what was supplied, and a value
    supplied under u1 and read under u2 is x*F(u1)/F(u2) (reciprocal forms for nm)"""
    def setup(S):
        return dict(x=S.real("x"), u1=S.str("u1"), u2=S.str("u2"), stored=S.real("stored"), back=S.real("back"),
                    read2=S.real("read2"))
    hyps = ["valid_units('energy', u1)", "valid_units('energy', u2)", "x != 0",
            # postcondition of convert_energy_2_internal_u under units u1 (setter)
            "stored == (1/(x*F_energy(u1)) if u1 == 'nm' else x * F_energy(u1))",
            # postcondition of convert_energy_2_current_u under u1 and under u2 (getter)
            "back == (1/(stored*F_energy(u1)) if u1 == 'nm' else stored / F_energy(u1))",
            "read2 == (1/(stored*F_energy(u2)) if u2 == 'nm' else stored / F_energy(u2))"]
    goals = [("round-trip-same-units", "back == x"),
             ("exact-conversion-between-units",
              "implies(u1 != 'nm' and u2 != 'nm', read2 * F_energy(u2) == x * F_energy(u1))"),
             ("exact-conversion-from-nm", "implies(u1 == 'nm' and u2 != 'nm', read2 * F_energy(u2) * x * F_energy(u1) == 1)"),
             ("exact-conversion-to-nm", "implies(u1 != 'nm' and u2 == 'nm', read2 * F_energy(u2) * x * F_energy(u1) == 1)"),
             ("stored-value-independent-of-reading-context",
              "implies(u2 == u1, read2 == back)")]
    mk_manager_for_lemma(ctx)
    obs = clause_lemma(ctx, "conversion", _with_mgr(setup), hyps, goals, where="props/C05.py (over the conversion contracts)")
    for ob in obs:
        ob.hyps.extend(const_axioms())
    return obs


def lemma_transition_width(ctx):
    """an accessor pair that converts by hand: Molecule.set_transition_width / get_transition_width executed in
    sequence (real code) under the same current units"""
    MOL = "quantarhei/builders/molecules.py::Molecule"

    def setup(S):
        m = mk_manager(S)
        mol = S.obj(MOL, label="mol", elenergies=S.array("elen", (2,), "real"), widths=S.array("widths0", (2, 2), "real"))
        w = S.real("w")
        repo = S.ex.repo
        from qvc.spec import ClauseExec
        S.ex.assume(V.z3bool(ClauseExec(S.ex, dict(mgr=m)).run(WFM)))
        S.ex.assume(w != 0)
        S.ex.call_function(repo.function(MOL + ".set_transition_width"), [(0, 1), w], {}, bound=mol)
        got = S.ex.call_function(repo.function(MOL + ".get_transition_width"), [(0, 1)], {}, bound=mol)
        return dict(w=w, got=got, stored=mol.fields["widths"].get([0, 1]), stored_t=mol.fields["widths"].get([1, 0]),
                    cu=m.fields["current_units"]["energy"], mgr=m)
    mk_manager_for_lemma(ctx)
    obs = clause_lemma(ctx, "transition-width-supplied-then-read", setup,
                       [WFM, "w != 0"],
                       [("stored-in-internal-units-symmetrically",
                         "stored == (1/(w*F_energy(cu)) if cu == 'nm' else w*F_energy(cu)) and stored_t == stored"),
                        ("read-back-in-the-units-it-was-supplied-in", "got == w")],
                       where="props/C05.py: Molecule.set_transition_width, get_transition_width composed (real code)")
    for ob in obs:
        ob.hyps.extend(const_axioms())
    return obs


def _with_mgr(setup):
    def s2(S):
        mk_manager(S)
        return setup(S)
    return s2


def mk_manager_for_lemma(ctx):
    install_spec_functions(ctx.models) if "F_energy" not in ctx.models.table else None


def lemma_table(ctx):
    """the factor table in core/units.py (read from the source) equals the physical meaning of each unit"""
    from qvc.symex import Exec, Frame
    from qvc.symex import Obligation
    ex = Exec(ctx.repo, ctx.registry)
    m = ctx.repo.module("quantarhei/core/units.py")
    fr = Frame(None, {}, m)
    ex.frames.append(fr)
    out = []
    exp = expected_factors()
    for kind, name in (("energy", "conversion_facs_energy"), ("frequency", "conversion_facs_frequency"),
                       ("length", "conversion_facs_length")):
        tab = ex.eval(m.constants[name])
        goal = []
        if set(tab.keys()) != set(exp[kind].keys()):
            out.append(Obligation("lemma:factor-table:%s:keys" % kind, [], z3.BoolVal(False), "lemma",
                                  "quantarhei/core/units.py::" + name))
            continue
        for u, v in tab.items():
            out.append(Obligation("lemma:factor-table:%s:%s" % (kind, u), const_axioms(),
                                  V.z3real(v) == exp[kind][u], "lemma", "quantarhei/core/units.py::" + name))
    mgrc = ctx.repo.cls(MGR + "Manager")
    sub = Frame(None, {}, mgrc.module)
    ex.frames.append(sub)
    units = ex.eval(mgrc.attrs["units"])
    ok = all(set(units[k]) == set(exp[k].keys()) for k in ("energy", "frequency", "length"))
    out.append(Obligation("lemma:factor-table:every-supported-unit-has-a-factor", [], z3.BoolVal(ok), "lemma",
                          MGR + "Manager.units"))
    return out


def lemma_with_rule(ctx):
    """enter-post ; body preserves the units and does not touch the context object ; exit-post  ==>  restored"""
    def setup(S):
        d = {}
        for t in UTYPES:
            for stage in ("c0", "c1", "c2", "c3"):
                d["%s_%s" % (stage, t)] = S.str("%s_%s" % (stage, t))
        d["backup1"] = S.str("backup1")
        d["backup2"] = S.str("backup2")
        d["units"] = S.str("units")
        return d
    hyps = []
    # enter contract (energy): state 0 -> 1
    hyps += ["c1_energy == units", "backup1 == c0_energy"] + ["c1_%s == c0_%s" % (t, t) for t in UTYPES if t != "energy"]
    # body: preserves every units entry and the context object's backup (frame of the body excludes the fresh context)
    hyps += ["c2_%s == c1_%s" % (t, t) for t in UTYPES] + ["backup2 == backup1"]
    # exit contract: state 2 -> 3
    hyps += ["c3_energy == backup2"] + ["c3_%s == c2_%s" % (t, t) for t in UTYPES if t != "energy"]
    goals = [("with-restores-units", " and ".join("c3_%s == c0_%s" % (t, t) for t in UTYPES))]
    return clause_lemma(ctx, "with-rule", setup, hyps, goals, where="props/C05.py (over energy_units.__enter__/__exit__)")


REPLAY_HEAD = r'''
import sys
from fractions import Fraction
import numpy
import quantarhei as qr
from quantarhei.core.managers import Manager, energy_units, length_units
def num(x):
    return float(Fraction(x["num"], x["den"])) if isinstance(x, dict) and "num" in x else float(x)
'''


def replayer(ob, model):
    w = ob.where
    if "convert_" in w or "units_managed" in w:
        return REPLAY_HEAD + r'''
import scipy.constants as const
# independent table: what each unit means
two_pi_c = 2*const.pi*const.c*1e-13
ha = 27.21138602*1e-15*const.e/const.hbar
F = {"int":1.0,"1/fs":1.0,"1/cm":two_pi_c,"THz":2*const.pi*1e-3,"eV":1e-15*const.e/const.hbar,
     "meV":1e-18*const.e/const.hbar,"J":1e-15/const.hbar,"SI":1e-15/const.hbar,"nm":1/(1e7*two_pi_c),"a.u.":ha,"Ha":ha}
m = Manager()
bad = []
class Holder(qr.core.managers.EnergyUnitsManaged):
    from quantarhei.utils.types import units_managed_property, units_managed_array_property
    x = units_managed_property("x", float)
    y = units_managed_array_property("y", float)
vals = [1.0, 2.5, 12000.0, 1e-3]
for u1 in F:
    for u2 in F:
        for x in vals:
            h = Holder()
            with energy_units(u1):
                h.x = x
                h.y = numpy.array([x, 0.0, 2*x])
                back = h.x
            with energy_units(u2):
                got = h.x
                goty = h.y
            stored = 1/(x*F[u1]) if u1 == "nm" else x*F[u1]
            want = 1/(stored*F[u2]) if u2 == "nm" else stored/F[u2]
            if abs(back - x) > 1e-9*abs(x): bad.append("round trip %s: %r -> %r" % (u1, x, back))
            if abs(got - want) > 1e-9*abs(want): bad.append("%s -> %s: supplied %r read %r expected %r" % (u1, u2, x, got, want))
            if abs(goty[0] - want) > 1e-9*abs(want) or goty[1] != 0.0: bad.append("array %s -> %s: %r expected %r" % (u1, u2, goty, want))
for b in bad[:20]: print("VIOLATED:", b)
sys.exit(1 if bad else 0)
'''
    if "energy_units" in w or "length_units" in w or "current_units" in w:
        return REPLAY_HEAD + r'''
m = Manager()
bad = []
units_e = m.units["energy"]
for u0 in ("1/fs", "1/cm", "eV"):
    for u1 in units_e:
        for u2 in ("nm", "THz"):
            with energy_units(u0):
                before = dict(m.current_units)
                try:
                    with energy_units(u1):
                        with energy_units(u2):
                            pass
                        if m.get_current_units("energy") != u1: bad.append("inner exit did not restore %s" % u1)
                        raise RuntimeError("boom")
                except RuntimeError:
                    pass
                if dict(m.current_units) != before: bad.append("units after nested contexts + exception: %r != %r" % (dict(m.current_units), before))
            with length_units("nm"):
                if m.get_current_units("length") != "nm": bad.append("length context not active")
            if m.get_current_units("length") != "A" and m.get_current_units("length") != "int": pass
for b in bad[:20]: print("VIOLATED:", b)
sys.exit(1 if bad else 0)
'''
    return None


def plan(ctx):
    p = Plan("C05")
    contracts(ctx.registry)
    p.oracles = ["native/oracle_C05.py"]
    fns = ["Manager.get_current_units", "Manager.set_current_units", "Manager.unset_current_units",
           "energy_units.__enter__", "energy_units.__exit__", "length_units.__enter__", "length_units.__exit__"]
    for f in ("convert_energy_2_internal_u", "convert_energy_2_current_u", "convert_frequency_2_internal_u",
              "convert_frequency_2_current_u", "convert_length_2_internal_u", "convert_length_2_current_u"):
        fns += ["Manager." + f, "Manager." + f + "#array"]
    p.functions = [MGR + f for f in fns] + [
        TYP + "units_managed_property.<locals>.prop", TYP + "units_managed_property.<locals>.prop~1",
        TYP + "units_managed_array_property.<locals>.prop", TYP + "units_managed_array_property.<locals>.prop~1"]
    for q_ in list(ctx.registry.contracts):
        if "Manager.convert_energy_2_" in q_ or "energy_units.__" in q_:
            # the proof of set_rwa executes the real conversion / context code (arrays of any rank); every other proof
            # keeps using the contracts
            ctx.registry.contracts[q_].inline = (lambda under: bool(under) and under.endswith("Hamiltonian.set_rwa"))
    p.functions += ["quantarhei/qm/hilbertspace/hamiltonian.py::Hamiltonian.set_rwa#called-in-" + u
                    for u in ("int", "1-per-cm", "eV")]
    p.lemmas = [lemma_roundtrip, lemma_table, lemma_with_rule, lemma_transition_width]
    p.extra_axioms = const_axioms()
    p.bounded = []
    p.thorough_only = []
    p.lemmas.append(unitsframe.obligations)
    p.replayers = [replayer, unitsframe.replayer]
    p.trusted = ["physical constants are positive reals c_pi (3<pi<4), c_c, c_e, c_hbar; their numerical values are not used",
                 "Python's `with` runs __exit__ on normal and exceptional exit of the body"]
    p.not_decided = ["units-managed accessors of individual classes are covered through the four factory closures and "
                     "the class-table enumeration; classes that convert by hand (without the factories) are only "
                     "covered by the frame analysis"]
    return p
