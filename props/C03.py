"""C03 - aggregate Hamiltonian and dipole operator are the Frenkel-exciton ones (partial).

Under contract: the point-dipole coupling (interactions.dipole_dipole_interaction, AggregateBase.dipole_dipole_coupling,
set_coupling_by_dipole_dipole) and the coupling element between two aggregate states (AggregateBase.coupling) for
electronic states of aggregates of two-level molecules.  AggregateBase.build itself (state generators) is outside the
modelled subset: the band ordering, the diagonal energies and the dipole operator are not decided here."""
import itertools
import z3

from qvc.main import Plan
from qvc.spec import Contract
from qvc.values import Builtin, Obj, SymArr, Cx
from qvc import values as V
from props.C13 import internal_units_manager

INT = "quantarhei/builders/interactions.py::"
AB = "quantarhei/builders/aggregate_base.py::"
AS = "quantarhei/builders/aggregate_states.py::"

META = dict(
    category="other",   # proofs for the coupling functions; the Hamiltonian builder itself is not under contract
    text=("dipole_dipole_interaction is proved to return the point-dipole formula (d1.d2 - 3 (d1.n)(d2.n)) / (4 pi eps0 "
          "eps_r R^3) for all positions (real or integer typed), dipoles and permittivities; dipole_dipole_coupling and "
          "set_coupling_by_dipole_dipole are proved to store exactly that value, symmetrically, for every pair of an aggregate "
          "of two or three molecules (any positions and dipoles; coincident molecules give zero coupling). "
          "AggregateBase.coupling is proved, for aggregates of two-level molecules with up to four molecules and every pair of "
          "electronic states up to two excitations (all couplings symbolic), to return the resonance coupling J[k,l] exactly "
          "when the two states differ by moving one excitation from molecule k to molecule l, and zero otherwise, in "
          "particular zero between bands. For the same enumerations AggregateBase._get_exindx is proved to return the "
          "molecule on which two states of neighbouring bands differ (and -1 in every other case), "
          "AggregateBase.transition_dipole to return that molecule's 0->1 dipole times the overlap of the vibrational "
          "states (the number 0.0 when no single molecule carries the transition), and ElectronicState.energy to be the "
          "sum of the occupied molecular levels plus the vibrational quanta (two or three molecules, up to two modes, "
          "symbolic level energies, frequencies and occupation numbers)."),
    note=("the number of molecules is enumerated (2-4); AggregateBase.build (assembly of the matrices from these elements) "
          "and the state generators, relabelling invariance of the spectrum and independence of the units used for input are not decided "
          "(generator functions and growing nested lists are outside the executor); sqrt is uninterpreted with "
          "sqrt(x)^2 = x and sqrt(x) > 0 for x > 0."),
    technique="VCs from the real AST (small concrete aggregates, symbolic values), z3 non-linear real arithmetic",
)


def vec3(S, name, dtype="real"):
    comps = [S.real("%s_%d" % (name, k)) if dtype == "real" else S.int("%s_%d" % (name, k)) for k in range(3)]
    arr = V.lam_array((3,), dtype, lambda idx: z3.If(V.z3int(idx[0]) == 0, comps[0], z3.If(V.z3int(idx[0]) == 1, comps[1], comps[2])))
    return arr, comps


def dotc(a, b):
    return sum((V.z3real(x) * V.z3real(y) for x, y in zip(a, b)), z3.RealVal(0))


def formula(r1, r2, d1, d2, epsr, prf):
    """(d1.d2 - 3 (d1.n)(d2.n)) / (4 pi eps0 epsr R^3) with R = |r1 - r2|, n = (r1 - r2)/R, in terms of R2 = R^2 and
    the symbol RR = sqrt(R2)"""
    R = [V.z3real(x) - V.z3real(y) for x, y in zip(r1, r2)]
    R2 = dotc(R, R)
    RR = V.ufun("sqrt", R2)
    return prf * (dotc(d1, d2) - 3 * (dotc(d1, R) / RR) * (dotc(d2, R) / RR)) / (RR * RR * RR) / epsr, R2, RR


def contracts(reg):
    T = reg.models.table

    # ---- the point-dipole formula --------------------------------------------------------------------------------------------
    def setup_ddi(S, dtype):
        r1, c1 = vec3(S, "r1", dtype)
        r2, c2 = vec3(S, "r2", dtype)
        d1, e1 = vec3(S, "d1")
        d2, e2 = vec3(S, "d2")
        epsr = S.real("epsr")
        S.ex.ddi = (c1, c2, e1, e2, epsr)
        return dict(r1=r1, r2=r2, d1=d1, d2=d2, epsr=epsr)

    def point_dipole(ex, a, k, l):
        c1, c2, e1, e2, epsr = ex.ddi
        eps0 = ex.resolve_global(_frame_of(ex, "quantarhei/core/units.py"), "eps0_int")
        prf = 1 / (4 * V.const_pi() * V.z3real(eps0))
        val, R2, RR = formula(c1, c2, e1, e2, epsr, prf)
        return val
    T["point_dipole"] = Builtin("spec:point_dipole", point_dipole)

    def distinct(ex, a, k, l):
        c1, c2 = ex.ddi[0], ex.ddi[1]
        return z3.Or(*[V.z3real(x) != V.z3real(y) for x, y in zip(c1, c2)])
    T["positions_differ"] = Builtin("spec:positions_differ", distinct)
    FORM = ("local_prf*(np.dot(d1, d2) - 3.0*(np.dot(d1, local_R)/local_RR)*(np.dot(d2, local_R)/local_RR))"
            "/(local_RR*local_RR*local_RR)/epsr")
    for dtype in ("real", "int"):
        reg.add(Contract(INT + "dipole_dipole_interaction#%s-positions" % ("real" if dtype == "real" else "integer"),
                         setup=(lambda S, dt=dtype: setup_ddi(S, dt)), requires=["positions_differ()", "epsr > 0"],
                         ensures=[("separation-vector", "forall(i, range(0, 3), local_R[i] == r1[i] - r2[i])"),
                                  ("distance", "local_RR*local_RR == np.dot(local_R, local_R) and local_RR > 0"),
                                  ("prefactor", "local_prf == 1.0/(4.0*np.pi*eps0())"),
                                  ("point-dipole-formula", "result == " + FORM,
                                   dict(use=[("point_dipole_form", {"a": "np.dot(d1, d2)", "b": "np.dot(d1, local_R)",
                                                                    "c": "np.dot(d2, local_R)", "RR": "local_RR",
                                                                    "prf": "local_prf", "epsr": "epsr"})]))],
                         expose_locals=["R", "RR", "prf"],
                         frame=dict(roots=["r1", "r2", "d1", "d2"], allow=[])))
    T["eps0"] = Builtin("spec:eps0_int", lambda ex, a, k, l: ex.resolve_global(_frame_of(ex, "quantarhei/core/units.py"), "eps0_int"))

    # ---- couplings of a whole aggregate from positions and dipoles ---------------------------------------------------------------------
    def ddi(ex, a, k, l):
        """the value of the (pure) function dipole_dipole_interaction, by executing its real code"""
        from qvc.symex import RaiseSignal
        try:
            return ex.call_function(ex.repo.function(INT + "dipole_dipole_interaction"), list(a), {})
        except RaiseSignal:
            return V.fresh("no_value", z3.RealSort())      # the function raises on this input: nothing equals its value
    T["ddi"] = Builtin("spec:dipole_dipole_interaction(value)", ddi)

    def setup_set(S, nmol, dtype):
        internal_units_manager(S)
        mons = []
        for k in range(nmol):
            pos, _ = vec3(S, "pos%d" % k, dtype)
            dm = S.array("dm%d" % k, (2, 2, 3), "real")
            mons.append(S.obj("Molecule(stub)", label="mol%d" % k, position=pos, dmoments=dm))
        me = S.obj(AB + "AggregateBase", label="self", nmono=nmol, monomers=mons, coupling_initiated=False)
        return dict(self=me, epsr=S.real("epsr"), delta=S.real("delta"), **{"mol%d" % k: mons[k] for k in range(nmol)})
    for nmol in (2, 3):
        for dtype in ("real", "int"):
            ens = []
            for k in range(nmol):
                ens.append(("no-self-coupling-%d" % k, "self.resonance_coupling[%d,%d] == 0" % (k, k)))
                for l_ in range(k + 1, nmol):
                    dist2 = "numpy.dot(mol{k}.position - mol{l}.position, mol{k}.position - mol{l}.position)".format(k=k, l=l_)
                    val = "ddi(mol{k}.position, mol{l}.position, mol{k}.dmoments[0,1,:], mol{l}.dmoments[0,1,:], epsr)".format(k=k, l=l_)
                    ens.append(("point-dipole-coupling-%d-%d" % (k, l_),
                                "implies(numpy.sqrt(%s) >= delta, self.resonance_coupling[%d,%d] == %s)" % (dist2, k, l_, val)))
                    ens.append(("coincident-molecules-uncoupled-%d-%d" % (k, l_),
                                "implies(numpy.sqrt(%s) < delta, self.resonance_coupling[%d,%d] == 0)" % (dist2, k, l_)))
                    ens.append(("symmetric-%d-%d" % (k, l_), "self.resonance_coupling[%d,%d] == self.resonance_coupling[%d,%d]" % (l_, k, k, l_)))
            reg.add(Contract(AB + "AggregateBase.set_coupling_by_dipole_dipole#%d-molecules-%s-positions" % (nmol, "real" if dtype == "real" else "integer"),
                             setup=(lambda S, n=nmol, dt=dtype: setup_set(S, n, dt)), requires=["epsr > 0", "delta > 0"], ensures=ens))

    # ---- the coupling element between two electronic states ---------------------------------------------------------------------------
    def states(nmol, mult):
        out = [tuple([0] * nmol)]
        for m in range(1, mult + 1):
            for pos in itertools.combinations(range(nmol), m):
                out.append(tuple(1 if i in pos else 0 for i in range(nmol)))
        return out

    def setup_coupling(S, nmol):
        internal_units_manager(S)
        J = S.array("J", (nmol, nmol), "real")
        me = S.obj(AB + "AggregateBase", label="self", nmono=nmol, resonance_coupling=J)
        sts = states(nmol, 2)
        i1 = S.ex.decide(len(sts))
        i2 = S.ex.decide(len(sts))
        s1, s2 = sts[i1], sts[i2]

        def mk(sig, label):
            band = sum(sig)
            index = (sig.index(1) + 1) if band == 1 else (0 if band == 0 else nmol + 1 + [x for x in sts if sum(x) == 2].index(sig))
            return S.obj(AS + "ElectronicState", label=label, elsignature=sig, band=band, index=index)
        S.ex.sig_pair = (s1, s2)
        return dict(self=me, state1=mk(s1, "state1"), state2=mk(s2, "state2"), full=False, J=J)

    def expected(ex, a, k, l):
        """J[k,l] when the second state is the first with one excitation moved from k to l (same band >= 1), else 0"""
        s1, s2 = ex.sig_pair
        J = a[0]
        if sum(s1) != sum(s2) or sum(s1) == 0:
            return 0
        diff = [i for i in range(len(s1)) if s1[i] != s2[i]]
        if len(diff) == 2 and s1[diff[0]] + s1[diff[1]] == 1 and s2[diff[0]] + s2[diff[1]] == 1:
            return J.get([diff[0], diff[1]])
        if len(diff) == 0 and sum(s1) == 1:
            k_ = s1.index(1)
            return J.get([k_, k_])         # band 1: the code reads the (zero by construction) diagonal of the coupling matrix
        return 0
    T["expected_coupling"] = Builtin("spec:expected_coupling", expected)

    def setup_vib(S, nmol):
        d = setup_coupling(S, nmol)
        fc = S.real("fc")
        d["self"].fields["fc_factor"] = Builtin("self.fc_factor", lambda ex, a, k, l: fc)
        for nm in ("state1", "state2"):
            d[nm] = S.obj(AS + "VibronicState", label=nm, elstate=d[nm], vsig=(0,), index=None)
        d["fc"] = fc
        return d
    for nmol in (2, 3, 4):
        reg.add(Contract(AB + "AggregateBase.coupling#vibronic-%d-molecules" % nmol,
                         setup=(lambda S, n=nmol: setup_vib(S, n)),
                         requires=["forall((a, b), (range(0, %d), range(0, %d)), J[a,b] == J[b,a])" % (nmol, nmol)],
                         ensures=[("electronic-coupling-times-the-overlap-of-the-vibrational-states",
                                   "result == expected_coupling(J)*fc")]))
    for nmol in (2, 3, 4):
        reg.add(Contract(AB + "AggregateBase.coupling#electronic-%d-molecules" % nmol,
                         setup=(lambda S, n=nmol: setup_coupling(S, n)),
                         requires=["forall((a, b), (range(0, %d), range(0, %d)), J[a,b] == J[b,a])" % (nmol, nmol)],
                         ensures=[("resonance-coupling-exactly-for-one-moved-excitation", "result == expected_coupling(J)")],
                         frame=dict(roots=["self", "state1", "state2"], allow=[])))

    # ---- which molecule carries the transition between two states, and the transition dipole element -----------------------------------
    def exindx_of(s1, s2):
        """index of the only molecule whose excitation number differs (states in neighbouring bands), else -1"""
        if abs(sum(s1) - sum(s2)) not in (1, 2):
            return -1
        diff = [i for i in range(len(s1)) if s1[i] != s2[i]]
        return diff[0] if len(diff) == 1 else -1
    T["expected_exindx"] = Builtin("spec:expected_exindx", lambda ex, a, k, l: exindx_of(*ex.sig_pair))

    def setup_exindx(S, nmol):
        d = setup_vib(S, nmol)
        D = S.array("D", (nmol, 3), "real")
        me = d["self"]
        def get_dipole(ex, a, k, l):
            if (a[1], a[2]) != (0, 1):
                raise V.Unsupported("get_dipole of another transition than 0 -> 1")
            return V.lam_array((3,), "real", lambda idx: D.get([a[0], idx[0]]))
        me.fields["get_dipole"] = Builtin("self.get_dipole", get_dipole)
        d["D"] = D
        return d

    def dip_ok(ex, a, k, l):
        """result == D[k,:]*fc for the molecule k carrying the transition, the number 0.0 when there is none"""
        res, D, fc = a
        kx = exindx_of(*ex.sig_pair)
        if kx < 0:
            return (not isinstance(res, SymArr)) and V.compare("==", res, 0) is True
        if not isinstance(res, SymArr):
            return False
        return z3.And(*[V.z3bool(V.compare("==", res.get([i]), V.arith("*", D.get([kx, i]), fc))) for i in range(3)])
    T["transition_dipole_is"] = Builtin("spec:transition_dipole_is", dip_ok)
    for nmol in (2, 3, 4):
        reg.add(Contract(AB + "AggregateBase._get_exindx#%d-molecules" % nmol, setup=(lambda S, n=nmol: setup_exindx(S, n)),
                         requires=[], ensures=[("molecule-carrying-the-transition", "result == expected_exindx()")],
                         frame=dict(roots=["self", "state1", "state2"], allow=[])))
        reg.add(Contract(AB + "AggregateBase.transition_dipole#%d-molecules" % nmol, setup=(lambda S, n=nmol: setup_exindx(S, n)),
                         requires=[],
                         ensures=[("molecular-transition-dipole-times-the-overlap-of-the-vibrational-states",
                                   "transition_dipole_is(result, D, fc)")]))

    # ---- energy of an aggregate state: molecular energies of the occupied levels plus vibrational quanta -------------------------------
    def setup_energy(S, nmol, nmodes):
        internal_units_manager(S)
        sts = states(nmol, 2)
        sig = sts[S.ex.decide(len(sts))]
        E = S.array("E", (nmol, 3), "real")
        om = [S.real("omega_%d" % k) for k in range(nmodes)]
        mons = [S.obj("Molecule(stub)", label="mol%d" % k,
                      elenergies=V.lam_array((3,), "real", lambda idx, k=k: E.get([k, idx[0]]))) for k in range(nmol)]
        agg = S.obj("Aggregate(stub)", label="agg", monomers=mons, nmono=nmol)
        modes = [S.obj("SubMode(stub)", label="mode%d" % k, omega=om[k]) for k in range(nmodes)]
        me = S.obj(AS + "ElectronicState", label="self", elsignature=sig, aggregate=agg, vibmodes=modes, vsiglength=nmodes,
                   band=sum(sig))
        vs = tuple(S.int("v_%d" % k) for k in range(nmodes))
        S.ex.energy_case = (sig, E, om, vs)
        return dict(self=me, vsig=(vs if nmodes else None), E=E)

    def energy_ok(ex, a, k, l):
        sig, E, om, vs = ex.energy_case
        tot = z3.RealVal(0)
        for k_, n_ in enumerate(sig):
            tot = tot + V.z3real(E.get([k_, n_]))
        for o_, v_ in zip(om, vs):
            tot = tot + z3.ToReal(v_) * o_
        return V.compare("==", a[0], tot)
    T["state_energy_is"] = Builtin("spec:state_energy_is", energy_ok)
    for nmol in (2, 3):
        for nmodes in (0, 1, 2):
            reg.add(Contract(AS + "ElectronicState.energy#%d-molecules-%d-modes" % (nmol, nmodes),
                             setup=(lambda S, n=nmol, m=nmodes: setup_energy(S, n, m)), requires=[],
                             ensures=[("sum-of-occupied-molecular-levels-and-vibrational-quanta", "state_energy_is(result)")]))


def _frame_of(ex, relpath):
    from qvc.symex import Frame
    m = ex.repo.module(relpath) if hasattr(ex.repo, "module") else None
    return Frame(None, {}, m)


def plan(ctx):
    p = Plan("C03")
    contracts(ctx.registry)
    p.functions = [INT + "dipole_dipole_interaction#real-positions", INT + "dipole_dipole_interaction#integer-positions"] + \
                  [AB + "AggregateBase.set_coupling_by_dipole_dipole#%d-molecules-%s-positions" % (n, t)
                   for n in (2, 3) for t in ("real", "integer")] + \
                  [AB + "AggregateBase.coupling#electronic-%d-molecules" % n for n in (2, 3, 4)] + \
                  [AB + "AggregateBase.coupling#vibronic-%d-molecules" % n for n in (2, 3, 4)] + \
                  [AB + "AggregateBase._get_exindx#%d-molecules" % n for n in (2, 3, 4)] + \
                  [AB + "AggregateBase.transition_dipole#%d-molecules" % n for n in (2, 3, 4)] + \
                  [AS + "ElectronicState.energy#%d-molecules-%d-modes" % (n, m) for n in (2, 3) for m in (0, 1, 2)]
    x = z3.Real("x")
    sq = lambda t: V.ufun("sqrt", t)        # noqa: E731
    p.extra_axioms = list(V.pi_axioms()) + [z3.ForAll([x], z3.Implies(x >= 0, sq(x) * sq(x) == x), patterns=[sq(x)]),
                                            z3.ForAll([x], z3.Implies(x > 0, sq(x) > 0), patterns=[sq(x)])]
    p.level = "other"
    p.oracles = ["native/oracle_C03.py"]
    p.not_decided = ["AggregateBase.build: band ordering of states and the assembly of Hamiltonian and transition-dipole "
                     "operator from the state-pair elements proved here (generator functions / nested lists outside the executor)",
                     "relabelling invariance of spectrum and dipole strengths; independence of the input units",
                     "aggregates with more than four molecules or with molecules of more than two levels"]
    return p
