"""C14 - initial and thermal states are valid Boltzmann density matrices.

Contracts on AggregateBase._thermal_population (the one place where Boltzmann populations are formed): unit trace,
diagonal, non-negative, Boltzmann ratios, the zero-temperature branch, and a numerical-safety clause that stands for
"no underflow to 0/0" in real arithmetic: the exponentials are taken of non-positive arguments of which one is zero."""
import z3

from qvc.main import Plan
from qvc.spec import Contract
from qvc.values import Builtin, Obj, SymArr, Cx, fresh
from qvc import values as V

AB = "quantarhei/builders/aggregate_base.py::"
OS = "quantarhei/builders/opensystem.py::"

META = dict(
    category="other",   # proofs, with one open known finding (a clause that is false on this tree)
    text=("AggregateBase._thermal_population is proved against its contract on the real code for every dimension, start "
          "index, energies, subtracted reorganisation energies and temperature: for T > 0 the matrix is diagonal with real "
          "non-negative entries, zero below the start index, of unit trace, with populations in the ratio "
          "exp(-(E_a-E_b)/kT) (cross-multiplied form), and the Boltzmann factors are exponentials of non-positive arguments "
          "one of which is exactly zero, so their sum is at least one and the normalisation cannot become 0/0 however low "
          "the temperature; for T = 0 all population is on the start index. Diagonal with non-negative entries implies "
          "Hermitian and positive semidefinite. The molecular version OpenSystem.get_thermal_ReducedDensityMatrix is "
          "proved in the same clause form over the Hamiltonian as presented inside its eigenbasis context (diagonal, "
          "populations x partition sum = Boltzmann factor, partition sum = sum of the factors and > 0, real and "
          "non-negative; T = 0 puts everything on the lowest eigenstate); its partition sum is >= 1 - no 0/0 - under the "
          "stated precondition that the lowest eigenenergy is zero and the others non-negative (that function does not "
          "shift the energies itself). The basis in which a requested thermal excited state is defined is under a ghost "
          "protocol (stack of current bases, recorded at every read of the Hamiltonian's data and every DensityMatrix "
          "construction): for weak coupling the exciton populations are proved to be wrapped while eigenbasis_of(H) is "
          "current and handed over in the caller's basis, for requests from inside and outside a caller's context; for "
          "strong coupling the site energies are read and the state wrapped in the site basis when requested outside a "
          "context - inside a caller's context they are not (open known finding)."),
    note=("real arithmetic for floats (the numerical-safety clause is what carries the low-temperature claim); exp is "
          "uninterpreted with exp(0) = 1, positivity, exp(x) <= 1 for x <= 0 and exp(x+y) = exp(x) exp(y); "
          "get_DensityMatrix (weak-coupling dispatch, impulsive excitation) and the inside/outside-basis-context claim are "
          "not under contract; in the molecular version the eigenbasis_of context is a stand-in that presents the "
          "Hamiltonian in its eigenbasis (entering, leaving and transforming back are C04)."),
    technique="VCs from the real AST with a sidecar loop invariant, z3; sum lemmas in Lean 4",
)


def contracts(reg):
    T = reg.models.table
    T["exp"] = T["numpy.exp"]

    def setup(S, zero_T, with_subtract):
        n, start = S.int("n"), S.int("start")
        HH = S.array("HH", (n, n), "cx")
        me = S.obj(AB + "AggregateBase", label="self")
        d = dict(self=me, temp=(0.0 if zero_T else S.real("temp")), relaxation_hamiltonian=HH, start=start, n=n, HH=HH,
                 subtract=(S.array("sub", (n,), "real") if with_subtract else None))
        d["kBT"] = None
        return d

    def ghost(S, env):

        env["NS"] = V.arith("-", env["n"], env["start"])

    E = "(numpy.real(HH[{i}+start,{i}+start]) - {sub})"
    for with_sub in (False, True):
        sub = "subtract[{i}]" if with_sub else "0"
        tag = "#positive-temperature" + ("-with-subtracted-energies" if with_sub else "")
        en = lambda i: E.format(i=i, sub=sub.format(i=i))        # noqa: E731
        reg.add(Contract(
            AB + "AggregateBase._thermal_population" + tag, setup=(lambda S, w=with_sub: setup(S, False, w)), ghost=ghost,
            requires=["n >= 1", "0 <= start < n", "temp > 0"],
            ensures=[("diagonal", "forall((a, b), (range(0, n), range(0, n)), implies(a != b, result[a,b] == 0))"),
                     ("nothing-below-the-start-index", "forall(a, range(0, start), result[a,a] == 0)"),
                     ("boltzmann-factors-cannot-all-underflow",
                      "forall(i, range(0, NS), local_ens[i] >= 0) and exists(i, range(0, NS), local_ens[i] == 0)"),
                     ("energies-measured-from-the-lowest",
                      "forall((i, j), (range(0, NS), range(0, NS)), local_ens[i] - local_ens[j] == %s - %s)" % (en("i"), en("j"))),
                     ("normalisation-is-the-sum-of-the-factors-and-at-least-one",
                      "local_sne == Sum(i, range(0, NS), local_ne[i]) and local_sne >= 1",
                      dict(use=[("sum_ge_one_term", {"N": "NS", "c": "1", "F": "local_ne"})])),
                     ("factors-are-boltzmann-factors", "forall(i, range(0, NS), local_ne[i] == exp(-local_ens[i]/local_kBT))"),
                     ("populations-are-normalised-boltzmann-factors",
                      "forall(i, range(0, NS), numpy.real(result[i+start,i+start])*local_sne == local_ne[i])",
                      dict(use=[("sum_ge_one_term", {"N": "NS", "c": "1", "F": "local_ne"})])),
                     ("populations-real-and-non-negative",
                      "forall(a, range(0, n), numpy.imag(result[a,a]) == 0 and numpy.real(result[a,a]) >= 0)",
                      dict(use=[("sum_ge_one_term", {"N": "NS", "c": "1", "F": "local_ne"})]))],
            loops={0: dict(inv=["forall(j, range(0, _i - start), ens[j] == numpy.real(HH[j+start,j+start]) - subtract[j])"],
                           modifies=["ens"])},
            expose_locals=["ens", "sne", "kBT", "ne"]))
    # callers execute the real body; the loop invariant is shared through this (never separately verified) entry
    reg.add(Contract(AB + "AggregateBase._thermal_population", inline=True,
                     loops={0: dict(inv=["forall(j, range(0, _i - start), ens[j] == numpy.real(HH[j+start,j+start]) - subtract[j])"],
                                    modifies=["ens"])}))
    reg.add(Contract(AB + "AggregateBase._thermal_population#zero-temperature", setup=lambda S: setup(S, True, False), ghost=ghost,
                     requires=["n >= 1", "0 <= start < n"],
                     ensures=[("all-population-on-the-start-index",
                               "forall((a, b), (range(0, n), range(0, n)), result[a,b] == ite(a == start and b == start, 1, 0))")]))

    # ---- thermal excited state, strong coupling: which energies define the site equilibrium ----------------------------------------------
    # With a relaxation Hamiltonian supplied by the caller its energies are used as they are (documented: "no
    # reorganization energies are subtracted"); without one the site reorganisation energies are subtracted from the
    # aggregate's own Hamiltonian.  Stated relationally: the returned matrix is what _thermal_population gives for
    # exactly those energies.
    def dm_hook(ex, cinfo, args, kwargs, line):
        if cinfo.name in ("DensityMatrix", "ReducedDensityMatrix"):
            st = ex.__dict__.setdefault("basis_stack", ["site"])
            ex.__dict__.setdefault("dm_created_in", []).append(st[-1])
            return (Obj(cinfo.name + "(stub)", {"data": kwargs.get("data", args[0] if args else None)}),)
        if cinfo.name == "eigenbasis_of":
            # stand-in context: inside it the operator's `data` is its eigen-representation (the stub Hamiltonian of
            # the set-up carries exactly that); entering / leaving and transforming back are the subject of C04.
            # Ghost: a stack of the bases that are current (C14 claim "same state inside and outside a context")
            ex.used_models.add("assume:eigenbasis_of context presents the Hamiltonian in its eigenbasis (C04)")
            st = ex.__dict__.setdefault("basis_stack", ["site"])
            name = "eigenbasis_of(%s)" % getattr(args[0], "label", "?")
            return (Obj("eigenbasis_of(stand-in)", {"__enter__": Builtin("ctx.__enter__", lambda ex_, a, k, l: st.append(name)),
                                                    "__exit__": Builtin("ctx.__exit__", lambda ex_, a, k, l: st.pop())}),)
        return None
    reg.models.hooks_instantiate.append(dm_hook)

    def setup_dm(S, supplied, concrete=None):
        n = S.int("n") if concrete is None else concrete[0]
        start = S.int("start") if concrete is None else concrete[1]
        reorg = S.array("reorg", (n,), "real")
        sbi = S.obj("SystemBathInteraction(stub)", label="sbi",
                    get_reorganization_energy=Builtin("sbi.get_reorganization_energy", lambda ex, a, k, l: reorg.get([a[0]])),
                    has_temperature=Builtin("sbi.has_temperature", lambda ex, a, k, l: True),
                    get_temperature=Builtin("sbi.get_temperature", lambda ex, a, k, l: S.leaves["temp"]))
        own = S.obj("Hamiltonian(stub)", label="ownH", dim=n, data=S.array("Hown", (n, n), "cx" if concrete is None else "real"))
        given = S.obj("Hamiltonian(stub)", label="givenH", dim=n, data=S.array("Hgiven", (n, n), "cx"))
        nb = V.lam_array((2,), "int", lambda idx: z3.If(V.z3int(idx[0]) == 0, start, V.arith("-", n, start)))
        me = S.obj(AB + "AggregateBase", label="self", _built=True, sbi=sbi, Nb=nb, rho0=None,
                   get_Hamiltonian=Builtin("self.get_Hamiltonian", lambda ex, a, k, l: own))
        temp = S.real("temp")
        if concrete is None:
            S.ex.assume(z3.And(n >= 2, start >= 1, start < n, temp > 0))
        else:
            S.ex.assume(temp > 0)
        return dict(self=me, condition_type="thermal_excited_state", relaxation_theory_limit="strong_coupling",
                    temperature=temp, relaxation_hamiltonian=(given if supplied else None), DD=None,
                    n=n, start=start, reorg=reorg, Hown=own.fields["data"], Hgiven=given.fields["data"], temp=temp)

    def capture(ex, finfo, args, kwargs, bound, line):
        if finfo.name == "_thermal_population" and (ex.registry.under_proof or "").endswith("get_DensityMatrix"):
            ex.captured_thermal_call = dict(kwargs, temp=args[0] if args else kwargs.get("temp"))
        return None
    reg.models.hooks_call.insert(0, capture)

    def ghost_dm(S, env):
        """what get_DensityMatrix handed to _thermal_population (ghost: recorded at the call)"""
        c = getattr(S.ex, "captured_thermal_call", None)
        if c is not None:
            env["passed_subtract"] = c.get("subtract")
            env["passed_hamiltonian"] = c.get("relaxation_hamiltonian")
            env["passed_start"] = c.get("start")
            env["passed_temp"] = c.get("temp")
    for supplied in (True, False):
        H_ = "Hgiven" if supplied else "Hown"
        SUB = "0" if supplied else "ite(i < n - start, reorg[i], 0)"
        reg.add(Contract(AB + "AggregateBase.get_DensityMatrix#strong-coupling-" + ("supplied-hamiltonian" if supplied else "own-hamiltonian"),
                         setup=(lambda S, sup=supplied: setup_dm(S, sup)), ghost=ghost_dm, requires=[],
                         ensures=[("equilibrium-formed-from-the-documented-hamiltonian",
                                   "forall((a, b), (range(0, n), range(0, n)), passed_hamiltonian[a,b] == %s[a,b])" % H_),
                                  ("reorganisation-energies-subtracted-exactly-as-documented",
                                   "forall(i, range(0, n - start), passed_subtract[i] == %s)" % SUB),
                                  ("excited-band-only-at-the-requested-temperature", "passed_start == start and passed_temp == temp"),
                                  ("result-is-that-equilibrium", "result.data is self.rho0")]))

    # ---- the basis in which the state is defined is fixed by the request ---------------------------------------------------------------
    # weak coupling: the matrix of exciton populations must be given to a DensityMatrix while the exciton basis of the
    # Hamiltonian is current (the object then carries its basis and is handed over in the caller's); strong coupling: the
    # site energies must be read and the matrix wrapped while the site basis is current.  Ghost: stack of current bases,
    # recorded at every DensityMatrix construction and at every read of the Hamiltonian's data.
    def read_hook(ex, obj, name, line):
        if name == "data" and isinstance(obj, Obj) and getattr(obj, "label", None) in ("ownH", "givenH") \
                and getattr(ex, "basis_protocol", False):
            st = ex.__dict__.setdefault("basis_stack", ["site"])
            ex.__dict__.setdefault("ham_read_in", []).append(st[-1])
        return None
    reg.models.hooks_getattr.insert(0, read_hook)

    def setup_basis(S, limit, inside):
        d = setup_dm(S, False, concrete=(4, 1))       # ground state + three excitons (the weak-coupling arm builds a list)
        d["relaxation_theory_limit"] = limit
        S.ex.basis_stack = ["site"] + (["eigenbasis_of(caller)"] if inside else [])
        S.ex.dm_created_in = []
        S.ex.ham_read_in = []
        S.ex.basis_protocol = True
        return d

    def ghost_basis(S, env):
        ghost_dm(S, env)
        env["dm_created_in"] = list(S.ex.dm_created_in)
        env["ham_read_in"] = list(S.ex.ham_read_in)
        env["basis_stack"] = list(S.ex.basis_stack)
    for inside in (False, True):
        tag = "inside-a-callers-context" if inside else "outside-any-context"
        cur = "eigenbasis_of(caller)" if inside else "site"
        reg.add(Contract(AB + "AggregateBase.get_DensityMatrix#basis-weak-coupling-requested-" + tag,
                         setup=(lambda S, i=inside: setup_basis(S, "weak_coupling", i)), ghost=ghost_basis, requires=[],
                         ensures=[("exciton-populations-wrapped-in-the-exciton-basis-of-the-hamiltonian",
                                   "dm_created_in[0] == 'eigenbasis_of(ownH)'"),
                                  ("energies-read-in-the-exciton-basis", "ham_read_in == ['eigenbasis_of(ownH)']"),
                                  ("handed-over-in-the-callers-basis", "dm_created_in[-1] == %r and basis_stack[-1] == %r" % (cur, cur))]))
        reg.add(Contract(AB + "AggregateBase.get_DensityMatrix#basis-strong-coupling-requested-" + tag,
                         setup=(lambda S, i=inside: setup_basis(S, "strong_coupling", i)), ghost=ghost_basis, requires=[],
                         ensures=[("site-energies-read-and-state-wrapped-in-the-site-basis",
                                   "ham_read_in == ['site'] and dm_created_in == ['site']")]))

    # ---- molecular version (OpenSystem.get_thermal_ReducedDensityMatrix) ------------------------------------------------------------------
    def setup_mol(S, zero_T, ground_zero=False):
        dim = S.int("dim")
        heig = S.array("Heig", (dim, dim), "real")           # the Hamiltonian as seen inside eigenbasis_of(H)
        H = S.obj("Hamiltonian(stub)", label="H", _data=S.array("Hsite", (dim, dim), "real"), data=heig, dim=dim)
        temp = 0.0 if zero_T else S.real("temp")
        me = S.obj(OS + "OpenSystem", label="self",
                   get_Hamiltonian=Builtin("self.get_Hamiltonian", lambda ex, a, k, l: H),
                   get_temperature=Builtin("self.get_temperature", lambda ex, a, k, l: temp))
        if ground_zero:
            S.ex.assume(z3.And(heig.get([0, 0]) == 0))
            i = z3.Int("i!gz")
            S.ex.assume(z3.ForAll([i], z3.Implies(z3.And(i >= 0, i < dim), V.z3real(heig.get([i, i])) >= 0)))
        return dict(self=me, dim=dim, Heig=heig, temp=temp)
    BF = "exp(-Heig[{i},{i}]/(kB_intK*temp))"
    mol_ens = [("diagonal", "forall((a, b), (range(0, dim), range(0, dim)), implies(a != b, result.data[a,b] == 0))"),
               ("normalisation-is-the-sum-of-the-boltzmann-factors-and-positive",
                "local_dsum == Sum(i, range(0, dim), %s) and numpy.real(local_dsum) > 0" % BF.format(i="i"),
                dict(use=[("sum_ge_one_term", {"N": "dim", "c": BF.format(i="0"), "F": "lambda i: " + BF.format(i="i")})])),
               ("populations-are-normalised-boltzmann-factors",
                "forall(i, range(0, dim), result.data[i,i]*local_dsum == %s)" % BF.format(i="i"),
                dict(use=[("sum_ge_one_term", {"N": "dim", "c": BF.format(i="0"), "F": "lambda i: " + BF.format(i="i")})])),
               ("populations-real-and-non-negative",
                "forall(a, range(0, dim), numpy.imag(result.data[a,a]) == 0 and numpy.real(result.data[a,a]) >= 0)",
                dict(use=[("sum_ge_one_term", {"N": "dim", "c": BF.format(i="0"), "F": "lambda i: " + BF.format(i="i")})]))]
    mol_loops = {0: dict(inv=["dsum == Sum(j, range(0, _i), %s)" % BF.format(i="j"),
                              "forall(a, range(0, _i), dat[a,a] == %s)" % BF.format(i="a"),
                              "forall((a, b), (range(0, dim), range(0, dim)), implies(a != b or a >= _i, dat[a,b] == 0))"],
                         modifies=["dat", "dsum"])}
    reg.add(Contract(OS + "OpenSystem.get_thermal_ReducedDensityMatrix#positive-temperature",
                     setup=lambda S: setup_mol(S, False), requires=["dim >= 1", "temp >= 1.0e-10"],
                     ensures=mol_ens, loops=mol_loops, expose_locals=["dsum"]))
    reg.add(Contract(OS + "OpenSystem.get_thermal_ReducedDensityMatrix#lowest-energy-zero",
                     setup=lambda S: setup_mol(S, False, True), requires=["dim >= 1", "temp >= 1.0e-10"],
                     ensures=[("boltzmann-factors-cannot-all-underflow", "numpy.real(local_dsum) >= 1",
                               dict(use=[("sum_ge_one_term", {"N": "dim", "c": "1", "F": "lambda i: " + BF.format(i="i")})]))],
                     loops=mol_loops, expose_locals=["dsum"]))
    reg.add(Contract(OS + "OpenSystem.get_thermal_ReducedDensityMatrix#zero-temperature",
                     setup=lambda S: setup_mol(S, True), requires=["dim >= 1"],
                     ensures=[("all-population-on-the-lowest-eigenstate",
                               "forall((a, b), (range(0, dim), range(0, dim)), result.data[a,b] == ite(a == 0 and b == 0, 1, 0))")]))


def plan(ctx):
    p = Plan("C14")
    contracts(ctx.registry)
    p.functions = [AB + "AggregateBase._thermal_population#positive-temperature",
                   AB + "AggregateBase._thermal_population#positive-temperature-with-subtracted-energies",
                   AB + "AggregateBase._thermal_population#zero-temperature",
                   AB + "AggregateBase.get_DensityMatrix#strong-coupling-supplied-hamiltonian",
                   AB + "AggregateBase.get_DensityMatrix#strong-coupling-own-hamiltonian",
                   ] + [AB + "AggregateBase.get_DensityMatrix#basis-%s-coupling-requested-%s" % (l_, t_)
                        for l_ in ("weak", "strong") for t_ in ("outside-any-context", "inside-a-callers-context")] + [
                   OS + "OpenSystem.get_thermal_ReducedDensityMatrix#positive-temperature",
                   OS + "OpenSystem.get_thermal_ReducedDensityMatrix#lowest-energy-zero",
                   OS + "OpenSystem.get_thermal_ReducedDensityMatrix#zero-temperature"]
    x, y = z3.Reals("x y")
    ef = lambda t: V.ufun("exp", t)      # noqa: E731
    p.extra_axioms = [V.ufun("exp", 0) == 1, z3.ForAll([x], ef(x) > 0, patterns=[ef(x)]),
                      z3.ForAll([x], z3.Implies(x <= 0, ef(x) <= 1), patterns=[ef(x)]),
                      z3.Real("c_c") == 299792458] + list(V.pi_axioms())       # kB_intK = 0.695... * 2 pi c 1e-13 > 0
    p.oracles = ["native/oracle_C14.py"]
    p.trusted = ["scipy.constants.c = 299792458 (exact SI value), 3.14159265 < pi < 3.14159266", "exp(0) = 1, exp(x) > 0, exp(x) <= 1 for x <= 0 (facts about the real exponential)",
                 "floating point treated as real arithmetic: 'cannot underflow to 0/0' is expressed as: one Boltzmann factor "
                 "is exp(0) = 1 and all others are exp of a non-positive number"]
    p.not_decided = ["get_DensityMatrix: dispatch on condition type; that the DensityMatrix class carries its basis through "
                     "context exit (C04)", "impulsive excitation (Hermitian, PSD; it also differs inside / outside a context, but "
                     "its basis is not fixed by the request)",
                     "that a Molecule's Hamiltonian has its lowest eigenenergy at zero (precondition of the no-underflow clause of "
                     "the molecular version); systems with vibrational modes in aggregates (index bookkeeping of bands)"]
    return p
