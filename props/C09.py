"""C09 - bath correlation functions add linearly and carry consistent parameters.

Relational (self-composition) lemmas over the real code: the constructor of CorrelationFunction, __add__, add_to_data and
add_to_data2 (+=) are executed symbolically on symbolic component parameters (any reorganisation energy, correlation
time, temperature, any time axis) and the data / reorganisation energy of the result are compared with those of the
separately constructed components."""
import z3

from qvc.main import Plan
from qvc.spec import Contract, clause_lemma
from qvc.values import Builtin, Obj, SymArr, Cx, fresh
from qvc import values as V
from props.common import transparent_units_contexts

CF = "quantarhei/qm/corfunctions/correlationfunctions.py::"
TM = "quantarhei/core/time.py::"
MGR = "quantarhei/core/managers.py::"

META = dict(
    category="proof",
    text=("The constructor of CorrelationFunction and its addition operations are executed symbolically on the real code "
          "for component lists of length 1-3 over the analytic component types OverdampedBrownian and "
          "OverdampedBrownian-HighTemperature (any parameters, any time axis) and value-defined right-hand operands: the "
          "data of a multi-component function equal the sum of the separately constructed components cell by cell, the "
          "reorganisation energy is the sum of theirs, the parameter list of a sum is the concatenation (so a sum can be "
          "rebuilt and used again as a left operand: (a+b)+c = a+(b+c) = a+b+c cell by cell), in-place addition agrees, "
          "and components at different temperatures are refused. For spectral densities, the operand that + and += "
          "rebuild from its stored (internal-unit) parameters is proved to be rebuilt under internal energy units "
          "whatever units are current at the call, and the caller's units to be current again afterwards."),
    note=("internal energy units are current (the units machinery is C05); exp and tan are uninterpreted functions; the "
          "Matsubara sum uses the default number of terms; component types built through spectral densities and FFT "
          "(UnderdampedBrownian, Underdamped, B777, CP29) and the values of spectral-density sums are not under contract "
          "(the units context is a ghost stack there and the constructor a recording stand-in); "
          "reorganisation energy recovered from the data (numerical quadrature) and even/odd Fourier parts are not decided."),
    technique="relational VCs by symbolic execution of the real constructors and operators (self-composition), z3",
)

TYPES = ["OverdampedBrownian", "OverdampedBrownian-HighTemperature"]


def world(S, in_context=True):
    m = S.obj(MGR + "Manager", label="mgr", current_units={"energy": "int", "frequency": "int", "dipolemoment": "int",
                                                          "temperature": "2pi/fs", "time": "fs", "length": "int"},
              _enforce_contexts=True, _in_energy_units_context=in_context, _in_eu_count=1 if in_context else 0,
              _in_eigenbasis_of_context=False, _in_eb_count=0)
    S.singleton("Manager", m)
    n = S.int("N")
    start, step = S.real("t0"), S.real("dt")
    data = V.lam_array((n,), "real", lambda idx: V.arith("+", start, V.arith("*", idx[0], step)))
    ax = S.obj(TM + "TimeAxis", label="axis", _start=start, _step=step, _length=n, data=data, atype="upper-half",
               frequency_start=0, allowed_atypes=["upper-half", "complete"])
    S.ex.assume(z3.And(n >= 1, step > 0))
    return m, ax, n


def params(S, tag, ftype, T=None):
    return {"ftype": ftype, "reorg": S.real("reorg_" + tag), "cortime": S.real("cortime_" + tag),
            "T": T if T is not None else S.real("T_" + tag)}


def build(S, ax, plist, values=None):
    ci = S.ex.repo.cls(CF + "CorrelationFunction")
    arg = plist[0] if (len(plist) == 1 and plist[0].get("__single__", True) and not plist[0].get("__aslist__")) else plist
    def strip(d):
        # the caller's own dictionary object is handed over whenever it carries no set-up marker (aliasing matters)
        return d if not any(k.startswith("__") for k in d) else {k: v for k, v in d.items() if not k.startswith("__")}
    if isinstance(arg, dict):
        arg = strip(arg)
    else:
        arg = [strip(p) for p in arg]
    kw = {"values": values} if values is not None else {}
    return S.ex.instantiate(ci, [ax, arg], kw)


def lemma_constructor_linear(ctx):
    obs = []
    for t1 in TYPES:
        for t2 in TYPES:
            def setup(S, t1=t1, t2=t2):
                m, ax, n = world(S)
                T = S.real("T")
                p1, p2 = params(S, "1", t1, T), params(S, "2", t2, T)
                for p in (p1, p2):
                    S.ex.assume(z3.And(p["cortime"] > 0, T > 0))
                both = build(S, ax, [p1, p2])
                one, two = build(S, ax, [p1]), build(S, ax, [p2])
                return dict(both=both, one=one, two=two, N=n, p1=p1, p2=p2)
            obs += clause_lemma(ctx, "constructor-linear-%s+%s" % (t1, t2), setup, ["N >= 1"],
                                [("data-is-the-sum-of-the-components", "forall(i, range(0, N), both.data[i] == one.data[i] + two.data[i])"),
                                 ("reorganisation-energy-is-the-sum", "both.lamb == one.lamb + two.lamb"),
                                 ("temperature-kept", "both.temperature == one.temperature and one.temperature == two.temperature"),
                                 ("parameters-kept-in-order", "len(both.params) == 2 and both.params[0]['ftype'] == p1['ftype'] "
                                                              "and both.params[1]['ftype'] == p2['ftype'] and "
                                                              "both.params[0]['reorg'] == p1['reorg'] and both.params[1]['reorg'] == p2['reorg']")],
                                where="props/C09.py: CorrelationFunction(axis, [p1, p2]) against the two single-component constructions (real code)")
    return obs


DATA3 = "forall(i, range(0, N), s.data[i] == a.data[i] + b.data[i] + c.data[i])"
DATA2 = "forall(i, range(0, N), s.data[i] == a.data[i] + b.data[i])"


def lemma_three_components(ctx):
    obs = []
    import itertools
    for ts in itertools.product(TYPES, repeat=3):
        def setup(S, ts=ts):
            m, ax, n = world(S)
            T = S.real("T")
            ps = [params(S, str(k), t, T) for k, t in enumerate(ts)]
            for p in ps:
                S.ex.assume(z3.And(p["cortime"] > 0, T > 0))
            s = build(S, ax, ps)
            a, b, c = (build(S, ax, [p]) for p in ps)
            return dict(s=s, a=a, b=b, c=c, N=n)
        obs += clause_lemma(ctx, "three-components-%s" % "+".join(t[-5:] for t in ts), setup, ["N >= 1"],
                            [("data-is-the-sum-of-the-components", DATA3),
                             ("reorganisation-energy-is-the-sum", "s.lamb == a.lamb + b.lamb + c.lamb")],
                            where="props/C09.py: CorrelationFunction(axis, [p1, p2, p3]) against the single-component constructions")
    return obs


def value_defined(S, ax, n, T):
    vals = S.array("vals", (n,), "cx")
    return build(S, ax, [{"ftype": "Value-defined", "reorg": S.real("reorg_v"), "T": T}], values=vals)


def lemma_addition(ctx):
    """a + b, (a + b) + c, a + (b + c), a += b, a += a, value-defined right operands: the real operators on the real
    constructors' results"""
    obs = []
    import itertools
    for t1, t2 in itertools.product(TYPES, repeat=2):
        def setup2(S, t1=t1, t2=t2):
            m, ax, n = world(S)
            T = S.real("T")
            p1, p2 = params(S, "1", t1, T), params(S, "2", t2, T)
            for p in (p1, p2):
                S.ex.assume(z3.And(p["cortime"] > 0, T > 0))
            a, b = build(S, ax, [p1]), build(S, ax, [p2])
            s = S.ex.call_method(a, "__add__", [b], {})
            rebuilt = build(S, ax, [dict(q, __aslist__=True) for q in s.fields["params"]])
            return dict(s=s, a=a, b=b, rebuilt=rebuilt, N=n)
        obs += clause_lemma(ctx, "a+b-%s+%s" % (t1[-5:], t2[-5:]), setup2, ["N >= 1"],
                            [("data-add", DATA2), ("reorganisation-energies-add", "s.lamb == a.lamb + b.lamb"),
                             ("operands-unchanged-objects", "s is not a and s is not b and s.data is not a.data and s.data is not b.data"),
                             ("parameter-list-is-the-concatenation", "len(s.params) == len(a.params) + len(b.params)"),
                             ("sum-can-be-rebuilt-from-its-parameters",
                              "forall(i, range(0, N), rebuilt.data[i] == s.data[i]) and rebuilt.lamb == s.lamb")],
                            where="props/C09.py: CorrelationFunction.__add__ on two constructed functions (real code)")
    for ts in itertools.product(TYPES, repeat=3):
        def setup3(S, ts=ts, left=True):
            m, ax, n = world(S)
            T = S.real("T")
            ps = [params(S, str(k), t, T) for k, t in enumerate(ts)]
            for p in ps:
                S.ex.assume(z3.And(p["cortime"] > 0, T > 0))
            a, b, c = (build(S, ax, [p]) for p in ps)
            ab = S.ex.call_method(a, "__add__", [b], {})
            s = S.ex.call_method(ab, "__add__", [c], {})
            bc = S.ex.call_method(b, "__add__", [c], {})
            s2 = S.ex.call_method(a, "__add__", [bc], {})
            return dict(s=s, s2=s2, a=a, b=b, c=c, N=n)
        obs += clause_lemma(ctx, "grouping-%s" % "+".join(t[-5:] for t in ts), setup3, ["N >= 1"],
                            [("(a+b)+c", DATA3), ("a+(b+c)", DATA3.replace("s.data", "s2.data")),
                             ("reorganisation-energies-add", "s.lamb == a.lamb + b.lamb + c.lamb and s2.lamb == s.lamb")],
                            where="props/C09.py: both groupings of three constructed functions (real code)")
    for t1, t2 in itertools.product(TYPES, repeat=2):
        def setup_dup(S, t1=t1, t2=t2):
            m, ax, n = world(S)
            T = S.real("T")
            p1, p2 = params(S, "1", t1, T), params(S, "2", t2, T)
            for p in (p1, p2):
                S.ex.assume(z3.And(p["cortime"] > 0, T > 0))
            a, c = build(S, ax, [p1]), build(S, ax, [p2])
            aa = S.ex.call_method(a, "__add__", [a], {})
            s = S.ex.call_method(aa, "__add__", [c], {})
            return dict(s=s, a=a, c=c, N=n)
        obs += clause_lemma(ctx, "repeated-component-%s+%s" % (t1[-5:], t2[-5:]), setup_dup, ["N >= 1"],
                            [("(a+a)+c", "forall(i, range(0, N), s.data[i] == a.data[i] + a.data[i] + c.data[i]) "
                                         "and s.lamb == a.lamb + a.lamb + c.lamb")],
                            where="props/C09.py: a sum with a repeated component used again as a left operand (real code)")
    for t1, t2 in itertools.product(TYPES, repeat=2):
        def setup_i(S, t1=t1, t2=t2):
            m, ax, n = world(S)
            T = S.real("T")
            p1, p2 = params(S, "1", t1, T), params(S, "2", t2, T)
            for p in (p1, p2):
                S.ex.assume(z3.And(p["cortime"] > 0, T > 0))
            a, b = build(S, ax, [p1]), build(S, ax, [p2])
            s = build(S, ax, [p1])
            s = S.ex.call_method(s, "__iadd__", [b], {})
            d = build(S, ax, [p1])
            d = S.ex.call_method(d, "__iadd__", [d], {})
            v = value_defined(S, ax, n, T)
            sv = S.ex.call_method(S.ex.call_method(a, "__add__", [b], {}), "__add__", [v], {})
            return dict(s=s, d=d, a=a, b=b, v=v, sv=sv, N=n)
        obs += clause_lemma(ctx, "in-place-%s+%s" % (t1[-5:], t2[-5:]), setup_i, ["N >= 1"],
                            [("a+=b", DATA2), ("a+=b-reorganisation-energy", "s.lamb == a.lamb + b.lamb"),
                             ("a+=a", "forall(i, range(0, N), d.data[i] == a.data[i] + a.data[i]) and d.lamb == a.lamb + a.lamb"),
                             ("(a+b)+value-defined", "forall(i, range(0, N), sv.data[i] == a.data[i] + b.data[i] + v.data[i]) "
                                                     "and sv.lamb == a.lamb + b.lamb + v.lamb")],
                            where="props/C09.py: in-place addition and a value-defined right operand (real code)")
    return obs


def lemma_parameters_kept(ctx):
    """the stored component parameters are copies of what the caller supplied, with every optional key (here an explicit
    number of Matsubara terms, different from the default) kept, so that a function rebuilt from its stored parameters
    (left operand of +, += of a function to itself) is the same function"""
    obs = []
    for nm in (3, 12):
        def setup(S, nm=nm):
            m, ax, n = world(S)
            T = S.real("T")
            p1 = dict(params(S, "1", TYPES[0], T), matsubara=nm)
            p2 = params(S, "2", TYPES[0], T)
            for p in (p1, p2):
                S.ex.assume(z3.And(p["cortime"] > 0, T > 0))
            a, b = build(S, ax, [p1]), build(S, ax, [p2])
            s = S.ex.call_method(a, "__add__", [b], {})
            s2 = S.ex.call_method(b, "__add__", [a], {})
            a2 = build(S, ax, [dict(p1)])
            S.ex.call_method(a2, "__iadd__", [a2], {})
            return dict(s=s, s2=s2, a=a, b=b, a2=a2, p1=p1, p2=p2, N=n, nm=nm)
        obs += clause_lemma(ctx, "explicit-matsubara-%d" % nm, setup, ["N >= 1"],
                            [("data-add", DATA2), ("data-add-other-order", DATA2.replace("s.data", "s2.data")),
                             ("reorganisation-energies-add", "s.lamb == a.lamb + b.lamb"),
                             ("in-place-self-addition-doubles", "forall(i, range(0, N), a2.data[i] == 2*a.data[i])"),
                             ("stored-parameters-are-copies", "a.params[0] is not p1 and b.params[0] is not p2"),
                             ("optional-keys-kept", "a.params[0]['matsubara'] == nm and s.params[0]['matsubara'] == nm "
                                                    "and s2.params[1]['matsubara'] == nm"),
                             ("callers-dictionaries-untouched", "p1['matsubara'] == nm and len(p1) == 5 and len(p2) == 4")],
                            where="props/C09.py: components with an explicit number of Matsubara terms (real code)")
    return obs


def contracts(reg):
    """refusals as contracts on the operators"""
    def setup_add(S, same_T, same_axis=True):
        m, ax, n = world(S)
        T1 = S.real("T1")
        T2 = T1 if same_T else S.real("T2")
        p1, p2 = params(S, "1", TYPES[0], T1), params(S, "2", TYPES[1], T2)
        for p in (p1, p2):
            S.ex.assume(z3.And(p["cortime"] > 0, p["T"] > 0))
        a, b = build(S, ax, [p1]), build(S, ax, [p2])
        return dict(self=a, other=b, N=n, T1=T1, T2=T2)
    # the reorganisation energy is recovered from the whole function: minus the imaginary part of the primitive over the
    # whole axis at its last point (how close that is to the declared value is numerical quadrature and not decided here)
    def setup_measure(S):
        m, ax, n = world(S)
        data = S.array("cdata", (n,), "cx")
        me = S.obj(CF + "CorrelationFunction", label="self", axis=ax, data=data, lamb=S.real("lamb"),
                   cutoff_time=S.real("cutoff"), temperature=S.real("T"), params=[], _has_imag=True, _is_empty=False,
                   _splines_initialized=False)
        return dict(self=me, N=n, cdata=data)
    reg.add(Contract(CF + "CorrelationFunction.measure_reorganization_energy", setup=setup_measure, requires=["N >= 1"],
                     ensures=[("integral-of-the-imaginary-part-over-the-whole-axis",
                               "result == -spline_primitive(self.axis.data, numpy.imag(cdata))[N - 1]")]))
    for f in ("__add__", "add_to_data", "add_to_data2"):
        reg.add(Contract(CF + "CorrelationFunction." + f + "#different-temperatures", setup=lambda S: setup_add(S, False),
                         requires=["N >= 1", "T1 != T2"], raises={"Exception": dict(when="True")}))

SD = "quantarhei/qm/corfunctions/spectraldensities.py::SpectralDensity"


def contracts_sd(reg):
    """spectral densities: a function that is rebuilt from its stored parameters (left operand of a + b, the operand of
    a += a) must be rebuilt under internal energy units, whatever units are current at the call: the stored parameters
    are internal-unit values.  Ghost protocol: the units context is a stack, the constructor records its top."""
    from qvc.values import Obj, Builtin

    def active(ex):
        return (ex.registry.under_proof or "").startswith(SD + ".")

    def hook(ex, cinfo, args, kwargs, line):
        if not active(ex):
            return None
        if cinfo.name == "energy_units":
            st = ex.__dict__.setdefault("units_stack", ["caller"])
            u = args[0]
            return (Obj("energy_units(stack)", {
                "__enter__": Builtin("units.__enter__", lambda ex_, a, k, l: st.append(u)),
                "__exit__": Builtin("units.__exit__", lambda ex_, a, k, l: st.pop())}),)
        if cinfo.name == "SpectralDensity":
            st = ex.__dict__.setdefault("units_stack", ["caller"])
            ex.__dict__.setdefault("rebuilt_under", []).append(st[-1])
            return (Obj("SpectralDensity(rebuilt)", {"axis": args[0], "params": list(args[1] if len(args) > 1 else kwargs.get("params")),
                                                      "add_to_data": Builtin("rebuilt.add_to_data", lambda ex_, a, k, l: None),
                                                      "data": ex.rebuilt_data, "lamb": ex.rebuilt_lamb}),)
        return None
    reg.models.hooks_instantiate.insert(0, hook)

    def setup(S, same):
        n = S.int("N")
        ax = S.obj("FrequencyAxis(stub)", label="axis", length=n)
        S.ex.units_stack = ["caller"]
        S.ex.rebuilt_under = []
        S.ex.rebuilt_data = S.array("rebuilt", (n,), "real")
        S.ex.rebuilt_lamb = S.real("rebuilt_lamb")
        a = S.obj(SD, label="self", axis=ax, params=[{"ftype": "OverdampedBrownian", "reorg": S.real("reorg_a")}],
                  data=S.array("adata", (n,), "real"), lamb=S.real("lamb_a"), _is_composed=False, _is_empty=False)
        b = a if same else S.obj(SD, label="other", axis=ax, params=[{"ftype": "OverdampedBrownian", "reorg": S.real("reorg_b")}],
                                 data=S.array("bdata", (n,), "real"), lamb=S.real("lamb_b"), _is_composed=False, _is_empty=False)
        return dict(self=a, other=b, N=n)

    def ghost(S, env):
        env["rebuilt_under"] = list(S.ex.rebuilt_under)
        env["units_stack"] = list(S.ex.units_stack)
    reg.add(Contract(SD + ".__add__#inside-any-units-context", setup=lambda S: setup(S, False), ghost=ghost, requires=["N >= 0"],
                     ensures=[("left-operand-rebuilt-from-its-internal-unit-parameters-under-internal-units", "rebuilt_under == ['int']"),
                              ("callers-units-restored", "units_stack == ['caller']")]))
    reg.add(Contract(SD + ".add_to_data2#a-function-added-to-itself", setup=lambda S: setup(S, True), ghost=ghost, requires=["N >= 0"],
                     ensures=[("operand-rebuilt-from-its-internal-unit-parameters-under-internal-units", "rebuilt_under == ['int']"),
                              ("callers-units-restored", "units_stack == ['caller']")]))

    # the reorganisation energy recovered from the data is handed out in the current units (like the declared one)
    def setup_measure_sd(S):
        n = S.int("N")
        ax = S.obj("FrequencyAxis(stub)", label="axis", length=n, data=S.array("wdata", (n,), "real"), max=S.real("wmax"))
        tag = z3.Function("u_to_current_units", z3.RealSort(), z3.RealSort())
        me = S.obj(SD, label="self", axis=ax, data=S.array("jdata", (n,), "real"), lamb=S.real("lamb"),
                   convert_energy_2_current_u=Builtin("self.convert_energy_2_current_u", lambda ex, a, k, l: tag(V.z3real(a[0]))))
        reg.models.table["to_current_units"] = Builtin("spec:to_current_units", lambda ex, a, k, l: tag(V.z3real(a[0])))
        return dict(self=me, N=n)
    reg.add(Contract(SD + ".measure_reorganization_energy", setup=setup_measure_sd, requires=["N >= 2"],
                     ensures=[("recovered-value-converted-to-the-current-units", "result == to_current_units(local_integ)")],
                     expose_locals=["integ"]))


def plan(ctx):
    p = Plan("C09")
    contracts_sd(ctx.registry)
    transparent_units_contexts(ctx.registry.models)
    contracts(ctx.registry)
    p.functions = [CF + "CorrelationFunction." + f + "#different-temperatures" for f in ("__add__", "add_to_data", "add_to_data2")]
    p.functions.append(CF + "CorrelationFunction.measure_reorganization_energy")
    p.functions += [SD + ".__add__#inside-any-units-context", SD + ".add_to_data2#a-function-added-to-itself",
                    SD + ".measure_reorganization_energy"]
    p.lemmas = [lemma_constructor_linear, lemma_three_components, lemma_addition, lemma_parameters_kept]
    p.oracles = ["native/oracle_C09.py"]
    p.trusted = ["numpy.exp / numpy.tan are (uninterpreted) functions: equal arguments give equal values",
                 "internal energy units are current while the functions are built (unit conversions: C05)"]
    p.not_decided = ["component types built through SpectralDensity and FFT (UnderdampedBrownian, Underdamped, B777, CP29)",
                     "values of SpectralDensity sums (only the units protocol of the rebuild is under contract) and cfmatrix.py", "reorganisation energy recovered from the data (numerical quadrature)",
                     "even / odd Fourier parts being even / odd in frequency",
                     "more than three components per list (the proofs enumerate the list)"]
    p.extra_axioms = list(V.pi_axioms())
    return p
