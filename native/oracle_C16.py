"""Property-level native oracle for C16: completeness / uniqueness / level order of the hierarchy index set and its links on
a grid of numbers of baths and depths (including depths with two-digit entries), Hermiticity and unit trace of the
propagated reduced density matrix, and reduction to the closed-system dynamics for zero system-bath coupling (also in
the regime of deep hierarchies with fast baths and coarse time steps)."""
import sys
import itertools
import numpy
import quantarhei as qr
from quantarhei.qm.liouvillespace.heom import KTHierarchy, KTHierarchyPropagator

bad = []


def system(nmol, reorg, cortime, depth, e0=10000.0):
    with qr.energy_units("1/cm"):
        mols = [qr.Molecule([0.0, e0 + 100.0 * k]) for k in range(nmol)]
        agg = qr.Aggregate(mols)
        for k in range(nmol - 1):
            agg.set_resonance_coupling(k, k + 1, 60.0)
        tc = qr.TimeAxis(0.0, 500, 1.0)
        cf = qr.CorrelationFunction(tc, dict(ftype="OverdampedBrownian", reorg=reorg, cortime=cortime, T=300.0))
    for m in mols:
        m.set_transition_environment((0, 1), cf)
    agg.build()
    ham = agg.get_Hamiltonian()
    sbi = agg.get_SystemBathInteraction()
    ham.set_rwa([0, 1])
    return ham, sbi, KTHierarchy(ham, sbi, depth)


# ---- index set and links -----------------------------------------------------------------------------------------------
for nb, depth in [(1, 0), (1, 3), (1, 12), (2, 0), (2, 1), (2, 4), (2, 12), (3, 3), (3, 11), (4, 4)]:
    try:
        ham, sbi, hy = system(nb, 20.0, 100.0, depth)
    except Exception as e:      # noqa
        bad.append("hierarchy for %d baths, depth %d could not be built: %s: %s" % (nb, depth, type(e).__name__, e))
        continue
    want = [t for lev in range(depth + 1) for t in itertools.product(range(lev + 1), repeat=nb) if sum(t) == lev]
    got = [tuple(int(x) for x in row) for row in hy.hinds]
    if sorted(got) != sorted(want) or len(got) != hy.hsize:
        bad.append("%d baths, depth %d: index set has %d entries, expected %d; missing %s"
                   % (nb, depth, len(got), len(want), sorted(set(want) - set(got))[:3]))
        continue
    sums = [sum(g) for g in got]
    if sums != sorted(sums):
        bad.append("%d baths, depth %d: multi-indices are not ordered level by level" % (nb, depth))
    pos = {g: i for i, g in enumerate(got)}
    for i, g in enumerate(got):
        for k in range(nb):
            lo = tuple(x - (1 if j == k else 0) for j, x in enumerate(g))
            hi = tuple(x + (1 if j == k else 0) for j, x in enumerate(g))
            wl = pos.get(lo, -1) if g[k] > 0 else -1
            wh = pos.get(hi, -1) if sum(g) < depth else -1
            if hy.nm1[i, k] != wl or hy.np1[i, k] != wh:
                bad.append("%d baths, depth %d: links of %s in bath %d are (%d, %d), expected (%d, %d)"
                           % (nb, depth, g, k, hy.nm1[i, k], hy.np1[i, k], wl, wh))
                break

# ---- propagation ----------------------------------------------------------------------------------------------------
def closed(ham, rho0, t, nsub=50):
    H = ham.data - numpy.diag([ham.rwa_energies[i] for i in range(ham.dim)])
    w, v = numpy.linalg.eigh(H)
    out = []
    for tt in t.data:
        U = v @ numpy.diag(numpy.exp(-1j * w * tt)) @ v.conj().T
        out.append(U @ rho0 @ U.conj().T)
    return numpy.array(out)


for (reorg, cortime, depth, dt) in [(30.0, 100.0, 3, 1.0), (0.0, 100.0, 2, 1.0), (0.0, 10.0, 8, 2.0)]:
    ham, sbi, hy = system(2, reorg if reorg > 0 else 1e-30, cortime, depth)
    t = qr.TimeAxis(0.0, 40, dt)
    kp = KTHierarchyPropagator(t, hy)
    rho = qr.ReducedDensityMatrix(dim=3)
    rho.data[:, :] = numpy.array([[0, 0, 0], [0, 0.6, 0.3 + 0.1j], [0, 0.3 - 0.1j, 0.4]])
    r = kp.propagate(rho).data
    if not numpy.allclose(r, numpy.conj(numpy.transpose(r, (0, 2, 1))), atol=1e-10):
        bad.append("reorg %g, cortime %g, depth %d, dt %g: reduced density matrix not Hermitian" % (reorg, cortime, depth, dt))
    tr = numpy.trace(r, axis1=1, axis2=2)
    if not numpy.allclose(tr, 1.0, atol=1e-8):
        bad.append("reorg %g, cortime %g, depth %d, dt %g: trace deviates from one by %.3g" % (reorg, cortime, depth, dt, numpy.abs(tr - 1).max()))
    if reorg == 0.0:
        ref = closed(ham, rho.data, t)
        if numpy.abs(r - ref).max() > 5e-3:
            bad.append("zero coupling, cortime %g, depth %d, dt %g: differs from the closed-system dynamics by %.3g"
                       % (cortime, depth, dt, numpy.abs(r - ref).max()))

# ---- uncoupled sites: convergence with the depth to the analytic pure-dephasing solution exp(-i w t - g(t)) ---------------------------
try:
    from quantarhei.core.units import kB_intK, cm2int

    def _uncoupled(depth_):
        tc_ = qr.TimeAxis(0.0, 300, 1.0)
        with qr.energy_units("1/cm"):
            ms_ = [qr.Molecule([0.0, 10000.0 + 200.0 * k_]) for k_ in range(2)]
            for m_ in ms_:
                m_.set_transition_environment((0, 1), qr.CorrelationFunction(tc_, dict(ftype="OverdampedBrownian", reorg=30.0, cortime=100.0, T=300.0)))
            ag_ = qr.Aggregate(ms_)
        ag_.build()
        h_ = ag_.get_Hamiltonian()
        h_.set_rwa([0, 1])
        return h_, KTHierarchy(h_, ag_.get_SystemBathInteraction(), depth_)
    devs_ = {}
    for depth_ in (2, 6):
        h_, hy_ = _uncoupled(depth_)
        t_ = qr.TimeAxis(0.0, 200, 1.0)
        r0_ = qr.ReducedDensityMatrix(dim=3)
        r0_.data[:, :] = numpy.array([[0.5, 0.5, 0], [0.5, 0.5, 0], [0, 0, 0]])
        got_ = numpy.array(KTHierarchyPropagator(t_, hy_).propagate(r0_).data)[:, 1, 0]
        lam_, gam_, kT_ = 30.0 * cm2int, 1.0 / 100.0, kB_intK * 300.0
        g_ = (2 * lam_ * kT_ / gam_ ** 2 - 1j * lam_ / gam_) * (numpy.exp(-gam_ * t_.data) + gam_ * t_.data - 1)
        w_ = numpy.array(h_.data)[1, 1] - h_.rwa_energies[1]
        devs_[depth_] = abs(got_ - 0.5 * numpy.exp(-1j * w_ * t_.data - g_)).max()
    if devs_[6] > 1e-2 or devs_[6] > devs_[2] / 10:
        bad.append("uncoupled sites: optical coherence does not converge to exp(-i w t - g(t)) with the depth "
                   "(deviation %.3e at depth 2, %.3e at depth 6)" % (devs_[2], devs_[6]))
except Exception as e_:      # noqa
    bad.append("pure-dephasing convergence part raised %s: %s" % (type(e_).__name__, str(e_)[:120]))

for b in bad[:12]:
    print("VIOLATED:", b)
print("C16 oracle: %d violations" % len(bad))
sys.exit(1 if bad else 0)
