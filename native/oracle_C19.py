"""Property-level native oracle for C19: random sequences of additions (pathway / type / process / signal / total level),
resolution reductions and reads on a TwoDResponse, against a ledger of everything that was added.  After every operation:
total = sum of all additions; each signal / process / type view that the current resolution can express = sum of the
additions belonging to it; a refused operation leaves the stored data unchanged."""
import sys
import copy
import numpy
import quantarhei as qr
from quantarhei.spectroscopy.twod2 import TwoDResponse, _ptypes, _processes, _signals, _resolutions
from quantarhei import signal_TOTL

NX, NY = 3, 2
bad = []
DT = {"pathways": list(_ptypes), "types": list(_ptypes), "processes": list(_processes), "signals": list(_signals),
      "off": [signal_TOTL]}
ADMISSIBLE_REDUCTION = {4: {3, 2, 1, 0}, 3: {2, 1, 0}, 2: {0}, 1: {0}, 0: set()}


def mk():
    t = TwoDResponse()
    t.set_axis_1(qr.FrequencyAxis(0.0, NX, 1.0))
    t.set_axis_3(qr.FrequencyAxis(0.0, NY, 1.0))
    return t


def stored(t):
    return copy.deepcopy(getattr(t, "_d__data", None))


def same_store(a, b):
    if type(a) != type(b):
        return False
    if isinstance(a, dict):
        return a.keys() == b.keys() and all(same_store(a[k], b[k]) for k in a)
    if a is None:
        return True
    return numpy.array_equal(numpy.asarray(a), numpy.asarray(b))


def read(t, flag):
    t.set_data_flag(flag)
    return t.d__data


def types_of(view):
    if view in _ptypes:
        return [view]
    if view in _processes:
        return _processes[view]
    if view in _signals:
        return _signals[view]
    return list(_ptypes)


def expected(ledger, view, level):
    """sum of the ledger entries belonging to `view`, or None if some entry cannot be attributed at this level"""
    tot = numpy.zeros((NX, NY), dtype=complex)
    for kind, x in ledger:
        if view == signal_TOTL:
            tot += x
        elif kind in _ptypes:
            if kind in types_of(view):
                tot += x
        elif kind == view:
            tot += x
        elif kind in _processes or kind in _signals or kind == signal_TOTL:
            if view in _ptypes or (view in _processes) != (kind in _processes) or kind == signal_TOTL:
                return None
    return tot


def views(level):
    return {4: list(_ptypes) + list(_processes) + list(_signals) + [signal_TOTL],
            3: list(_ptypes) + list(_processes) + list(_signals) + [signal_TOTL],
            2: list(_processes) + [signal_TOTL], 1: list(_signals) + [signal_TOTL], 0: [signal_TOTL]}[level]


def check_views(t, ledger, where):
    if not t.storage_initialized:
        return          # nothing was ever added: reads of an object without storage are not claimed
    level = _resolutions.index(t.storage_resolution)
    for v in views(level):
        want = expected(ledger, v, level)
        if want is None:
            continue
        try:
            got = read(t, v)
        except Exception as e:      # noqa
            bad.append("%s: reading view %s raised %s: %s" % (where, v, type(e).__name__, e))
            continue
        if got is None:
            if numpy.abs(want).max() > 0:
                bad.append("%s: view %s is empty but additions belong to it" % (where, v))
        elif numpy.asarray(got).shape != want.shape or not numpy.allclose(got, want, atol=1e-12):
            bad.append("%s: view %s differs from the sum of the additions belonging to it (max dev %.3g)"
                       % (where, v, numpy.abs(numpy.asarray(got) - want).max() if numpy.asarray(got).shape == want.shape else -1))


def run(seed, nops=8):
    rng = numpy.random.default_rng(seed)
    t = mk()
    ledger = []
    hist = []
    ntag = 0
    for step in range(nops):
        level = _resolutions.index(t.storage_resolution)
        op = rng.choice(["add", "add", "add", "reduce", "add-other"])
        before = stored(t)
        res_before = t.storage_resolution
        if op == "reduce":
            new = int(rng.integers(0, 5))
            hist.append("set_resolution(%s)" % _resolutions[new])
            try:
                t.set_resolution(_resolutions[new])
                ok = True
            except Exception:       # noqa
                ok = False
            if ok and new != level and new not in ADMISSIBLE_REDUCTION[level]:
                bad.append("seed %d %s: inadmissible resolution change %s -> %s was accepted" % (seed, hist, res_before, _resolutions[new]))
            if not ok and (not same_store(before, stored(t)) or t.storage_resolution != res_before):
                bad.append("seed %d %s: refused resolution change altered the stored data" % (seed, hist))
        else:
            if op == "add" or not t.storage_initialized:
                ares = t.storage_resolution if (op == "add" and t.storage_initialized) else _resolutions[int(rng.integers(0, 5))]
            else:
                ares = _resolutions[int(rng.integers(0, 5))]
            dtype = DT[ares][int(rng.integers(0, len(DT[ares])))]
            tag = None
            if ares == "pathways":
                ntag += 1
                tag = "p%d" % (ntag if rng.random() < 0.8 else max(1, ntag - 1))
                if rng.random() < 0.25:
                    tag = [0, "", 1][int(rng.integers(0, 3))]       # tags that are false in a boolean context, too
            x = rng.random((NX, NY)) + 1j * rng.random((NX, NY))
            hist.append("_add_data(res=%s, dtype=%s, tag=%s)" % (ares, dtype, tag))
            try:
                t._add_data(x, resolution=ares, dtype=dtype, tag=tag)
                ledger.append((dtype, x))
            except Exception:       # noqa
                if not same_store(before, stored(t)):
                    bad.append("seed %d %s: refused addition altered the stored data" % (seed, hist))
        check_views(t, ledger, "seed %d after %s" % (seed, hist))
        if bad:
            return


for seed in range(int(sys.argv[1]) if len(sys.argv) > 1 else 400):
    run(seed)
    if len(bad) > 5:
        break
for b in bad[:12]:
    print("VIOLATED:", b)
print("C19 oracle: %d violations" % len(bad))
sys.exit(1 if bad else 0)
