"""Property-level native oracle for C02 (replay of last resort): small systems, every expansion order / refinement /
tensor representation; checks tr rho(t_i) = 1, Hermiticity, agreement with the exact exponential of the GKSL generator
(incl. pure dephasing) within a generous multiple of the truncation bound, state-vector vs density-matrix agreement."""
import sys
import numpy
import scipy.linalg
import quantarhei as qr
from quantarhei.qm import (LindbladForm, SystemBathInteraction, Operator, ReducedDensityMatrixPropagator,
                           ReducedDensityMatrix, PureDephasing)
from quantarhei.qm.propagators.svpropagator import StateVectorPropagator
from quantarhei.qm.hilbertspace.statevector import StateVector

bad = []
worst = [0.0]


def liouvillian(H, Ks, rates, D=None):
    N = H.shape[0]
    I = numpy.eye(N)
    L = -1j * (numpy.kron(H, I) - numpy.kron(I, H.T))
    for K, r in zip(Ks, rates):
        KdK = K.T @ K
        L = L + r * (numpy.kron(K, K) - 0.5 * numpy.kron(KdK, I) - 0.5 * numpy.kron(I, KdK.T))
    if D is not None:
        L = L - numpy.diag(D.reshape(-1))
    return L


def run():
    N = 3
    Hd = numpy.array([[0.0, 0.0, 0.0], [0.0, 1.0, 0.12], [0.0, 0.12, 1.1]])
    Ks, rates = [], [1.0 / 40.0, 1.0 / 90.0]
    for (i, j) in ((1, 2), (2, 1)):
        K = numpy.zeros((N, N)); K[i, j] = 1.0; Ks.append(K)
    D = numpy.array([[0.0, 0.02, 0.03], [0.02, 0.0, 0.01], [0.03, 0.01, 0.0]])
    rho0 = numpy.array([[0.2, 0.1j, 0.0], [-0.1j, 0.5, 0.1], [0.0, 0.1, 0.3]], dtype=complex)
    for dt in (1.0, 0.5):
        for Nref in (1, 3):
            for as_ops in (False, True):
                for deph in (None, "Lorentzian"):
                    ta = qr.TimeAxis(0.0, 20, dt)
                    with qr.energy_units("int"):
                        ham = qr.Hamiltonian(data=Hd.copy())
                    sbi = SystemBathInteraction([Operator(data=K.copy()) for K in Ks], rates=list(rates))
                    LF = LindbladForm(ham, sbi, as_operators=as_ops)
                    kw = {}
                    if deph:
                        kw["PDeph"] = PureDephasing(D.copy(), dtype=deph)
                    prop = ReducedDensityMatrixPropagator(ta, ham, RTensor=LF, **kw)
                    if Nref > 1:
                        prop.setDtRefinement(Nref)
                    rho = ReducedDensityMatrix(data=rho0.copy())
                    ev = prop.propagate(rho)
                    Lmat = liouvillian(Hd, Ks, rates, D if deph else None)
                    label = "dt=%g Nref=%d operators=%s dephasing=%s" % (dt, Nref, as_ops, deph)
                    h = dt / Nref
                    bound = 2 * (numpy.abs(Lmat).sum(axis=1).max() * h) ** 5 / 120.0 * (ta.length * Nref) + 1e-9
                    if deph:
                        bound += 0.4 * ta.length * Nref * (h ** 2) * 0.03 * 0.15     # operator splitting: h^2 |[D, L]| per step
                    for t in range(ta.length):
                        r = numpy.array(ev.data[t])
                        if abs(numpy.trace(r) - 1.0) > 1e-7:
                            bad.append("%s: trace at t=%d is %r" % (label, t, numpy.trace(r))); break
                        if abs(r - r.conj().T).max() > 1e-7:
                            bad.append("%s: not Hermitian at t=%d (%.2e)" % (label, t, abs(r - r.conj().T).max())); break
                        ex = (scipy.linalg.expm(Lmat * ta.data[t]) @ rho0.reshape(-1)).reshape(N, N)
                        worst[0] = max(worst[0], abs(r - ex).max() / bound)
                        if abs(r - ex).max() > bound:
                            bad.append("%s: |rho - exp(Lt) rho0| = %.3e at t=%d exceeds %.3e" % (label, abs(r - ex).max(), t, bound)); break
    # state vector: order L must be honoured (error scales as (H dt)^(L+1))
    Hs = numpy.array([[0.0, 0.3], [0.3, 1.0]])
    for L in (2, 4, 6):
        ta = qr.TimeAxis(0.0, 30, 0.5)
        with qr.energy_units("int"):
            ham = qr.Hamiltonian(data=Hs.copy())
        psi0 = numpy.array([1.0, 0.0], dtype=complex)
        sp = StateVectorPropagator(ta, ham)
        ev = sp.propagate(StateVector(data=psi0.copy()), L=L)
        x = numpy.abs(Hs).sum(axis=1).max() * 0.5
        fact = {2: 6.0, 4: 120.0, 6: 5040.0}[L]
        bound = 2 * ta.length * x ** (L + 1) / fact + 1e-10
        for t in range(ta.length):
            ex = scipy.linalg.expm(-1j * Hs * ta.data[t]) @ psi0
            if abs(numpy.array(ev.data[t]) - ex).max() > bound:
                bad.append("state vector L=%d: |psi - exact| = %.3e at t=%d exceeds %.3e" % (L, abs(numpy.array(ev.data[t]) - ex).max(), t, bound)); break


run()
# ---- no relaxation: norm, purity and energy conserved, state vector and density matrix agree, all within the truncation bound -------
try:
    import math
    ta_c = qr.TimeAxis(0.0, 200, 0.2)
    with qr.energy_units("int"):
        Hc_ = qr.Hamiltonian(data=[[0.0, 0.3, 0.05], [0.3, 1.0, 0.2], [0.05, 0.2, 1.4]])
    Hcd = numpy.array(Hc_.data)
    psi_c = numpy.array([0.6, 0.64, 0.48], dtype=complex)
    psi_c /= numpy.linalg.norm(psi_c)
    for L_ in (2, 4, 6):
        svp_ = StateVectorPropagator(ta_c, Hc_)
        ev_ = numpy.array(svp_.propagate(StateVector(data=psi_c.copy()), L=L_).data)
        # the same with a refined internal step: at least as close to the exact dynamics
        svr_ = StateVectorPropagator(ta_c, Hc_)
        svr_.setDtRefinement(3)
        evr_ = numpy.array(svr_.propagate(StateVector(data=psi_c.copy()), L=L_).data)
        import scipy.linalg as _sl2
        exact_ = numpy.array([_sl2.expm(-1j * Hcd * t__) @ psi_c for t__ in ta_c.data])
        if abs(evr_ - exact_).max() > 4 * ta_c.length * (abs(Hcd).sum(axis=1).max() * 0.2) ** (L_ + 1) / math.factorial(L_ + 1):
            bad.append("closed system, order %d, internal step refined 3 times: state vector deviates from exp(-iHt) psi0 by %.3e"
                       % (L_, abs(evr_ - exact_).max()))
        r0_ = qr.ReducedDensityMatrix(data=numpy.outer(psi_c, psi_c.conj()))
        rt_ = numpy.array(qr.ReducedDensityMatrixPropagator(ta_c, Hc_).propagate(r0_, method="short-exp-%d" % L_).data)
        bound_ = 4 * ta_c.length * (abs(Hcd).sum(axis=1).max() * 0.2) ** (L_ + 1) / math.factorial(L_ + 1)
        devs = {"norm of the state vector": abs(numpy.einsum("ti,ti->t", ev_.conj(), ev_).real - 1).max(),
                "purity": abs(numpy.einsum("tij,tji->t", rt_, rt_).real - 1).max(),
                "energy": abs(numpy.einsum("ij,tji->t", Hcd, rt_).real - (psi_c.conj() @ Hcd @ psi_c).real).max(),
                "state vector vs density matrix": abs(numpy.einsum("ti,tj->tij", ev_, ev_.conj()) - rt_).max()}
        for what_, dv_ in devs.items():
            if dv_ > bound_:
                bad.append("closed system, order %d: %s deviates by %.3e, truncation bound %.3e" % (L_, what_, dv_, bound_))
except Exception as e:      # noqa
    bad.append("closed-system conservation part raised %s: %s" % (type(e).__name__, str(e)[:120]))

# ---- the generator is followed for every refinement, also on a propagator that has been used before with another refinement -------
try:
    from quantarhei.qm import PureDephasing
    tr_ = qr.TimeAxis(0.0, 40, 1.0)
    with qr.energy_units("int"):
        Hd_ = qr.Hamiltonian(data=[[0.0, 0.0, 0.0], [0.0, 1.0, 0.1], [0.0, 0.1, 1.2]])
    for kind_ in ("Lorentzian", "Gaussian"):
        rates_ = numpy.array([[0.0, 0.02, 0.03], [0.02, 0.0, 0.01], [0.03, 0.01, 0.0]])
        rho_ = qr.ReducedDensityMatrix(data=numpy.full((3, 3), 1.0 / 3.0))
        lf_ = LindbladForm(Hd_, SystemBathInteraction(sys_operators=[qr.qm.ProjectionOperator(0, 1, dim=3)], rates=(0.001,)),
                           as_operators=False)
        fresh_ = ReducedDensityMatrixPropagator(tr_, Hd_, RTensor=lf_, PDeph=PureDephasing(rates_.copy(), dtype=kind_))
        want_ = fresh_.propagate(rho_, Nref=5).data.copy()
        used_ = ReducedDensityMatrixPropagator(tr_, Hd_, RTensor=lf_, PDeph=PureDephasing(rates_.copy(), dtype=kind_))
        used_.propagate(rho_)
        got_ = used_.propagate(rho_, Nref=5).data.copy()
        if abs(got_ - want_).max() > 1e-10:
            bad.append("%s pure dephasing: propagate(rho, Nref=5) on a propagator used before without refinement differs from the same "
                       "call on a fresh propagator by %.3e" % (kind_, abs(got_ - want_).max()))
except Exception as e:      # noqa
    bad.append("refinement-after-reuse part raised %s: %s" % (type(e).__name__, str(e)[:120]))

# ---- rotating frame <-> laboratory frame of a stored evolution: explicit phases, and there-and-back is the identity -----------------
try:
    from quantarhei.qm.propagators.dmevolution import ReducedDensityMatrixEvolution
    rng2 = numpy.random.default_rng(11)
    with qr.energy_units("1/cm"):
        Hr = qr.Hamiltonian(data=[[0.0, 0.0, 0.0], [0.0, 12000.0, 60.0], [0.0, 60.0, 12300.0]])
    Hr.set_rwa([0, 1])
    tt = qr.TimeAxis(0.0, 7, 3.0)
    r0 = qr.ReducedDensityMatrix(dim=3)
    ev = ReducedDensityMatrixEvolution(tt, r0)
    dat = rng2.standard_normal((7, 3, 3)) + 1j * rng2.standard_normal((7, 3, 3))
    ev.data[:, :, :] = dat
    ev.is_in_rwa = True
    om = numpy.array(Hr.get_RWA_skeleton())
    ev.convert_from_RWA(Hr)
    want = numpy.array([[[numpy.exp(-1j * (om[a] - om[b]) * t) * dat[i, a, b] for b in range(3)] for a in range(3)]
                        for i, t in enumerate(tt.data)])
    if abs(numpy.array(ev.data) - want).max() > 1e-10:
        bad.append("convert_from_RWA: elements do not get the phase exp(-i (W_a - W_b) t): max deviation %.3e" % abs(numpy.array(ev.data) - want).max())
    if ev.is_in_rwa:
        bad.append("convert_from_RWA leaves the evolution flagged as being in the rotating frame")
    ev.convert_to_RWA(Hr)
    if abs(numpy.array(ev.data) - dat).max() > 1e-10:
        bad.append("convert_from_RWA followed by convert_to_RWA is not the identity: max deviation %.3e" % abs(numpy.array(ev.data) - dat).max())
    # whole dynamics: propagated with a rotating-wave Hamiltonian and converted back = laboratory-frame dynamics
    import scipy.linalg as _sl
    Hld = numpy.array(Hr.data)          # the laboratory-frame Hamiltonian (the rotating-wave reference is kept aside)
    for start_ in (0.0, 7.3):
        tax_ = qr.TimeAxis(start_, 100, 0.2)
        rr_ = qr.ReducedDensityMatrix(dim=3)
        rr_.data[:, :] = numpy.array([[0.3, 0.2, 0.1j], [0.2, 0.5, 0.05], [-0.1j, 0.05, 0.2]])
        ev_ = qr.ReducedDensityMatrixPropagator(tax_, Hr).propagate(rr_)
        ev_.convert_from_RWA(Hr)
        dev_ = max(abs(ev_.data[i_] - _sl.expm(-1j * Hld * (t_ - start_)) @ numpy.array(rr_.data) @ _sl.expm(1j * Hld * (t_ - start_))).max()
                   for i_, t_ in enumerate(tax_.data))
        if dev_ > 1e-6:
            bad.append("density matrix propagated in the rotating frame and converted back differs from the laboratory-frame dynamics by %.3e"
                       "%s" % (dev_, " on a time axis that does not start at zero" if start_ else ""))
        p0_ = numpy.array([0.5, 0.7, 0.5099], dtype=complex)
        p0_ /= numpy.linalg.norm(p0_)
        sv_ = StateVectorPropagator(tax_, Hr).propagate(StateVector(data=p0_.copy()))
        sv_.convert_from_RWA(Hr)
        dev_ = max(abs(numpy.array(sv_.data[i_]) - _sl.expm(-1j * Hld * (t_ - start_)) @ p0_).max() for i_, t_ in enumerate(tax_.data))
        if dev_ > 1e-6:
            bad.append("state vector propagated in the rotating frame and converted back differs from the laboratory-frame dynamics by %.3e"
                       "%s" % (dev_, " on a time axis that does not start at zero" if start_ else ""))
except Exception as e:      # noqa
    bad.append("rotating-frame conversion raised %s: %s" % (type(e).__name__, str(e)[:120]))

for b in bad:
    print("VIOLATED:", b)
print("C02 oracle: %d violations (largest error/bound ratio %.3f)" % (len(bad), worst[0]))
sys.exit(1 if bad else 0)
