"""Property-level native oracle for C03 (replay of last resort): aggregates of two-level molecules: couplings generated
from positions (real and integer typed) and dipoles against the point-dipole formula in Debye / Angstrom, the built
Hamiltonian against the Frenkel-exciton matrix (band order, site-energy sums, one-excitation-move couplings, no
inter-band elements) for multiplicity 1 and 2, and relabelling invariance of the spectrum."""
import sys
import itertools
import numpy
import quantarhei as qr

bad = []
rng = numpy.random.default_rng(3)
DEBYE_A3_TO_CM = 5034.1165     # 1 Debye^2/Angstrom^3 in 1/cm  (1e-36 erg / (h c))


def build(energies, dips, pos, J=None, mult=1):
    with qr.energy_units("1/cm"):
        mols = []
        for e, d, p in zip(energies, dips, pos):
            m = qr.Molecule([0.0, e])
            m.set_dipole(0, 1, list(d))
            m.position = p
            mols.append(m)
        agg = qr.Aggregate(mols)
        if J is None:
            agg.set_coupling_by_dipole_dipole(epsr=1.3)
        else:
            agg.set_resonance_coupling_matrix(J)
    agg.build(mult=mult)
    return agg


# ---- point-dipole couplings ---------------------------------------------------------------------------------------------
for dtype in (float, int):
    pos = [numpy.array([0, 0, 0], dtype=dtype), numpy.array([8, 1, 0], dtype=dtype), numpy.array([2, 9, 3], dtype=dtype)]
    dips = rng.normal(size=(3, 3)) * 3.0
    agg = build([12000.0, 12100.0, 12200.0], dips, pos)
    with qr.energy_units("1/cm"):
        for k, l in itertools.combinations(range(3), 2):
            R = pos[k].astype(float) - pos[l].astype(float)
            r = numpy.linalg.norm(R)
            n = R / r
            want = (numpy.dot(dips[k], dips[l]) - 3 * numpy.dot(dips[k], n) * numpy.dot(dips[l], n)) / r ** 3 * DEBYE_A3_TO_CM / 1.3
            got = agg.get_resonance_coupling(k, l)
            if abs(got - want) > 1e-3 * max(1.0, abs(want)):
                bad.append("%s positions: coupling %d-%d is %.6g 1/cm, point-dipole formula gives %.6g" % (dtype.__name__, k, l, got, want))

# ---- Frenkel-exciton matrix ---------------------------------------------------------------------------------------------
for nmol, mult in ((2, 2), (3, 2), (4, 2), (5, 2), (4, 1)):
    E = 12000.0 + 100.0 * rng.random(nmol)
    J = rng.normal(size=(nmol, nmol)) * 80.0
    J = (J + J.T) / 2
    numpy.fill_diagonal(J, 0.0)
    agg = build(E, rng.normal(size=(nmol, 3)), [numpy.array([10.0 * k, 0, 0]) for k in range(nmol)], J=J, mult=mult)
    with qr.energy_units("1/cm"):
        H = numpy.array(agg.get_Hamiltonian().data)
    states = [()] + [(k,) for k in range(nmol)] + (list(itertools.combinations(range(nmol), 2)) if mult == 2 else [])
    if H.shape[0] != len(states):
        bad.append("%d molecules, mult %d: %d states, expected %d" % (nmol, mult, H.shape[0], len(states)))
        continue
    for a, sa in enumerate(states):
        for b, sb in enumerate(states):
            if a == b:
                want = sum(E[k] for k in sa)
            elif len(sa) == len(sb) and len(set(sa) ^ set(sb)) == 2:
                k, l = sorted(set(sa) ^ set(sb))
                want = J[k, l]
            else:
                want = 0.0
            if abs(H[a, b] - want) > 1e-6 * max(1.0, abs(want)):
                bad.append("%d molecules, mult %d: H[%s,%s] = %.6g, Frenkel-exciton value %.6g" % (nmol, mult, sa, sb, H[a, b], want))
                break
        else:
            continue
        break
    # relabelling
    perm = rng.permutation(nmol)
    agg2 = build(E[perm], rng.normal(size=(nmol, 3)), [numpy.array([10.0 * k, 0, 0]) for k in range(nmol)], J=J[numpy.ix_(perm, perm)], mult=mult)
    with qr.energy_units("1/cm"):
        H2 = numpy.array(agg2.get_Hamiltonian().data)
    if not numpy.allclose(numpy.linalg.eigvalsh(H), numpy.linalg.eigvalsh(H2), atol=1e-6):
        bad.append("%d molecules, mult %d: spectrum changes under relabelling of the molecules" % (nmol, mult))

# ---- state-level functions: molecule carrying a transition, transition dipole element, state energy -------------------------------
def vib_aggregate(nmol, with_modes):
    with qr.energy_units("1/cm"):
        mols = []
        for k in range(nmol):
            m = qr.Molecule([0.0, 12000.0 + 130.0 * k])
            m.set_dipole(0, 1, [1.0 + k, 0.5 * k, -0.3])
            if with_modes and k < 2:
                md = qr.Mode(frequency=100.0 + 40.0 * k)
                m.add_Mode(md)
                md.set_nmax(0, 2)
                md.set_nmax(1, 2)
                md.set_HR(1, 0.2 + 0.1 * k)
            mols.append(m)
        agg = qr.Aggregate(mols)
        for k in range(nmol - 1):
            agg.set_resonance_coupling(k, k + 1, 50.0)
    return agg, mols


for nmol, with_modes in ((2, False), (3, False), (2, True), (3, True)):
    agg, mols = vib_aggregate(nmol, with_modes)
    sts = [st for (_, st) in agg.allstates(mult=2)]
    for s1 in sts:
        es = s1.elstate.elsignature
        vs = s1.vsig
        with qr.energy_units("int"):
            want = sum(mols[k].elenergies[n] for k, n in enumerate(es))
            modes = [mols[k].get_Mode(i) for k in range(nmol) for i in range(mols[k].get_number_of_modes())] if with_modes else []
            want += sum(v * md.get_energy(0) for v, md in zip(vs, modes)) if with_modes else 0.0
            got = s1.energy()
        if abs(got - want) > 1e-9 * max(1.0, abs(want)):
            bad.append("%d molecules%s: energy of state %s %s is %.9g, sum of molecular levels and vibrational quanta %.9g"
                       % (nmol, " with modes" if with_modes else "", es, vs, got, want))
            break
    done = False
    for s1 in sts:
        for s2 in sts:
            e1, e2 = s1.elstate.elsignature, s2.elstate.elsignature
            diff = [i for i in range(nmol) if e1[i] != e2[i]]
            wantk = diff[0] if (len(diff) == 1 and abs(sum(e1) - sum(e2)) in (1, 2)) else -1
            gotk = agg._get_exindx(s1, s2)
            if gotk != wantk:
                bad.append("%d molecules: _get_exindx(%s, %s) = %d, the transition is on molecule %d" % (nmol, e1, e2, gotk, wantk))
                done = True
                break
            d = agg.transition_dipole(s1, s2)
            wantd = numpy.zeros(3) if wantk < 0 else numpy.array(mols[wantk].get_dipole(0, 1)) * agg.fc_factor(s1, s2)
            if not numpy.allclose(numpy.zeros(3) + d, wantd, atol=1e-12):
                bad.append("%d molecules: transition dipole between %s%s and %s%s is %s, molecular dipole times Franck-Condon overlap %s"
                           % (nmol, e1, s1.vsig, e2, s2.vsig, d, wantd))
                done = True
                break
        if done:
            break

# ---- independence of the units active when parameters were given / the system was built; transition-dipole operator ---------------
def make_units(units_build, units_param):
    with qr.energy_units("1/cm"):
        fac = qr.Manager().convert_energy_2_internal_u(1.0)
    with qr.energy_units(units_param):
        per = qr.Manager().convert_energy_2_current_u(fac)      # one 1/cm in the units used for the parameters
        mols_ = [qr.Molecule([0.0, (12000.0 + 150 * k) * per]) for k in range(3)]
        for k, m_ in enumerate(mols_):
            m_.set_dipole(0, 1, [1.0 + 0.2 * k, 0.3 * k, -0.1])
        ag_ = qr.Aggregate(mols_)
        ag_.set_resonance_coupling(0, 1, 80.0 * per)
        ag_.set_resonance_coupling(1, 2, -40.0 * per)
        ag_.set_resonance_coupling(0, 2, 15.0 * per)
    if units_build is None:
        ag_.build(mult=2)
    else:
        with qr.energy_units(units_build):
            ag_.build(mult=2)
    with qr.energy_units("int"):
        H_ = numpy.array(ag_.get_Hamiltonian().data)
    return H_, numpy.array(ag_.get_TransitionDipoleMoment().data)


try:
    ref_ = None
    for ub in (None, "1/cm", "eV", "THz"):
        for up in ("1/cm", "eV", "THz"):
            H_, D_ = make_units(ub, up)
            if ref_ is None:
                ref_ = (H_, D_)
            if abs(H_ - ref_[0]).max() > 1e-9 * abs(ref_[0]).max() or abs(D_ - ref_[1]).max() > 1e-12:
                bad.append("aggregate with parameters given in %s and built inside energy_units(%r): Hamiltonian / dipole operator differ "
                           "from the one built in 1/cm (%.2e / %.2e)" % (up, ub, abs(H_ - ref_[0]).max() / abs(ref_[0]).max(), abs(D_ - ref_[1]).max()))
    H_, D_ = ref_
    sts_ = [()] + [(k,) for k in range(3)] + list(itertools.combinations(range(3), 2))
    for a, sa in enumerate(sts_):
        for b, sb in enumerate(sts_):
            diff = set(sa) ^ set(sb)
            want = numpy.zeros(3)
            if abs(len(sa) - len(sb)) == 1 and len(diff) == 1:
                k = list(diff)[0]
                want = numpy.array([1.0 + 0.2 * k, 0.3 * k, -0.1])
            if abs(D_[a, b] - want).max() > 1e-12:
                bad.append("transition-dipole operator element between %s and %s is %s, expected %s" % (sa, sb, D_[a, b], want))
except Exception as e_:      # noqa
    bad.append("units / dipole-operator part raised %s: %s" % (type(e_).__name__, str(e_)[:120]))

for b in bad[:10]:
    print("VIOLATED:", b)
print("C03 oracle: %d violations" % len(bad))
sys.exit(1 if bad else 0)
