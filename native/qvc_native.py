"""Native side of qvc (runs under /venv/bin/python against QVC_REPO): evaluates contract clauses on concrete
values and replays counter-models of function contracts on the real code.

The clause language is the one of the sidecar contracts (Python expression syntax + forall / exists / Sum / implies /
iff / ite / old / conj); it is compiled to a Python expression by an AST transformation and evaluated with numpy
values, floating-point equalities being compared with a relative tolerance."""
import ast
import copy
import importlib
import sys
import types
from fractions import Fraction

import numpy

TOL = 1e-8


def _eq(a, b):
    if isinstance(a, (str, bool)) or isinstance(b, (str, bool)) or a is None or b is None:
        return a == b
    if isinstance(a, (int, numpy.integer)) and isinstance(b, (int, numpy.integer)):
        return a == b
    try:
        a_, b_ = complex(a), complex(b)
    except TypeError:
        return a == b
    if a_ != a_ or b_ != b_:
        return False
    return abs(a_ - b_) <= TOL * (1.0 + abs(a_) + abs(b_))


def _ne(a, b):
    return not _eq(a, b)


def _conj(x):
    return numpy.conj(x)


class _T(ast.NodeTransformer):
    """forall(v, range, body) -> all(body for v in range) etc."""

    def __init__(self):
        self.in_old = 0

    def visit_Call(self, n):
        f = n.func.id if isinstance(n.func, ast.Name) else None
        if f in ("forall", "exists", "Sum"):
            names = [n.args[0]] if isinstance(n.args[0], ast.Name) else list(n.args[0].elts)
            rngs = [n.args[1]] if isinstance(n.args[0], ast.Name) else list(n.args[1].elts)
            body = self.visit(n.args[2])
            gens = [ast.comprehension(target=ast.Name(id=v.id, ctx=ast.Store()), iter=self.visit(r), ifs=[], is_async=0)
                    for v, r in zip(names, rngs)]
            ge = ast.GeneratorExp(elt=body, generators=gens)
            fn = {"forall": "all", "exists": "any", "Sum": "sum"}[f]
            return ast.Call(func=ast.Name(id=fn, ctx=ast.Load()), args=[ge], keywords=[])
        if f == "implies":
            a, b = self.visit(n.args[0]), self.visit(n.args[1])
            return ast.BoolOp(op=ast.Or(), values=[ast.UnaryOp(op=ast.Not(), operand=a), b])
        if f == "iff":
            a, b = self.visit(n.args[0]), self.visit(n.args[1])
            return ast.Call(func=ast.Name(id="_iff", ctx=ast.Load()), args=[a, b], keywords=[])
        if f == "ite":
            c, a, b = [self.visit(x) for x in n.args]
            return ast.IfExp(test=c, body=a, orelse=b)
        if f in ("old", "entry", "pre"):
            self.in_old += 1
            try:
                inner = self.visit(n.args[0])
            finally:
                self.in_old -= 1
            return inner
        if f == "conj":
            return ast.Call(func=ast.Name(id="_conj", ctx=ast.Load()), args=[self.visit(n.args[0])], keywords=[])
        return self.generic_visit(n)

    def visit_Name(self, n):
        if self.in_old and isinstance(n.ctx, ast.Load):
            return ast.Call(func=ast.Name(id="_oldname", ctx=ast.Load()),
                            args=[ast.Constant(n.id), ast.Name(id=n.id, ctx=ast.Load())], keywords=[])
        return n

    def visit_Compare(self, n):
        n = self.generic_visit(n)
        if len(n.ops) == 1 and isinstance(n.ops[0], (ast.Eq, ast.NotEq)):
            fn = "_eq" if isinstance(n.ops[0], ast.Eq) else "_ne"
            return ast.Call(func=ast.Name(id=fn, ctx=ast.Load()), args=[n.left, n.comparators[0]], keywords=[])
        return n


def evaluate(clause, env, old=None, extra=None):
    tree = ast.parse(clause.strip(), mode="eval")
    tree = _T().visit(tree)
    ast.fix_missing_locations(tree)
    code = compile(tree, "<clause>", "eval")
    bound = set()

    def _oldname(name, cur):
        # quantifier variables are not in the old environment: they keep their current value
        if old is not None and name in old:
            return old[name]
        return cur
    g = {"_eq": _eq, "_ne": _ne, "_conj": _conj, "_oldname": _oldname, "_iff": lambda a, b: bool(a) == bool(b),
         "all": all, "any": any, "sum": sum, "range": range, "len": len, "abs": abs, "min": min, "max": max,
         "numpy": numpy, "True": True, "False": False, "None": None}
    g.update(env)
    if extra:
        g.update(extra)
    return eval(code, g)


# --------------------------------------------------------------------------------------------------
# rebuilding concrete arguments from a counter-model

def num(x):
    if isinstance(x, dict) and "num" in x:
        return float(Fraction(x["num"], x["den"]))
    if isinstance(x, dict) and "re" in x and "im" in x and len(x) == 2:
        return complex(num(x["re"]), num(x["im"]))
    return x


def find_class(qual):
    """'quantarhei/qm/x.py::Cls' -> the real class"""
    rel, name = qual.split("::")
    modname = rel[:-3].replace("/", ".")
    if modname.endswith(".__init__"):
        modname = modname[:-9]
    mod = importlib.import_module(modname)
    return getattr(mod, name)


class Stub(types.SimpleNamespace):
    pass


STUBS_USED = []


BUILT = {}      # __id__ of a symbolic array / object -> the native value built for it (keeps aliasing between arguments)


def build(v, memo=None):
    if isinstance(v, dict) and "__id__" in v:
        key = v["__id__"]
        if key not in BUILT:
            BUILT[key] = _build(v)
        return BUILT[key]
    return _build(v)


def _build(v, memo=None):
    if isinstance(v, dict):
        if "__array__" in v:
            shp = v["shape"]
            dt = {"cx": complex, "int": int, "bool": bool}.get(v.get("dtype"), float)
            a = numpy.zeros(shp, dtype=dt)
            for k, c in (v.get("cells") or {}).items():
                idx = tuple(int(i) for i in k.split(",")) if k else ()
                a[idx] = num(c)
            return a
        if "__obj__" in v:
            cls = v["__obj__"]
            fields = {f: build(x) for f, x in v["fields"].items()}
            if "::" in cls:
                try:
                    C = find_class(cls)
                    o = object.__new__(C)
                    for f, x in fields.items():
                        try:
                            object.__setattr__(o, f, x)
                        except Exception:
                            o.__dict__[f] = x
                    return o
                except Exception:
                    pass
            STUBS_USED.append(cls)
            return Stub(**fields)
        if "__symlist__" in v:
            items = v.get("items") or []
            return [(it[0] if v.get("width") is None else list(num(x) for x in it)) for it in items]
        if "__tuple__" in v:
            return tuple(build(x) for x in v["__tuple__"])
        if "__range__" in v:
            return range(v["__range__"][0], v["__range__"][1])
        if "num" in v or ("re" in v and "im" in v and len(v) == 2):
            return num(v)
        return {k: build(x) for k, x in v.items()}
    if isinstance(v, list):
        return [build(x) for x in v]
    return v


def load_function(qual):
    rel, name = qual.split("#")[0].split("::")
    modname = rel[:-3].replace("/", ".")
    mod = importlib.import_module(modname)
    obj = mod
    prev = None
    for part in name.split("."):
        if part.startswith("__") and not part.endswith("__") and prev is not None and not hasattr(obj, part):
            part = "_%s%s" % (prev.lstrip("_"), part)          # private name mangling
        prev = part
        obj = getattr(obj, part)
    return obj


def replay_contract(model, function, requires, ensures, ghost_code="", call="auto", focus=None):
    """run the real function on the counter-model's arguments; report the ensures clauses that fail natively"""
    args = {k: build(v) for k, v in model["__args__"].items()}
    names = model.get("__params__")
    glob = {}
    if ghost_code:
        exec(ghost_code, glob)
        if "ghost" in glob:
            glob["ghost"](args)
    for nm, cl in requires:
        try:
            ok = evaluate(cl, args)
        except Exception as e:      # noqa
            print("requires %s not evaluable natively (%s: %s) - treated as satisfied" % (nm, type(e).__name__, e))
            ok = True
        if not ok:
            print("counter-model violates requires %s natively (model of a relaxation): not a failing input" % nm)
            return 0
    old = copy.deepcopy(args)
    fn = load_function(function)
    call_args = [args[p] for p in names]
    raised = None
    try:
        result = fn(*call_args)
    except Exception as e:      # noqa
        raised = e
        result = None
    if raised is not None:
        print("real function raised %s: %s" % (type(raised).__name__, raised))
        exc = model.get("__raises__") or {}
        # an exception the contract does not allow on this input is itself a violation
        allowed = False
        for ename, when in exc.items():
            try:
                if when is None or evaluate(when, old):
                    allowed = True
            except Exception:
                allowed = True
        if allowed:
            print("the contract allows this exception on this input")
            return 0
        if not exc:
            print("the contract does not specify exceptional behaviour: an exception of the real function on a "
                  "solver-chosen input is not conclusive (an unstated precondition of a library call may be violated)")
            return 0
        if STUBS_USED:
            print("arguments contain stand-in objects (%s): an exception of the real function is not conclusive"
                  % ", ".join(sorted(set(STUBS_USED))))
            return 0
        print("VIOLATED: exception not permitted by the contract on this input")
        return 1
    env = dict(args)
    env["result"] = result
    if ghost_code and "ghost" in glob:
        glob["ghost"](env)
    bad = 0
    for nm, cl in ensures:
        try:
            ok = evaluate(cl, env, old=old)
        except Exception as e:      # noqa
            print("ensures %s not evaluable natively: %s: %s" % (nm, type(e).__name__, e))
            continue
        mark = "ok" if ok else "VIOLATED"
        if not ok:
            bad += 1
        if not ok or nm == focus:
            print("%s: ensures %s : %s" % (mark, nm, cl[:300]))
    return 1 if bad else 0
