"""Property-level native oracle for C05: energy / length units contexts restore the units that were current (nested, and
when the body raises), conversions into and out of internal units are mutually inverse for every supported unit
(including the reciprocal nm), units-managed values read back in the units they were written in, and building
objects leaves the caller's units alone.  Replay of last resort and thorough-tier cross-check only."""
import sys
import numpy
import quantarhei as qr
from quantarhei import Manager

bad = []
m = Manager()
UNITS = list(Manager().units["energy"])      # every energy unit the package declares


def cur():
    return dict(Manager().current_units)


base = cur()
for u in UNITS:
    try:
        with qr.energy_units(u):
            inside = cur()
            if u not in ("int",) and inside["energy"] != u:
                bad.append("inside energy_units(%r) the current energy units are %r" % (u, inside["energy"]))
            for v in UNITS:
                try:
                    with qr.energy_units(v):
                        pass
                except Exception:      # noqa
                    continue
                if cur() != inside:
                    bad.append("nested energy_units(%r) inside energy_units(%r) does not restore the outer units" % (v, u))
            try:
                with qr.energy_units("eV"):
                    raise RuntimeError("body fails")
            except RuntimeError:
                pass
            if cur() != inside:
                bad.append("a raising body inside energy_units('eV') (within %r) leaves the units changed" % u)
        if cur() != base:
            bad.append("energy_units(%r) does not restore the units on exit: %r" % (u, cur()))
    except Exception as e:      # noqa
        if cur() != base:
            bad.append("energy_units(%r) raised %s and left the units changed" % (u, type(e).__name__))

for u in UNITS:
    for x in (1.0, 12345.678, 0.37):
        try:
            with qr.energy_units(u):
                xi = Manager().convert_energy_2_internal_u(x)
                back = Manager().convert_energy_2_current_u(xi)
                if abs(back - x) > 1e-9 * abs(x):
                    bad.append("energy %g %s -> internal -> %s gives %g" % (x, u, u, back))
                xj = Manager().convert_energy_2_current_u(x)
                back2 = Manager().convert_energy_2_internal_u(xj)
                if abs(back2 - x) > 1e-9 * abs(x):
                    bad.append("internal energy %g -> %s -> internal gives %g" % (x, u, back2))
        except Exception as e:      # noqa
            if True:
                bad.append("conversion of energies in %r raised %s: %s" % (u, type(e).__name__, str(e)[:80]))

# units-managed values
with qr.energy_units("1/cm"):
    mol = qr.Molecule([0.0, 12500.0])
with qr.energy_units("eV"):
    e_ev = mol.get_energy(1)
with qr.energy_units("1/cm"):
    e_cm = mol.get_energy(1)
    H = mol.get_Hamiltonian()
    h_cm = numpy.array(H.data)[1, 1]
with qr.energy_units("nm"):
    e_nm = mol.get_energy(1)
if abs(e_cm - 12500.0) > 1e-6:
    bad.append("molecular energy written as 12500 1/cm reads back as %.9g 1/cm" % e_cm)
if abs(h_cm - 12500.0) > 1e-6:
    bad.append("Hamiltonian element of a 12500 1/cm molecule reads %.9g in 1/cm" % h_cm)
if abs(e_ev - 12500.0 / 8065.544) > 1e-4:
    bad.append("12500 1/cm reads as %.9g eV" % e_ev)
if abs(e_nm - 1.0e7 / 12500.0) > 1e-6:
    bad.append("12500 1/cm reads as %.9g nm (expected 800)" % e_nm)

# accessor pairs that convert by hand
for u in ("1/cm", "eV", "THz"):
    x = {"1/cm": 100.0, "eV": 0.0124, "THz": 3.0}[u]
    with qr.energy_units("1/cm"):
        mm = qr.Molecule([0.0, 12000.0])
        ag_ = qr.Aggregate([qr.Molecule([0.0, 12000.0]), qr.Molecule([0.0, 12100.0])])
    with qr.energy_units(u):
        mm.set_transition_width((0, 1), x)
        back = mm.get_transition_width((0, 1))
        if abs(back - x) > 1e-9 * x:
            bad.append("transition width supplied as %g %s reads back as %.9g inside the same units context" % (x, u, back))
        m3 = qr.Molecule([0.0, mm.get_energy(1), 1.05 * mm.get_energy(1)])
        m3.set_adiabatic_coupling(1, 2, x)
        backa = m3.get_adiabatic_coupling(1, 2)
        if abs(backa - x) > 1e-9 * x:
            bad.append("adiabatic coupling (a transition width-like accessor pair) supplied as %g %s reads back as %.9g inside the same units context" % (x, u, backa))
        ag_.set_resonance_coupling(0, 1, x)
        backc = ag_.get_resonance_coupling(0, 1)
        if abs(backc - x) > 1e-9 * x:
            bad.append("resonance coupling supplied as %g %s reads back as %.9g inside the same units context" % (x, u, backc))
        mm.set_energy(1, 100 * x)
        if abs(mm.get_energy(1) - 100 * x) > 1e-9 * 100 * x:
            bad.append("molecular energy supplied as %g %s reads back as %.9g" % (100 * x, u, mm.get_energy(1)))

# building objects leaves the caller's units alone
for u in ("1/cm", "eV"):
    with qr.energy_units(u):
        before = cur()
        mols = [qr.Molecule([0.0, 1.5 if u == "eV" else 12000.0 + 100 * k]) for k in range(2)]
        agg = qr.Aggregate(mols)
        agg.build()
        H = agg.get_Hamiltonian()
        if cur() != before:
            bad.append("Aggregate.build / get_Hamiltonian inside energy_units(%r) leaves the units %r" % (u, cur()))
if cur() != base:
    bad.append("units changed at the end of the run: %r" % cur())

for b in bad[:12]:
    print("VIOLATED:", b)
print("C05 oracle: %d violations" % len(bad))
sys.exit(1 if bad else 0)
