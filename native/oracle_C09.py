"""Property-level native oracle for C09: sums of bath correlation functions in every grouping against the explicit sums of
the separately constructed components (data and reorganisation energy), for mixes of analytically parameterised types,
in-place addition, value-defined right operands, construction in different unit contexts, refusal of different
temperatures."""
import sys
import itertools
import numpy
import quantarhei as qr
from quantarhei import CorrelationFunction, TimeAxis

bad = []
rng = numpy.random.default_rng(11)
t = TimeAxis(0.0, 200, 5.0)
TYPES = ["OverdampedBrownian", "OverdampedBrownian-HighTemperature"]


def comp(ftype, T=300.0):
    return dict(ftype=ftype, reorg=float(rng.uniform(10, 80)), cortime=float(rng.uniform(30, 200)), T=T)


def cf(p, units="1/cm"):
    with qr.energy_units(units):
        return CorrelationFunction(t, p)


def close(a, b):
    return numpy.allclose(a, b, rtol=1e-9, atol=1e-14)


def check(label, f, parts):
    want = sum(p.data for p in parts)
    lam = sum(p.lamb for p in parts)
    if not close(f.data, want):
        bad.append("%s: data differ from the sum of the components (max rel dev %.3g)"
                   % (label, numpy.abs(f.data - want).max() / numpy.abs(want).max()))
    if not close(f.lamb, lam):
        bad.append("%s: reorganisation energy %.6g is not the sum %.6g" % (label, f.lamb, lam))


for types in itertools.product(TYPES, repeat=3):
    ps = [comp(x) for x in types]
    a, b, c = (cf(p) for p in ps)
    check("list of %s" % (types,), cf(ps), [a, b, c])
    check("(a+b)+c %s" % (types,), (a + b) + c, [a, b, c])
    check("a+(b+c) %s" % (types,), a + (b + c), [a, b, c])
    check("(a+b)+(c+a) %s" % (types,), (a + b) + (c + a), [a, b, c, a])
    check("(a+a)+c %s" % (types,), (a + a) + c, [a, a, c])
    check("((a+b)+a)+c %s" % (types,), ((a + b) + a) + c, [a, b, a, c])
    d = cf(ps[0])
    d += b
    d += c
    check("a+=b; a+=c %s" % (types,), d, [a, b, c])
    e = cf(ps[0])
    e += e
    check("a+=a %s" % (types,), e, [a, a])
    # value-defined right operand
    vals = rng.random(t.length) + 1j * rng.random(t.length)
    with qr.energy_units("1/cm"):
        v = CorrelationFunction(t, dict(ftype="Value-defined", reorg=12.0, T=300.0), values=vals)
    check("(a+b)+value-defined %s" % (types,), (a + b) + v, [a, b, v])
    # construction in another unit context
    with qr.energy_units("int"):
        pi_ = dict(ps[1])
        pi_["reorg"] = qr.convert(pi_["reorg"], "1/cm", "int")
        bi = CorrelationFunction(t, pi_)
    check("a + (b built in internal units) %s" % (types,), a + bi, [a, b])
    # different temperatures are refused
    try:
        x = a + cf(comp(types[1], T=77.0))
        bad.append("%s: components at different temperatures were added" % (types,))
    except Exception:       # noqa
        pass

# the reorganisation energy recovered from the data of an analytically defined function equals the declared one
for step in (1.0, 0.2, 0.1):
    for ftype in TYPES:
        tt = TimeAxis(0.0, int(4000 / step), step)
        p = dict(ftype=ftype, reorg=30.0, cortime=100.0, T=300.0)
        with qr.energy_units("1/cm"):
            f = CorrelationFunction(tt, p)
            got = f.measure_reorganization_energy()
        if abs(got - 30.0) > 1e-3 * 30.0:
            bad.append("%s, time step %g fs: reorganisation energy recovered from the data %.5g differs from the declared 30"
                       % (ftype, step, got))

# ---- stored parameters are the object's own: optional keys survive a rebuild, the caller's dictionary is not shared -----------------
try:
    for nm_ in (3, 40):
        with qr.energy_units("1/cm"):
            pa_ = dict(ftype="OverdampedBrownian", reorg=30.0, cortime=80.0, T=77.0, matsubara=nm_)
            pb_ = dict(ftype="OverdampedBrownian", reorg=50.0, cortime=120.0, T=77.0)
            a_, b_ = CorrelationFunction(t, pa_), CorrelationFunction(t, pb_)
        check("explicit number of Matsubara terms (%d): a + b" % nm_, a_ + b_, [a_, b_])
        check("explicit number of Matsubara terms (%d): b + a" % nm_, b_ + a_, [a_, b_])
        with qr.energy_units("1/cm"):
            c_ = CorrelationFunction(t, dict(pa_))
        c_ += c_
        if not close(c_.data, 2 * a_.data):
            bad.append("explicit number of Matsubara terms (%d): a function added to itself in place is not twice the function" % nm_)
        if pa_.get("matsubara") != nm_ or len(pa_) != 5:
            bad.append("constructing a correlation function changed the caller's parameter dictionary: %r" % (pa_,))
    with qr.energy_units("int"):
        fac_ = 0.0001883651567308853
        pd_ = dict(ftype="OverdampedBrownian", reorg=30.0 * fac_, cortime=80.0, T=300.0)
        a_ = CorrelationFunction(t, pd_)
        da_, la_ = a_.data.copy(), a_.lamb
        pd_["reorg"] = 90.0 * fac_          # the caller goes on using its dictionary
        b_ = CorrelationFunction(t, pd_)
        s_ = a_ + b_
    if not close(s_.data, da_ + b_.data) or abs(s_.lamb - (la_ + b_.lamb)) > 1e-12 * abs(la_ + b_.lamb):
        bad.append("a function built in internal units changes when the caller modifies the dictionary it was built from: "
                   "sum has reorganisation energy %.6g, components %.6g" % (s_.lamb, la_ + b_.lamb))
except Exception as ex_:      # noqa
    bad.append("parameter-ownership part raised %s: %s" % (type(ex_).__name__, str(ex_)[:100]))

# ---- spectral densities: sums inside and outside an energy-units context, in-place addition of a function to itself -----------------
SDTYPES = ("OverdampedBrownian", "UnderdampedBrownian")
ta = TimeAxis(0.0, 400, 2.0)


def sdcomp(ftype):
    if ftype == "UnderdampedBrownian":
        return dict(ftype=ftype, reorg=25.0, freq=150.0, gamma=1.0 / 500.0, T=300.0)
    return dict(ftype=ftype, reorg=30.0, cortime=80.0, T=300.0)


for t1, t2 in itertools.product(SDTYPES, repeat=2):
    try:
        with qr.energy_units("1/cm"):
            a = qr.SpectralDensity(ta, sdcomp(t1))
            b = qr.SpectralDensity(ta, dict(sdcomp(t2), reorg=55.0))
        da, db, la, lb = a.data.copy(), b.data.copy(), a.lamb, b.lamb
        for units in ("int", "1/cm", "eV"):
            with qr.energy_units(units):
                s = a + b
            label = "spectral densities %s + %s added inside energy_units(%r)" % (t1, t2, units)
            if not close(s.data, da + db):
                bad.append("%s: data differ from the sum of the components (max dev %.3g of %.3g)"
                           % (label, numpy.max(numpy.abs(s.data - da - db)), numpy.max(numpy.abs(da + db))))
            if abs(s.lamb - (la + lb)) > 1e-9 * abs(la + lb):
                bad.append("%s: reorganisation energy %.6g is not the sum %.6g" % (label, s.lamb, la + lb))
            if not close(a.data, da) or not close(b.data, db):
                bad.append("%s: an operand was changed" % label)
        for units in ("int", "1/cm"):
            with qr.energy_units("1/cm"):
                e = qr.SpectralDensity(ta, sdcomp(t1))
            d0, l0 = e.data.copy(), e.lamb
            with qr.energy_units(units):
                e += e
            if not close(e.data, 2 * d0) or abs(e.lamb - 2 * l0) > 1e-9 * abs(l0):
                bad.append("spectral density %s added to itself in place inside energy_units(%r): not twice the function" % (t1, units))
    except Exception as ex_:      # noqa
        bad.append("spectral densities %s + %s: raised %s: %s" % (t1, t2, type(ex_).__name__, str(ex_)[:100]))

# ---- reorganisation energy recovered from the data of a spectral density equals the declared one, in whatever units are current -------
tl = TimeAxis(0.0, 4096, 1.0)
for p_ in (dict(ftype="OverdampedBrownian", reorg=30.0, cortime=80.0, T=300.0),
           dict(ftype="UnderdampedBrownian", reorg=20.0, freq=200.0, gamma=30.0, T=300.0)):
    try:
        with qr.energy_units("1/cm"):
            sd_ = qr.SpectralDensity(tl, p_)
        for units in ("int", "1/cm", "eV"):
            with qr.energy_units(units):
                dec_, mea_ = sd_.get_reorganization_energy(), sd_.measure_reorganization_energy()
            if abs(mea_ - dec_) > 1e-2 * abs(dec_):
                bad.append("spectral density %s inside energy_units(%r): reorganisation energy recovered from the data %.6g, declared %.6g"
                           % (p_["ftype"], units, mea_, dec_))
    except Exception as ex_:      # noqa
        bad.append("spectral density %s: measuring the reorganisation energy raised %s: %s" % (p_["ftype"], type(ex_).__name__, str(ex_)[:100]))

for b in bad[:12]:
    print("VIOLATED:", b)
print("C09 oracle: %d violations" % len(bad))
sys.exit(1 if bad else 0)
