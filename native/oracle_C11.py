"""Property-level native oracle for C11: absorption spectrum of a molecule and of small aggregates against the direct
Fourier integral sum_a |d_a|^2 Re int exp(-g_a(t) - i (w_a - w) t) dt at the points of the returned frequency axis,
scaling with the square of a common dipole factor, invariance under a common rotation, and the system left unchanged."""
import sys
import numpy
import quantarhei as qr
from quantarhei.spectroscopy.abscalculator import _c2g

bad = []


def molecule(e=12000.0, d=(1.0, 0.0, 0.0), reorg=30.0, cortime=80.0, nt=1000, dt=1.0):
    ta = qr.TimeAxis(0.0, nt, dt)
    with qr.energy_units("1/cm"):
        m = qr.Molecule([0.0, e])
        cf = qr.CorrelationFunction(ta, dict(ftype="OverdampedBrownian", reorg=reorg, cortime=cortime, T=300.0))
    m.set_dipole(0, 1, list(d))
    m.set_transition_environment((0, 1), cf)
    return m, ta, cf


def spectrum(m, ta, rwa_cm=12000.0):
    ac = qr.AbsSpectrumCalculator(ta, system=m)
    with qr.energy_units("1/cm"):
        ac.bootstrap(rwa=rwa_cm)
    return ac.calculate(raw=True)


def reference(m, ta, cf, w):
    """|d|^2 * 2 Re sum_n' exp(-g(t_n) - i (w_eg - w) t_n) dt  (first point with weight 1/2) at internal frequencies w"""
    g = _c2g(ta, cf.data)
    weg = m.elenergies[1] - m.elenergies[0]
    dd = numpy.dot(m.dmoments[0, 1, :], m.dmoments[0, 1, :])
    t = ta.data
    out = []
    for wk in w:
        f = numpy.exp(-g - 1j * (weg - wk) * t)
        out.append(dd * 2.0 * numpy.real(numpy.sum(f) - 0.5 * f[0]) * ta.step)
    return numpy.array(out)


for nt in (600, 1000):
    m, ta, cf = molecule(nt=nt)
    sp = spectrum(m, ta)
    with qr.energy_units("int"):
        w = numpy.array(sp.axis.data)
        s = numpy.array(sp.data)
    ref = reference(m, ta, cf, w)
    do = w[1] - w[0]
    ip, ir = int(numpy.argmax(s)), int(numpy.argmax(ref))
    # sub-grid position of the maxima (parabolic interpolation)
    def peak(y, i):
        a, b, c = y[i - 1], y[i], y[i + 1]
        return i + 0.5 * (a - c) / (a - 2 * b + c)
    shift = peak(s, ip) - peak(ref, ir)
    if abs(shift) > 1.0:
        bad.append("molecule, %d time points: the absorption line sits %.2f grid points (%.2f 1/cm) away from its position in the "
                   "direct Fourier integral on the returned axis" % (nt, shift, shift * do * 5308.8))
    elif numpy.abs(s - ref).max() > 2e-2 * numpy.abs(ref).max():
        bad.append("molecule, %d time points: spectrum differs from the direct Fourier integral by %.3g of its maximum"
                   % (nt, numpy.abs(s - ref).max() / numpy.abs(ref).max()))

# scaling with the square of a common dipole factor, rotation invariance, system unchanged
m1, ta, cf = molecule()
m2, _, _ = molecule(d=(0.0, 2.0, 0.0))
s1, s2 = spectrum(m1, ta), spectrum(m2, ta)
# (the natural line width of a molecule depends on its dipole, a relative effect of the order 1e-7 here)
if not numpy.allclose(s2.data, 4.0 * s1.data, rtol=1e-4, atol=1e-6 * numpy.abs(s1.data).max()):
    bad.append("spectrum does not scale with the square of the dipole factor / changes under rotation of the dipole")
e_before = numpy.array(m1.elenergies)
spectrum(m1, ta)
if not numpy.array_equal(e_before, m1.elenergies):
    bad.append("calculating a spectrum changed the energies of the molecule")

# aggregate: invariance under relabelling of the molecules, system left unchanged, repeatability
def trimer(order):
    E = [12000.0, 12300.0, 12350.0]
    J = {(0, 1): 250.0, (0, 2): 40.0, (1, 2): -150.0}
    D = [(1.0, 0.0, 0.0), (0.3, 0.9, 0.0), (0.0, 0.4, 0.8)]
    ta = qr.TimeAxis(0.0, 800, 1.0)
    with qr.energy_units("1/cm"):
        cf = qr.CorrelationFunction(ta, dict(ftype="OverdampedBrownian", reorg=40.0, cortime=60.0, T=300.0))
        mols = []
        for k in order:
            mm = qr.Molecule([0.0, E[k]])
            mm.set_dipole(0, 1, list(D[k]))
            mm.set_transition_environment((0, 1), cf)
            mols.append(mm)
        agg = qr.Aggregate(mols)
        for a in range(3):
            for b in range(a + 1, 3):
                ka, kb = sorted((order[a], order[b]))
                agg.set_resonance_coupling(a, b, J[(ka, kb)])
    agg.build()
    return agg, ta


try:
    specs = []
    for order in ((0, 1, 2), (2, 0, 1)):
        agg, ta = trimer(order)
        ac = qr.AbsSpectrumCalculator(ta, system=agg)
        with qr.energy_units("1/cm"):
            ac.bootstrap(rwa=12200.0)
        with qr.energy_units("int"):
            Hb = numpy.array(agg.get_Hamiltonian().data)
            Db = numpy.array(agg.get_TransitionDipoleMoment().data)
        sp = ac.calculate(raw=True)
        sp_again = ac.calculate(raw=True)
        with qr.energy_units("int"):
            Ha = numpy.array(agg.get_Hamiltonian().data)
            Da = numpy.array(agg.get_TransitionDipoleMoment().data)
        if not numpy.allclose(Hb, Ha, atol=1e-12) or not numpy.allclose(Db, Da, atol=1e-12):
            bad.append("aggregate %s: calculating the spectrum changed the Hamiltonian or the dipole operator (max dev %.3g)"
                       % (order, max(numpy.abs(Hb - Ha).max(), numpy.abs(Db - Da).max())))
        if not numpy.allclose(sp.data, sp_again.data, rtol=1e-9, atol=1e-12 * numpy.abs(sp.data).max()):
            bad.append("aggregate %s: a repeated calculation gives a different spectrum" % (order,))
        specs.append(numpy.array(sp.data))
    if not numpy.allclose(specs[0], specs[1], rtol=1e-7, atol=1e-9 * numpy.abs(specs[0]).max()):
        bad.append("heterotrimer: the spectrum changes under relabelling of the molecules (max rel dev %.3g)"
                   % (numpy.abs(specs[0] - specs[1]).max() / numpy.abs(specs[0]).max()))
    # a Hamiltonian whose weak couplings were removed (kept aside as remainder coupling) must stay as it is
    agg, ta = trimer((0, 1, 2))
    with qr.energy_units("1/cm"):
        agg.get_Hamiltonian().remove_cutoff_coupling(100.0)
    ac = qr.AbsSpectrumCalculator(ta, system=agg)
    with qr.energy_units("1/cm"):
        ac.bootstrap(rwa=12200.0)
    with qr.energy_units("int"):
        Hb = numpy.array(agg.get_Hamiltonian().data)
    s_first = numpy.array(ac.calculate(raw=True).data)
    with qr.energy_units("int"):
        Ha = numpy.array(agg.get_Hamiltonian().data)
    s_second = numpy.array(ac.calculate(raw=True).data)
    if not numpy.allclose(Hb, Ha, atol=1e-12):
        bad.append("aggregate with removed weak couplings: calculating the spectrum changed the Hamiltonian (max dev %.3g internal units)"
                   % numpy.abs(Hb - Ha).max())
    if not numpy.allclose(s_first, s_second, rtol=1e-8, atol=1e-10 * numpy.abs(s_first).max()):
        bad.append("aggregate with removed weak couplings: a repeated calculation gives a different spectrum")
except Exception as e:      # noqa
    print("aggregate part not run: %s: %s" % (type(e).__name__, e))

# ---- sum rule: the integral of the spectrum without the frequency prefactor does not depend on the couplings -------------------------
try:
    def _raw_integral(J_):
        ta_ = qr.TimeAxis(0.0, 1000, 1.0)
        with qr.energy_units("1/cm"):
            mols_ = []
            for k_, (e_, d_) in enumerate(zip([12000.0, 12200.0, 12450.0], [[1.0, 0.2, 0.0], [0.3, 1.1, 0.2], [0.5, -0.4, 0.9]])):
                m_ = qr.Molecule([0.0, e_])
                m_.set_dipole(0, 1, d_)
                m_.set_transition_environment((0, 1), qr.CorrelationFunction(ta_, dict(ftype="OverdampedBrownian", reorg=40.0, cortime=80.0,
                                                                                      T=300.0, matsubara=30)))
                mols_.append(m_)
            ag_ = qr.Aggregate(mols_)
            for (a_, b_), v_ in {(0, 1): J_, (1, 2): -0.6 * J_, (0, 2): 0.3 * J_}.items():
                ag_.set_resonance_coupling(a_, b_, v_)
        ag_.build()
        ac_ = qr.AbsSpectrumCalculator(ta_, system=ag_)
        with qr.energy_units("1/cm"):
            ac_.bootstrap(rwa=12200.0)
        sp_ = ac_.calculate(raw=True)
        w_, d_ = numpy.array(sp_.axis.data), numpy.array(sp_.data)
        return float(numpy.sum((d_[1:] + d_[:-1]) / 2 * numpy.diff(w_)))
    ints_ = [_raw_integral(J_) for J_ in (0.0, 80.0, 250.0)]
    if (max(ints_) - min(ints_)) > 1e-4 * abs(ints_[0]):
        bad.append("sum rule: the integral of the raw spectrum changes with the couplings: %s" % (["%.8g" % x for x in ints_],))
except Exception as e_:      # noqa
    bad.append("sum-rule part raised %s: %s" % (type(e_).__name__, str(e_)[:120]))

for b in bad[:10]:
    print("VIOLATED:", b)
print("C11 oracle: %d violations" % len(bad))
sys.exit(1 if bad else 0)
