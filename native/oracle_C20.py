"""Property-level native oracle for C20 (replay of last resort): repeated calls of the block-distribution helpers with
different starts on every rank of simulated process counts: blocks partition the range exactly, each rank gets its block."""
import sys
import types
from quantarhei.core import parallel as par

bad = []
calls = [(5, 11), (0, 6), (3, 3), (2, 12), (0, 6), (7, 8)]
for size in (1, 2, 3, 5):
    for rank in range(size):
        cfg = types.SimpleNamespace(size=size, rank=rank, ranges=None)
        for (start, stop) in calls:
            try:
                mine = par._calculate_ranges(cfg, start, stop)
            except Exception as e:      # noqa
                bad.append("size %d rank %d range(%d, %d): %s: %s" % (size, rank, start, stop, type(e).__name__, e))
                continue
            R = [list(r) for r in cfg.ranges]
            ok = (len(R) == size and R[0][0] == start and R[-1][1] == stop
                  and all(R[k][1] == R[k + 1][0] for k in range(size - 1))
                  and all((stop - start) // size <= r[1] - r[0] <= (stop - start) // size + 1 for r in R)
                  and list(mine) == R[rank])
            if not ok:
                bad.append("size %d rank %d, call sequence up to range(%d, %d): blocks %s (rank's block %s)"
                           % (size, rank, start, stop, R, list(mine)))
for b in bad[:10]:
    print("VIOLATED:", b)
print("C20 oracle: %d violations" % len(bad))
sys.exit(1 if bad else 0)
