"""Property-level native oracle for C07: operator form and tensor form of a relaxation tensor act identically
(RedfieldRelaxationTensor.apply vs SuperOperator.apply after conversion; rdmpropagator._OTI vs _TTI on the same
components), propagation with either representation gives the same dynamics, the time-dependent Redfield tensor vanishes
at time zero and equals the time-independent one at its last time index.  Native replay of last resort for C07
obligations whose counter-model lives on stand-in objects; cross-check in the thorough tier."""
import sys
import numpy
import quantarhei as qr
from quantarhei.qm import RedfieldRelaxationTensor, TDRedfieldRelaxationTensor, Operator
from quantarhei.qm.propagators import rdmpropagator as RP

bad = []
rng = numpy.random.default_rng(7)


def system(n):
    ta = qr.TimeAxis(0.0, 400, 1.0)
    en = [12000.0, 12150.0, 12300.0][:n]
    mols = []
    with qr.energy_units("1/cm"):
        for k in range(n):
            m = qr.Molecule([0.0, en[k]])
            cf = qr.CorrelationFunction(ta, dict(ftype="OverdampedBrownian", reorg=[30.0, 45.0, 20.0][k],
                                                 cortime=[60.0, 80.0, 50.0][k], T=300.0, matsubara=20))
            m.set_transition_environment((0, 1), cf)
            mols.append(m)
        agg = qr.Aggregate(mols)
        J = {(0, 1): 80.0, (1, 2): 30.0, (0, 2): 10.0}
        for (i, j), v in J.items():
            if j < n:
                agg.set_resonance_coupling(i, j, v)
    agg.build()
    return agg, agg.get_Hamiltonian(), agg.get_SystemBathInteraction(), ta


def rel(a, b):
    return abs(numpy.asarray(a) - numpy.asarray(b)).max() / max(1e-30, abs(numpy.asarray(b)).max())


# ---- _OTI against _TTI on random components ----------------------------------------------------------------------------------
for N, Nb in ((2, 1), (3, 2), (4, 3)):
    Km = rng.standard_normal((Nb, N, N))
    Lm = rng.standard_normal((Nb, N, N)) + 1j * rng.standard_normal((Nb, N, N))
    Ld = numpy.conj(numpy.transpose(Lm, (0, 2, 1)))
    Kd = numpy.transpose(Km, (0, 2, 1)).copy()
    rho = rng.standard_normal((N, N)) + 1j * rng.standard_normal((N, N))
    R = numpy.zeros((N, N, N, N), dtype=complex)
    for m in range(Nb):
        KdLm = Kd[m] @ Lm[m]
        LdKm = Ld[m] @ Km[m]
        for a in range(N):
            for b in range(N):
                for c in range(N):
                    for d in range(N):
                        R[a, b, c, d] += Km[m, a, c] * Ld[m, d, b] + Lm[m, a, c] * Kd[m, d, b]
                        if b == d:
                            R[a, b, c, d] -= KdLm[a, c]
                        if a == c:
                            R[a, b, c, d] -= LdKm[d, b]
    y1 = numpy.zeros((N, N), dtype=complex)
    y2 = numpy.zeros((N, N), dtype=complex)
    RP._OTI(y1, Km, Kd, Lm, Ld, 2, 0.3, rho)
    RP._TTI(y2, R, 0.0, 2, 0.3, rho, L=4)
    if rel(y1, y2) > 1e-10:
        bad.append("_OTI and _TTI disagree for N=%d, %d components: relative difference %.3e" % (N, Nb, rel(y1, y2)))
    want = (0.3 / 2) * sum(Km[m] @ rho @ Ld[m] + Lm[m] @ rho @ Kd[m] - Kd[m] @ Lm[m] @ rho - rho @ Ld[m] @ Km[m] for m in range(Nb))
    if rel(y1, want) > 1e-10:
        bad.append("_OTI is not (dt/ll) sum_m K rho L+ + L rho K^T - K^T L rho - rho L+ K for N=%d: %.3e" % (N, rel(y1, want)))

# ---- tensors of real systems ----------------------------------------------------------------------------------------------------
for n in (2, 3):
    agg, ham, sbi, ta = system(n)
    RTo = RedfieldRelaxationTensor(ham, sbi, as_operators=True)
    RTt = RedfieldRelaxationTensor(ham, sbi, as_operators=False)
    N = ham.dim
    for trial in range(3):
        A = rng.standard_normal((N, N)) + 1j * rng.standard_normal((N, N))
        op = Operator(data=A.copy())
        with qr.eigenbasis_of(ham):
            ro = RTo.apply(Operator(data=A.copy())).data.copy()
            rt = RTt.apply(Operator(data=A.copy())).data.copy()
        if rel(ro, rt) > 1e-8:
            bad.append("%d-mer: operator form and tensor form act differently on an operator: %.3e" % (n, rel(ro, rt)))
            break
    RTc = RedfieldRelaxationTensor(ham, sbi, as_operators=True)
    RTc.convert_2_tensor()
    with qr.eigenbasis_of(ham):
        if rel(RTc.data, RTt.data) > 1e-8:
            bad.append("%d-mer: converted operator form differs from the tensor form: %.3e" % (n, rel(RTc.data, RTt.data)))
    # same dynamics
    rho0 = qr.ReducedDensityMatrix(dim=N)
    rho0.data[1, 1] = 0.7
    rho0.data[2, 2] = 0.3
    rho0.data[1, 2] = rho0.data[2, 1] = 0.2
    tp = qr.TimeAxis(0.0, 100, 1.0)
    dyn = []
    for RT in (RTo, RTt):
        prop = qr.ReducedDensityMatrixPropagator(tp, ham, RT)
        dyn.append(prop.propagate(rho0).data.copy())
    if rel(dyn[0], dyn[1]) > 1e-7:
        bad.append("%d-mer: propagation with operator form and tensor form differ: %.3e" % (n, rel(dyn[0], dyn[1])))
    # time-dependent tensor: zero at t = 0, static tensor at the last index
    TD = TDRedfieldRelaxationTensor(ham, sbi)
    with qr.eigenbasis_of(ham):
        td = numpy.array(TD.data)
        st = numpy.array(RTt.data)
    if abs(td[0]).max() > 1e-12 * max(1.0, abs(st).max()):
        bad.append("%d-mer: time-dependent Redfield tensor does not vanish at time zero: %.3e" % (n, abs(td[0]).max()))
    if rel(td[-1], st) > 1e-8:
        bad.append("%d-mer: time-dependent Redfield tensor at its last index differs from the static tensor: %.3e" % (n, rel(td[-1], st)))

# ---- uncoupled sites: time-local second-order theory is exact; propagation reproduces exp(-i w t - g(t)) up to the step error -------
try:
    from quantarhei.spectroscopy.abscalculator import _c2g
    devs = []
    for dt_ in (1.0, 0.5):
        ta_ = qr.TimeAxis(0.0, int(300 / dt_), dt_)
        with qr.energy_units("1/cm"):
            ma, mb = qr.Molecule([0.0, 12000.0]), qr.Molecule([0.0, 12300.0])
            cf_ = qr.CorrelationFunction(ta_, dict(ftype="OverdampedBrownian", reorg=30.0, cortime=60.0, T=300.0, matsubara=30))
            ma.set_transition_environment((0, 1), cf_)
            mb.set_transition_environment((0, 1), cf_)
            ag_ = qr.Aggregate([ma, mb])
        ag_.build()
        hm_, sb_ = ag_.get_Hamiltonian(), ag_.get_SystemBathInteraction()
        hm_.set_rwa([0, 1])
        pr_ = qr.ReducedDensityMatrixPropagator(ta_, hm_, TDRedfieldRelaxationTensor(hm_, sb_))
        r0_ = qr.ReducedDensityMatrix(dim=3)
        r0_.data[:, :] = numpy.array([[0.5, 0.5, 0.0], [0.5, 0.5, 0.0], [0, 0, 0]])
        rt_ = pr_.propagate(r0_)
        rt_.convert_from_RWA(hm_)
        want_ = 0.5 * numpy.exp(-1j * numpy.array(hm_.data)[1, 1] * ta_.data - _c2g(ta_, cf_.data))
        devs.append(abs(numpy.array(rt_.data)[:, 1, 0] - want_).max())
    if devs[0] > 2e-2 or devs[1] > 0.75 * devs[0] + 1e-6:
        bad.append("uncoupled sites: optical coherence deviates from exp(-i w t - g(t)) by %.3e at 1 fs and %.3e at 0.5 fs steps "
                   "(not a time-step error)" % (devs[0], devs[1]))
except Exception as e:      # noqa
    bad.append("pure-dephasing limit raised %s: %s" % (type(e).__name__, str(e)[:120]))

for b in bad[:12]:
    print("VIOLATED:", b)
print("C07 oracle: %d violations" % len(bad))
sys.exit(1 if bad else 0)
