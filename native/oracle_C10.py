"""Property-level native oracle for C10 (replay of last resort): Franck-Condon overlaps of a molecule with one or two
modes against the analytic displaced-oscillator matrix elements (Poisson law from the vibrational ground state), the
number of vibronic states, and the vibronic couplings of small aggregates (electronic coupling times overlaps)."""
import sys
import math
import itertools
import numpy
import quantarhei as qr

bad = []


def fc_analytic(m, n, d):
    """<m| D(d) |n> for the package's convention D = exp((d a^+ - d a)/sqrt 2) (real d)"""
    lam = d / math.sqrt(2.0)
    s = 0.0
    for k in range(min(m, n) + 1):
        s += ((-1) ** (n - k)) * lam ** (m + n - 2 * k) / (math.factorial(k) * math.factorial(m - k) * math.factorial(n - k))
    return math.exp(-lam * lam / 2.0) * math.sqrt(math.factorial(m) * math.factorial(n)) * s


def vib_molecule(e, hr, nmax_g, nmax_e, omega=200.0):
    with qr.energy_units("1/cm"):
        m = qr.Molecule([0.0, e])
        md = qr.Mode(frequency=omega)
        m.add_Mode(md)
        md.set_nmax(0, nmax_g)
        md.set_nmax(1, nmax_e)
        md.set_HR(1, hr)
    return m


for hr, ng, ne in ((0.05, 3, 3), (0.5, 5, 5), (1.0, 8, 8), (2.0, 12, 12), (4.0, 14, 14)):
    try:
        mol = vib_molecule(12000.0, hr, ng, ne)
        agg = qr.Aggregate([mol])
        agg.build(mult=1)
    except Exception as e:      # noqa
        bad.append("molecule with S=%g could not be built: %s: %s" % (hr, type(e).__name__, str(e)[:80]))
        continue
    if agg.Ntot != ng + ne:
        bad.append("S=%g: %d vibronic states, expected %d" % (hr, agg.Ntot, ng + ne))
    d = math.sqrt(2.0 * hr)
    F = numpy.array(agg.FCf)
    for a in range(ng):
        for b in range(ne):
            want = fc_analytic(b, a, d)
            got = F[ng + b, a]
            if abs(abs(got) - abs(want)) > 1e-7:
                bad.append("S=%g: overlap <e,%d|g,%d> = %.8g, displaced-oscillator value %.8g" % (hr, b, a, got, want))
                break
        else:
            continue
        break
    p0 = numpy.array([F[ng + b, 0] ** 2 for b in range(ne)])
    pois = numpy.array([math.exp(-hr) * hr ** b / math.factorial(b) for b in range(ne)])
    if numpy.abs(p0 - pois).max() > 1e-7:
        bad.append("S=%g: 0 -> n progression deviates from the Poisson distribution by %.3g" % (hr, numpy.abs(p0 - pois).max()))

# vibronic couplings of a trimer with two-exciton states: J times the overlaps
try:
    mols = [vib_molecule(12000.0 + 100 * k, 0.3 + 0.1 * k, 2, 2) for k in range(3)]
    agg = qr.Aggregate(mols)
    with qr.energy_units("1/cm"):
        for k, l in itertools.combinations(range(3), 2):
            agg.set_resonance_coupling(k, l, 50.0 + 10 * k + 5 * l)
    agg.build(mult=2)
    H = numpy.array(agg.HH)
    F = numpy.array(agg.FCf)
    J = numpy.array(agg.resonance_coupling)
    for a, b in itertools.combinations(range(agg.Ntot), 2):
        sa, sb = agg.vibsigs[a][0], agg.vibsigs[b][0]
        if sa == sb:
            continue
        diff = [i for i in range(3) if sa[i] != sb[i]]
        want = J[diff[0], diff[1]] * F[a, b] if (sum(sa) == sum(sb) and len(diff) == 2) else 0.0
        if abs(H[a, b] - want) > 1e-10 * max(1.0, abs(want)):
            bad.append("trimer: coupling between %s and %s is %.6g, electronic coupling times overlaps is %.6g"
                       % (agg.vibsigs[a], agg.vibsigs[b], H[a, b], want))
            break
except Exception as e:      # noqa
    bad.append("vibronic trimer could not be built: %s: %s" % (type(e).__name__, str(e)[:80]))

# ---- assembly: the built Hamiltonian and dipole operator of a vibronic aggregate are the state-pair functions element by element -------
try:
    with qr.energy_units("1/cm"):
        mols_ = []
        for k_ in range(2):
            m_ = qr.Molecule([0.0, 12000.0 + 200 * k_])
            m_.set_dipole(0, 1, [1.0 + k_, 0.5 * k_, -0.3])
            md_ = qr.Mode(frequency=100.0 + 40 * k_)
            m_.add_Mode(md_)
            md_.set_nmax(0, 3)
            md_.set_nmax(1, 3)
            md_.set_HR(1, 0.3 + 0.2 * k_)
            mols_.append(m_)
        ag_ = qr.Aggregate(mols_)
        ag_.set_resonance_coupling(0, 1, 70.0)
    ag_.build(mult=1)
    H_ = numpy.array(ag_.get_Hamiltonian().data)
    D_ = numpy.array(ag_.get_TransitionDipoleMoment().data)
    sts_ = [st for (_, st) in ag_.allstates(mult=1)]
    if len(sts_) != 27 or H_.shape != (27, 27):
        bad.append("two molecules with one mode of three levels each: %d vibronic states, expected 27 (9 per electronic state)" % len(sts_))
    else:
        with qr.energy_units("int"):
            for a_, s1_ in enumerate(sts_):
                for b_, s2_ in enumerate(sts_):
                    if abs(numpy.zeros(3) + ag_.transition_dipole(s1_, s2_) - D_[a_, b_]).max() > 1e-12:
                        bad.append("built dipole operator element (%d,%d) differs from molecular dipole times overlap" % (a_, b_))
                    want_ = s1_.energy() if a_ == b_ else ag_.coupling(s1_, s2_)
                    if abs(H_[a_, b_] - want_) > 1e-12:
                        bad.append("built Hamiltonian element (%d,%d) = %.6g differs from the state-pair value %.6g" % (a_, b_, H_[a_, b_], want_))
            bad[:] = bad[:20]
except Exception as e_:      # noqa
    bad.append("assembly part raised %s: %s" % (type(e_).__name__, str(e_)[:120]))

for b in bad[:10]:
    print("VIOLATED:", b)
print("C10 oracle: %d violations" % len(bad))
sys.exit(1 if bad else 0)
