"""Property-level native oracle for C10 (replay of last resort): Franck-Condon overlaps of a molecule with one or two
modes against the analytic displaced-oscillator matrix elements (Poisson law from the vibrational ground state), the
number of vibronic states, and the vibronic couplings of small aggregates (electronic coupling times overlaps)."""
import sys
import math
import itertools
import numpy
import quantarhei as qr

bad = []


def fc_analytic(m, n, d):
    """<m| D(d) |n> for the package's convention D = exp((d a^+ - d a)/sqrt 2) (real d)"""
    lam = d / math.sqrt(2.0)
    s = 0.0
    for k in range(min(m, n) + 1):
        s += ((-1) ** (n - k)) * lam ** (m + n - 2 * k) / (math.factorial(k) * math.factorial(m - k) * math.factorial(n - k))
    return math.exp(-lam * lam / 2.0) * math.sqrt(math.factorial(m) * math.factorial(n)) * s


def vib_molecule(e, hr, nmax_g, nmax_e, omega=200.0):
    with qr.energy_units("1/cm"):
        m = qr.Molecule([0.0, e])
        md = qr.Mode(frequency=omega)
        m.add_Mode(md)
        md.set_nmax(0, nmax_g)
        md.set_nmax(1, nmax_e)
        md.set_HR(1, hr)
    return m


for hr, ng, ne in ((0.05, 3, 3), (0.5, 5, 5), (1.0, 8, 8), (2.0, 12, 12), (4.0, 14, 14)):
    try:
        mol = vib_molecule(12000.0, hr, ng, ne)
        agg = qr.Aggregate([mol])
        agg.build(mult=1)
    except Exception as e:      # noqa
        bad.append("molecule with S=%g could not be built: %s: %s" % (hr, type(e).__name__, str(e)[:80]))
        continue
    if agg.Ntot != ng + ne:
        bad.append("S=%g: %d vibronic states, expected %d" % (hr, agg.Ntot, ng + ne))
    d = math.sqrt(2.0 * hr)
    F = numpy.array(agg.FCf)
    for a in range(ng):
        for b in range(ne):
            want = fc_analytic(b, a, d)
            got = F[ng + b, a]
            if abs(abs(got) - abs(want)) > 1e-7:
                bad.append("S=%g: overlap <e,%d|g,%d> = %.8g, displaced-oscillator value %.8g" % (hr, b, a, got, want))
                break
        else:
            continue
        break
    p0 = numpy.array([F[ng + b, 0] ** 2 for b in range(ne)])
    pois = numpy.array([math.exp(-hr) * hr ** b / math.factorial(b) for b in range(ne)])
    if numpy.abs(p0 - pois).max() > 1e-7:
        bad.append("S=%g: 0 -> n progression deviates from the Poisson distribution by %.3g" % (hr, numpy.abs(p0 - pois).max()))

# vibronic couplings of a trimer with two-exciton states: J times the overlaps
try:
    mols = [vib_molecule(12000.0 + 100 * k, 0.3 + 0.1 * k, 2, 2) for k in range(3)]
    agg = qr.Aggregate(mols)
    with qr.energy_units("1/cm"):
        for k, l in itertools.combinations(range(3), 2):
            agg.set_resonance_coupling(k, l, 50.0 + 10 * k + 5 * l)
    agg.build(mult=2)
    H = numpy.array(agg.HH)
    F = numpy.array(agg.FCf)
    J = numpy.array(agg.resonance_coupling)
    for a, b in itertools.combinations(range(agg.Ntot), 2):
        sa, sb = agg.vibsigs[a][0], agg.vibsigs[b][0]
        if sa == sb:
            continue
        diff = [i for i in range(3) if sa[i] != sb[i]]
        want = J[diff[0], diff[1]] * F[a, b] if (sum(sa) == sum(sb) and len(diff) == 2) else 0.0
        if abs(H[a, b] - want) > 1e-10 * max(1.0, abs(want)):
            bad.append("trimer: coupling between %s and %s is %.6g, electronic coupling times overlaps is %.6g"
                       % (agg.vibsigs[a], agg.vibsigs[b], H[a, b], want))
            break
except Exception as e:      # noqa
    bad.append("vibronic trimer could not be built: %s: %s" % (type(e).__name__, str(e)[:80]))

for b in bad[:10]:
    print("VIOLATED:", b)
print("C10 oracle: %d violations" % len(bad))
sys.exit(1 if bad else 0)
