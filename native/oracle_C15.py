"""Property-level native oracle for C15: inputs unchanged and results repeatable for the density-matrix propagator (with a
refinement requested in between, with Lorentzian and Gaussian pure dephasing and a time step different from 1 fs), the
Kubo-Tanimura hierarchy propagator and the evolution superoperator."""
import sys
import copy
import numpy
import quantarhei as qr
from quantarhei.qm import ReducedDensityMatrixPropagator
from quantarhei.qm import PureDephasing

bad = []


def snap(*objs):
    out = []
    for o in objs:
        d = {}
        for k, v in vars(o).items():
            if isinstance(v, numpy.ndarray):
                d[k] = v.copy()
            elif isinstance(v, (int, float, complex, str, bool, type(None))):
                d[k] = v
        out.append(d)
    return out


def changed(before, objs, names):
    res = []
    for b, o, nm in zip(before, objs, names):
        for k, v in b.items():
            cur = getattr(o, k, None)
            if isinstance(v, numpy.ndarray):
                if not (isinstance(cur, numpy.ndarray) and cur.shape == v.shape and numpy.array_equal(cur, v)):
                    res.append("%s.%s" % (nm, k))
            elif cur != v and not (isinstance(v, float) and v != v):
                res.append("%s.%s" % (nm, k))
    return res


with qr.energy_units("int"):
    HH = qr.Hamiltonian(data=[[0.0, 0.1, 0.0], [0.1, 0.0, 0.1], [0.0, 0.1, 0.1]])
t = qr.TimeAxis(0.0, 40, 2.5)
rhoi = qr.ReducedDensityMatrix(data=numpy.diag([1.0, 0.0, 0.0]))

# 1. closed system, a refinement requested for one call in between
pr = ReducedDensityMatrixPropagator(t, HH)
b = snap(HH, rhoi, t)
r1 = pr.propagate(rhoi).data.copy()
pr.propagate(rhoi, Nref=7)
r2 = pr.propagate(rhoi).data.copy()
if not numpy.allclose(r1, r2, atol=1e-12):
    bad.append("closed system: propagate(rho) after propagate(rho, Nref=7) differs from the first propagate(rho) "
               "(max dev %.3g)" % numpy.abs(r1 - r2).max())
ch = changed(b, (HH, rhoi, t), ("Hamiltonian", "rhoi", "TimeAxis"))
if ch:
    bad.append("closed system: inputs changed by propagate: %s" % ch)

# 2. pure dephasing (both kinds), step != 1 fs, repeated calls
for kind in ("Lorentzian", "Gaussian"):
    rates = numpy.array([[0.0, 0.02, 0.03], [0.02, 0.0, 0.01], [0.03, 0.01, 0.0]])
    pd = PureDephasing(rates.copy(), dtype=kind)
    ops = [qr.qm.ProjectionOperator(0, 1, dim=3)]
    sbi_l = qr.qm.SystemBathInteraction(sys_operators=ops, rates=(0.001,))
    LF = qr.qm.LindbladForm(HH, sbi_l, as_operators=False)
    pr = ReducedDensityMatrixPropagator(t, HH, RTensor=LF, PDeph=pd)
    rho2 = qr.ReducedDensityMatrix(data=numpy.full((3, 3), 1.0 / 3.0))
    b = snap(HH, rho2, pd)
    r1 = pr.propagate(rho2).data.copy()
    r2 = pr.propagate(rho2).data.copy()
    if not numpy.allclose(r1, r2, atol=1e-12):
        bad.append("%s pure dephasing: repeated propagate differs (max dev %.3g)" % (kind, numpy.abs(r1 - r2).max()))
    ch = changed(b, (HH, rho2, pd), ("Hamiltonian", "rhoi", "PureDephasing"))
    if ch:
        bad.append("%s pure dephasing: inputs changed by propagate: %s" % (kind, ch))

# 2b. the same call inside a basis context, with and without an earlier site-basis propagation on the same objects
def in_eigenbasis(prefill):
    with qr.energy_units("int"):
        H2 = qr.Hamiltonian(data=[[0.0, 0.0, 0.0], [0.0, 1.0, 0.1], [0.0, 0.1, 1.2]])
    H2.set_rwa([0, 1])
    p2 = ReducedDensityMatrixPropagator(t, H2)
    rho3 = qr.ReducedDensityMatrix(data=numpy.array([[0.2, 0.1, 0.0], [0.1, 0.5, 0.2], [0.0, 0.2, 0.3]]))
    if prefill:
        p2.propagate(rho3)
    with qr.eigenbasis_of(H2):
        out = p2.propagate(rho3)
        return numpy.array(out.data)


try:
    ra, rb = in_eigenbasis(False), in_eigenbasis(True)
    if not numpy.allclose(ra, rb, atol=1e-10):
        bad.append("propagate inside eigenbasis_of(H) differs when the same objects were used for a site-basis propagation "
                   "before (max dev %.3g)" % numpy.abs(ra - rb).max())
except Exception as e:      # noqa
    print("basis-context part not run: %s: %s" % (type(e).__name__, e))

# 3. hierarchy propagator
try:
    from quantarhei.qm.liouvillespace.heom import KTHierarchy, KTHierarchyPropagator
    with qr.energy_units("1/cm"):
        m1 = qr.Molecule([0.0, 10000.0])
        m2 = qr.Molecule([0.0, 10100.0])
        agg = qr.Aggregate([m1, m2])
        agg.set_resonance_coupling(0, 1, 80.0)
        tc = qr.TimeAxis(0.0, 300, 1.0)
        cf = qr.CorrelationFunction(tc, dict(ftype="OverdampedBrownian", reorg=30.0, cortime=100.0, T=300.0))
    m1.set_transition_environment((0, 1), cf)
    m2.set_transition_environment((0, 1), cf)
    agg.build()
    ham = agg.get_Hamiltonian()
    sbi = agg.get_SystemBathInteraction()
    ham.set_rwa([0, 1])
    hy = KTHierarchy(ham, sbi, 2)
    kp = KTHierarchyPropagator(qr.TimeAxis(0.0, 30, 1.0), hy)
    rho = qr.ReducedDensityMatrix(dim=3)
    rho.data[2, 2] = 1.0
    hb = ham.data.copy()
    r1 = kp.propagate(rho).data.copy()
    r2 = kp.propagate(rho).data.copy()
    if not numpy.allclose(r1, r2, atol=1e-12):
        bad.append("hierarchy propagator: repeated propagate(rho) differs (max dev %.3g)" % numpy.abs(r1 - r2).max())
    if not numpy.array_equal(hb, ham.data) or rho.data[2, 2] != 1.0:
        bad.append("hierarchy propagator: Hamiltonian or initial state changed")
except Exception as e:      # noqa
    print("hierarchy part not run: %s: %s" % (type(e).__name__, e))

# ---- building relaxation tensors / rate matrices leaves Hamiltonian and system-bath interaction unchanged and is repeatable ---------
try:
    from quantarhei.qm import (RedfieldRelaxationTensor, TDRedfieldRelaxationTensor, FoersterRelaxationTensor,
                               TDFoersterRelaxationTensor, RedfieldFoersterRelaxationTensor, RedfieldRateMatrix,
                               FoersterRateMatrix)

    def _system3():
        ta_ = qr.TimeAxis(0.0, 300, 1.0)
        mols_ = []
        with qr.energy_units("1/cm"):
            for k_ in range(3):
                m_ = qr.Molecule([0.0, 12000.0 + 150.0 * k_])
                m_.set_transition_environment((0, 1), qr.CorrelationFunction(ta_, dict(ftype="OverdampedBrownian", reorg=30.0 + 5 * k_,
                                                                                      cortime=60.0, T=300.0, matsubara=20)))
                mols_.append(m_)
            ag_ = qr.Aggregate(mols_)
            ag_.set_resonance_coupling(0, 1, 80.0)
            ag_.set_resonance_coupling(1, 2, 30.0)
        ag_.build()
        return ag_.get_Hamiltonian(), ag_.get_SystemBathInteraction()

    def _snap(h_, s_):
        return (numpy.array(h_.data).copy(), numpy.array(s_.KK).copy(), [numpy.array(s_.CC.get_coft(i_, i_)).copy() for i_ in range(s_.N)],
                getattr(h_, "has_rwa", None), h_.get_current_basis())

    def _same(a_, b_):
        return numpy.array_equal(a_[0], b_[0]) and numpy.array_equal(a_[1], b_[1]) and a_[3:] == b_[3:] \
            and all(numpy.array_equal(x_, y_) for x_, y_ in zip(a_[2], b_[2]))
    ham3, sbi3 = _system3()
    makers = {"Redfield": lambda: RedfieldRelaxationTensor(ham3, sbi3),
              "Redfield (operators)": lambda: RedfieldRelaxationTensor(ham3, sbi3, as_operators=True),
              "Redfield (cut-off)": lambda: RedfieldRelaxationTensor(ham3, sbi3, cutoff_time=100.0),
              "TDRedfield": lambda: TDRedfieldRelaxationTensor(ham3, sbi3),
              "Foerster": lambda: FoersterRelaxationTensor(ham3, sbi3),
              "Foerster (pure dephasing)": lambda: FoersterRelaxationTensor(ham3, sbi3, pure_dephasing=True),
              "TDFoerster": lambda: TDFoersterRelaxationTensor(ham3, sbi3),
              "Redfield-Foerster": lambda: RedfieldFoersterRelaxationTensor(ham3, sbi3, coupling_cutoff=50.0),
              "Redfield rate matrix": lambda: RedfieldRateMatrix(ham3, sbi3),
              "Foerster rate matrix": lambda: FoersterRateMatrix(ham3, sbi3)}
    for name_, mk_ in makers.items():
        s0_ = _snap(ham3, sbi3)
        t1_ = mk_()
        d1_ = numpy.array(t1_.Lm if getattr(t1_, "as_operators", False) else t1_.data).copy()
        s1_ = _snap(ham3, sbi3)
        t2_ = mk_()
        d2_ = numpy.array(t2_.Lm if getattr(t2_, "as_operators", False) else t2_.data).copy()
        if not _same(s0_, s1_) or not _same(s1_, _snap(ham3, sbi3)):
            bad.append("building %s changes the Hamiltonian or the system-bath interaction passed in" % name_)
        if not numpy.array_equal(d1_, d2_):
            bad.append("building %s twice from the same inputs gives different results (max deviation %.3e)" % (name_, abs(d1_ - d2_).max()))
except Exception as e_:      # noqa
    bad.append("tensor-construction part raised %s: %s" % (type(e_).__name__, str(e_)[:120]))

for b_ in bad:
    print("VIOLATED:", b_)
print("C15 oracle: %d violations" % len(bad))
sys.exit(1 if bad else 0)
