"""Property-level native oracle for C04 (replay of last resort): sequences of entering/leaving (nested) eigenbasis
contexts, creating / reading / writing / applying / copying managed objects, exceptions inside contexts, degenerate and
unsorted-diagonal operators.  Checks: the context operator is diagonal with ascending eigenvalues inside; objects are back
at their original values and the bookkeeping is back in its previous state after the contexts are left; basis-independent
quantities agree inside and outside; objects created inside (including copies made by apply) remain readable afterwards."""
import sys
import copy
import numpy
import quantarhei as qr
from quantarhei import Manager, eigenbasis_of
from quantarhei.qm import Operator, SuperOperator, ReducedDensityMatrix

bad = []
m = Manager()


def book():
    return (list(m.basis_stack), len(m.basis_transformations), sorted(m.basis_registered.keys()), m.get_current_basis())


def close(a, b, tol=1e-10):
    return numpy.allclose(numpy.asarray(a), numpy.asarray(b), atol=tol, rtol=0)


def ham(data):
    with qr.energy_units("int"):
        return qr.Hamiltonian(data=numpy.array(data, dtype=float))


def run():
    rng = numpy.random.default_rng(3)
    hams = {"generic": [[0.0, 0.1, 0.02], [0.1, 1.0, 0.3], [0.02, 0.3, 1.2]],
            "degenerate": [[0.0, 0.0, 0.0], [0.0, 1.0, 0.2], [0.0, 0.2, 1.0]],
            "diagonal-unsorted": [[0.0, 0.0, 0.0], [0.0, 1.2, 0.0], [0.0, 0.0, 1.0]]}
    for label, hd in hams.items():
        H = ham(hd)
        H2 = ham([[0.0, 0.05, 0.0], [0.05, 0.7, 0.25], [0.0, 0.25, 1.4]])
        A0 = rng.random((3, 3)) + 1j * rng.random((3, 3))
        A = Operator(data=A0.copy())
        R0 = rng.random((3, 3, 3, 3)) + 1j * rng.random((3, 3, 3, 3))
        R = SuperOperator(data=R0.copy())
        rho0 = numpy.array([[0.5, 0.1j, 0.0], [-0.1j, 0.3, 0.05], [0.0, 0.05, 0.2]])
        rho = ReducedDensityMatrix(data=rho0.copy())
        b0 = book()
        hsite = numpy.array(H.data)
        act_site = numpy.tensordot(R0, rho0)
        created = {}
        try:
            with eigenbasis_of(H):
                d = numpy.array(H.data)
                if not close(d, numpy.diag(numpy.diag(d))):
                    bad.append("%s: context operator not diagonal inside its context" % label)
                ev = numpy.real(numpy.diag(d))
                if not numpy.all(numpy.diff(ev) >= -1e-12):
                    bad.append("%s: eigenvalues not ascending inside the context: %r" % (label, ev))
                if abs(numpy.trace(A.data) - numpy.trace(A0)) > 1e-10:
                    bad.append("%s: trace of an operator differs inside the context" % label)
                res = R.apply(rho)                       # a copy created inside the context (operand not read before)
                created["apply"] = res
                _ = rho.data
                created["apply-after-read"] = R.apply(rho)
                created["copy"] = copy.copy(A)
                created["deepcopy"] = copy.deepcopy(A)
                created["A.copy()"] = A.copy()
                created["new"] = Operator(data=numpy.array(A.data))
                tr_in = numpy.trace(numpy.dot(numpy.array(A.data), numpy.array(rho.data)))
                with eigenbasis_of(H2):
                    A.data = numpy.array(A.data)          # write in a nested context
                    _ = R.data
                    raise RuntimeError("boom")
        except RuntimeError:
            pass
        if book() != b0:
            bad.append("%s: bookkeeping not restored: %r != %r" % (label, book(), b0))
        if not close(H.data, hsite):
            bad.append("%s: context operator not restored" % label)
        try:
            if not close(A.data, A0) or not close(R.data, R0) or not close(rho.data, rho0):
                bad.append("%s: an object is not back at its original values after the contexts" % label)
        except Exception as e:      # noqa
            bad.append("%s: an object cannot be read after the contexts were left: %s" % (label, e))
        if abs(tr_in - numpy.trace(numpy.dot(A0, rho0))) > 1e-10:
            bad.append("%s: tr(A rho) differs inside the context" % label)
        for k, obj in created.items():
            try:
                val = numpy.array(obj.data)
            except Exception as e:      # noqa
                bad.append("%s: object created inside the context by %s cannot be read afterwards: %s" % (label, k, e))
                continue
            want = act_site if k.startswith("apply") else A0
            if not close(val, want, 1e-9):
                bad.append("%s: object created inside the context by %s has wrong values outside" % (label, k))
        # whole-array write of a tensor that was not read in the context first
        R3 = SuperOperator(data=R0.copy())
        with eigenbasis_of(H):
            inside = numpy.array(R.data)
            R3.data = inside.copy()
        try:
            if not close(R3.data, R0, 1e-9):
                bad.append("%s: tensor assigned as a whole inside a context is not transformed back" % label)
        except Exception as e:      # noqa
            bad.append("%s: tensor assigned as a whole inside a context cannot be read afterwards: %s" % (label, e))
        m.basis_stack[:] = [0]
        del m.basis_transformations[1:]
        m.basis_registered.clear()


run()
for b in bad:
    print("VIOLATED:", b)
print("C04 oracle: %d violations" % len(bad))
sys.exit(1 if bad else 0)
