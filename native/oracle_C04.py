"""Property-level native oracle for C04 (replay of last resort): sequences of entering/leaving (nested) eigenbasis
contexts, creating / reading / writing / applying / copying managed objects, exceptions inside contexts, degenerate and
unsorted-diagonal operators.  Checks: the context operator is diagonal with ascending eigenvalues inside; objects are back
at their original values and the bookkeeping is back in its previous state after the contexts are left; basis-independent
quantities agree inside and outside; objects created inside (including copies made by apply) remain readable afterwards."""
import sys
import copy
import numpy
import quantarhei as qr
from quantarhei import Manager, eigenbasis_of
from quantarhei.qm import Operator, SuperOperator, ReducedDensityMatrix

bad = []
m = Manager()


def book():
    return (list(m.basis_stack), len(m.basis_transformations), sorted(m.basis_registered.keys()), m.get_current_basis())


def close(a, b, tol=1e-10):
    return numpy.allclose(numpy.asarray(a), numpy.asarray(b), atol=tol, rtol=0)


def ham(data):
    with qr.energy_units("int"):
        return qr.Hamiltonian(data=numpy.array(data, dtype=float))


def run():
    rng = numpy.random.default_rng(3)
    hams = {"generic": [[0.0, 0.1, 0.02], [0.1, 1.0, 0.3], [0.02, 0.3, 1.2]],
            "degenerate": [[0.0, 0.0, 0.0], [0.0, 1.0, 0.2], [0.0, 0.2, 1.0]],
            "diagonal-unsorted": [[0.0, 0.0, 0.0], [0.0, 1.2, 0.0], [0.0, 0.0, 1.0]]}
    for label, hd in hams.items():
        H = ham(hd)
        H2 = ham([[0.0, 0.05, 0.0], [0.05, 0.7, 0.25], [0.0, 0.25, 1.4]])
        A0 = rng.random((3, 3)) + 1j * rng.random((3, 3))
        A = Operator(data=A0.copy())
        R0 = rng.random((3, 3, 3, 3)) + 1j * rng.random((3, 3, 3, 3))
        R = SuperOperator(data=R0.copy())
        rho0 = numpy.array([[0.5, 0.1j, 0.0], [-0.1j, 0.3, 0.05], [0.0, 0.05, 0.2]])
        rho = ReducedDensityMatrix(data=rho0.copy())
        b0 = book()
        hsite = numpy.array(H.data)
        act_site = numpy.tensordot(R0, rho0)
        created = {}
        try:
            with eigenbasis_of(H):
                d = numpy.array(H.data)
                if not close(d, numpy.diag(numpy.diag(d))):
                    bad.append("%s: context operator not diagonal inside its context" % label)
                ev = numpy.real(numpy.diag(d))
                if not numpy.all(numpy.diff(ev) >= -1e-12):
                    bad.append("%s: eigenvalues not ascending inside the context: %r" % (label, ev))
                if abs(numpy.trace(A.data) - numpy.trace(A0)) > 1e-10:
                    bad.append("%s: trace of an operator differs inside the context" % label)
                res = R.apply(rho)                       # a copy created inside the context (operand not read before)
                created["apply"] = res
                _ = rho.data
                created["apply-after-read"] = R.apply(rho)
                created["copy"] = copy.copy(A)
                created["deepcopy"] = copy.deepcopy(A)
                created["A.copy()"] = A.copy()
                created["new"] = Operator(data=numpy.array(A.data))
                tr_in = numpy.trace(numpy.dot(numpy.array(A.data), numpy.array(rho.data)))
                with eigenbasis_of(H2):
                    A.data = numpy.array(A.data)          # write in a nested context
                    _ = R.data
                    raise RuntimeError("boom")
        except RuntimeError:
            pass
        if book() != b0:
            bad.append("%s: bookkeeping not restored: %r != %r" % (label, book(), b0))
        if not close(H.data, hsite):
            bad.append("%s: context operator not restored" % label)
        try:
            if not close(A.data, A0) or not close(R.data, R0) or not close(rho.data, rho0):
                bad.append("%s: an object is not back at its original values after the contexts" % label)
        except Exception as e:      # noqa
            bad.append("%s: an object cannot be read after the contexts were left: %s" % (label, e))
        if abs(tr_in - numpy.trace(numpy.dot(A0, rho0))) > 1e-10:
            bad.append("%s: tr(A rho) differs inside the context" % label)
        for k, obj in created.items():
            try:
                val = numpy.array(obj.data)
            except Exception as e:      # noqa
                bad.append("%s: object created inside the context by %s cannot be read afterwards: %s" % (label, k, e))
                continue
            want = act_site if k.startswith("apply") else A0
            if not close(val, want, 1e-9):
                bad.append("%s: object created inside the context by %s has wrong values outside" % (label, k))
        # whole-array write of a tensor that was not read in the context first
        R3 = SuperOperator(data=R0.copy())
        with eigenbasis_of(H):
            inside = numpy.array(R.data)
            R3.data = inside.copy()
        try:
            if not close(R3.data, R0, 1e-9):
                bad.append("%s: tensor assigned as a whole inside a context is not transformed back" % label)
        except Exception as e:      # noqa
            bad.append("%s: tensor assigned as a whole inside a context cannot be read afterwards: %s" % (label, e))
        m.basis_stack[:] = [0]
        del m.basis_transformations[1:]
        m.basis_registered.clear()


run()
# ---- every basis-managed class: presented in the context's basis inside (nested), back at its original values afterwards -----------
try:
    from quantarhei.qm import (RedfieldRelaxationTensor, TDRedfieldRelaxationTensor, FoersterRelaxationTensor,
                               EvolutionSuperOperator)
    ta_ = qr.TimeAxis(0.0, 200, 1.0)
    with qr.energy_units("1/cm"):
        mols_ = []
        for k_ in range(3):
            m_ = qr.Molecule([0.0, 12000.0 + 150 * k_])
            m_.set_dipole(0, 1, [1.0, 0.2 * k_, 0.1])
            m_.set_transition_environment((0, 1), qr.CorrelationFunction(ta_, dict(ftype="OverdampedBrownian", reorg=30.0 + 5 * k_,
                                                                                  cortime=60.0, T=300.0, matsubara=20)))
            mols_.append(m_)
        ag_ = qr.Aggregate(mols_)
        ag_.set_resonance_coupling(0, 1, 80.0)
        ag_.set_resonance_coupling(1, 2, -40.0)
    ag_.build()
    hm_, sb_ = ag_.get_Hamiltonian(), ag_.get_SystemBathInteraction()
    with qr.energy_units("int"):
        hm2_ = qr.Hamiltonian(data=numpy.array(hm_.data) + numpy.diag([0, 0.001, -0.002, 0.003]))
    rt_ = RedfieldRelaxationTensor(hm_, sb_)
    r0_ = ReducedDensityMatrix(dim=4)
    r0_.data[1, 1], r0_.data[2, 2] = 0.6, 0.4
    r0_.data[1, 2] = r0_.data[2, 1] = 0.2
    eS_ = EvolutionSuperOperator(qr.TimeAxis(0.0, 4, 10.0), hm_, rt_)
    eS_.set_dense_dt(10)
    eS_.calculate(show_progress=False)
    things = {"Redfield tensor": (rt_, "data"), "Redfield operators": (RedfieldRelaxationTensor(hm_, sb_, as_operators=True), "Lm"),
              "time-dependent Redfield tensor": (TDRedfieldRelaxationTensor(hm_, sb_), "data"),
              "Foerster tensor": (FoersterRelaxationTensor(hm_, sb_), "data"),
              "transition dipole operator": (ag_.get_TransitionDipoleMoment(), "data"),
              "density-matrix evolution": (qr.ReducedDensityMatrixPropagator(qr.TimeAxis(0.0, 20, 1.0), hm_, rt_).propagate(r0_), "data"),
              "evolution superoperator": (eS_, "data")}
    for name_, (o_, at_) in things.items():
        before_ = numpy.array(getattr(o_, at_)).copy()
        tol_ = 1e-11 * max(1.0, abs(before_).max())
        for outer_, inner_ in ((hm_, hm2_), (hm2_, hm_)):
            with eigenbasis_of(outer_):
                in1_ = numpy.array(getattr(o_, at_)).copy()
                with eigenbasis_of(inner_):
                    _ = numpy.array(getattr(o_, at_)).copy()
                in2_ = numpy.array(getattr(o_, at_)).copy()
            after_ = numpy.array(getattr(o_, at_)).copy()
            if not close(in1_, in2_, tol_):
                bad.append("%s: presentation inside a context changes after a nested context was entered and left" % name_)
            if not close(after_, before_, tol_):
                bad.append("%s: not back at its original values after the contexts are left (max deviation %.3e)"
                           % (name_, abs(after_ - before_).max()))
except Exception as e_:      # noqa
    bad.append("class sweep raised %s: %s" % (type(e_).__name__, str(e_)[:120]))

for b in bad:
    print("VIOLATED:", b)
print("C04 oracle: %d violations" % len(bad))
sys.exit(1 if bad else 0)
