"""Property-level native oracle for C06: Redfield and Foerster rate matrices of small aggregates (zero column sums,
non-negative Redfield transfer rates, detailed balance K[a,b]/K[b,a] = exp(-(E_a-E_b)/kT) for Redfield rates in the exciton basis),
odd analytic spectral densities, and C(-w) = exp(-w/kT) C(w) for the Fourier-transformed correlation function.  Replay of
last resort and thorough-tier cross-check only."""
import sys
import numpy
import quantarhei as qr
from quantarhei.core.units import kB_intK

bad = []


def system(n, T, couplings):
    ta = qr.TimeAxis(0.0, 2000, 1.0)
    en = [12000.0, 12150.0, 12320.0][:n]
    mols = []
    with qr.energy_units("1/cm"):
        for k in range(n):
            m = qr.Molecule([0.0, en[k]])
            cf = qr.CorrelationFunction(ta, dict(ftype="OverdampedBrownian", reorg=[30.0, 45.0, 20.0][k],
                                                 cortime=[60.0, 80.0, 50.0][k], T=T, matsubara=30))
            m.set_transition_environment((0, 1), cf)
            mols.append(m)
        agg = qr.Aggregate(mols)
        for (i, j), v in couplings.items():
            if j < n:
                agg.set_resonance_coupling(i, j, v)
    agg.build()
    return agg, agg.get_Hamiltonian(), agg.get_SystemBathInteraction()


for n in (2, 3):
    for T in (77.0, 300.0):
        agg, ham, sbi = system(n, T, {(0, 1): 80.0, (1, 2): 40.0, (0, 2): 15.0})
        label = "%d-mer at %g K" % (n, T)
        try:
            RRM = qr.qm.RedfieldRateMatrix(ham, sbi)
            K = numpy.array(RRM.data)
            E = numpy.linalg.eigvalsh(numpy.array(ham.data))
            if abs(K.sum(axis=0)).max() > 1e-12 * max(1e-30, abs(K).max()):
                bad.append("%s: Redfield rate matrix has non-zero column sums (%.2e)" % (label, abs(K.sum(axis=0)).max()))
            off = K - numpy.diag(numpy.diag(K))
            if off.min() < -1e-15:
                bad.append("%s: negative Redfield transfer rate %.3e" % (label, off.min()))
            for a in range(1, ham.dim):
                for b in range(1, ham.dim):
                    if a != b and K[b, a] > 1e-12 and K[a, b] > 1e-12:
                        want = numpy.exp(-(E[a] - E[b]) / (kB_intK * T))
                        if abs(K[a, b] / K[b, a] - want) > 1e-6 * want:
                            bad.append("%s: Redfield rates %d<-%d / %d<-%d = %.6g, Boltzmann factor %.6g" % (label, a, b, b, a, K[a, b] / K[b, a], want))
        except Exception as e:      # noqa
            bad.append("%s: Redfield rates raised %s: %s" % (label, type(e).__name__, str(e)[:100]))
        try:
            agg2, ham2, sbi2 = system(n, T, {(0, 1): 20.0, (1, 2): 10.0, (0, 2): 5.0})
            FRM = qr.qm.FoersterRateMatrix(ham2, sbi2)
            KF = numpy.array(FRM.data)
            if abs(KF.sum(axis=0)).max() > 1e-12 * max(1e-30, abs(KF).max()):
                bad.append("%s: Foerster rate matrix has non-zero column sums (%.2e)" % (label, abs(KF.sum(axis=0)).max()))
            if abs(KF[0, 1:]).max() > 0 or abs(KF[1:, 0]).max() > 0:
                bad.append("%s: Foerster rates couple the ground state" % label)
        except Exception as e:      # noqa
            bad.append("%s: Foerster rates raised %s: %s" % (label, type(e).__name__, str(e)[:100]))

# ---- spectral densities and their Fourier-transformed correlation functions -----------------------------------------------------
ta = qr.TimeAxis(0.0, 1024, 1.0)
for T in (77.0, 300.0):
    for p in (dict(ftype="OverdampedBrownian", reorg=30.0, cortime=80.0, T=T),
              dict(ftype="UnderdampedBrownian", reorg=20.0, freq=200.0, gamma=1.0 / 300.0, T=T)):
        label = "%s at %g K" % (p["ftype"], T)
        try:
            with qr.energy_units("1/cm"):
                sd = qr.SpectralDensity(ta, p)
            w = numpy.array(sd.axis.data)
            J = numpy.array(sd.data).real
            n0 = len(w) // 2
            # the axis is symmetric around its centre point: J(-w) = -J(w)
            for k in range(1, n0 - 1):
                if abs(w[n0 + k] + w[n0 - k]) < 1e-12 and abs(J[n0 + k] + J[n0 - k]) > 1e-6 * abs(J).max():
                    bad.append("%s: spectral density is not odd at w = %.4g" % (label, w[n0 + k]))
                    break
            C = numpy.array(sd.get_FTCorrelationFunction(temperature=T).data).real
            for k in range(1, n0 - 1):
                if abs(w[n0 + k] + w[n0 - k]) < 1e-12 and C[n0 + k] > 1e-14:
                    want = numpy.exp(-w[n0 + k] / (kB_intK * T)) * C[n0 + k]
                    if abs(C[n0 - k] - want) > 1e-6 * abs(want) + 1e-16:
                        bad.append("%s: C(-w) = %.6g, exp(-w/kT) C(w) = %.6g at w = %.4g" % (label, C[n0 - k], want, w[n0 + k]))
                        break
        except Exception as e:      # noqa
            bad.append("%s: raised %s: %s" % (label, type(e).__name__, str(e)[:100]))

for b in bad[:12]:
    print("VIOLATED:", b)
print("C06 oracle: %d violations" % len(bad))
sys.exit(1 if bad else 0)
