"""Property-level native oracle for C14: thermal / thermal excited state (weak and strong coupling) / impulsive initial
conditions of dimers and trimers over temperatures from 0 K upward (including temperatures where the Boltzmann factors
of optical energies underflow): finite, Hermitian, positive semidefinite, unit trace, Boltzmann ratios."""
import sys
import numpy
import quantarhei as qr
from quantarhei.core.units import kB_intK

bad = []


def aggregate(energies, coupling):
    with qr.energy_units("1/cm"):
        mols = [qr.Molecule([0.0, e]) for e in energies]
        for k, m in enumerate(mols):
            m.set_dipole(0, 1, [1.0, 0.2 * k, 0.0])
        agg = qr.Aggregate(mols)
        for k in range(len(mols) - 1):
            agg.set_resonance_coupling(k, k + 1, coupling)
    agg.build()
    return agg


def check_state(label, rho, unit_trace=True):
    d = numpy.array(rho.data)
    if not numpy.all(numpy.isfinite(d)):
        bad.append("%s: not finite" % label)
        return False
    if not numpy.allclose(d, d.conj().T, atol=1e-12):
        bad.append("%s: not Hermitian" % label)
    w = numpy.linalg.eigvalsh((d + d.conj().T) / 2)
    if w.min() < -1e-12:
        bad.append("%s: not positive semidefinite (lowest eigenvalue %.3g)" % (label, w.min()))
    if unit_trace and abs(numpy.trace(d).real - 1.0) > 1e-10:
        bad.append("%s: trace %.12g" % (label, numpy.trace(d).real))
    return True


for energies, J in (([12000.0, 12100.0], 100.0), ([12000.0, 12300.0, 11900.0], 60.0), ([12000.0, 12000.0], 0.0)):
    agg = aggregate(energies, J)
    for T in (0.0, 0.5, 5.0, 25.0, 77.0, 300.0):
        for cond, lim in (("thermal", "weak_coupling"), ("thermal_excited_state", "weak_coupling"),
                          ("thermal_excited_state", "strong_coupling"), ("impulsive_excitation", "weak_coupling")):
            label = "energies %s, J=%g, T=%g K, %s/%s" % (energies, J, T, cond, lim)
            try:
                with qr.energy_units("int"):
                    H = agg.get_Hamiltonian()
                    rho = agg.get_DensityMatrix(condition_type=cond, relaxation_theory_limit=lim, temperature=T,
                                                relaxation_hamiltonian=H)
                    Hd = numpy.array(H.data)
            except Exception as e:      # noqa
                bad.append("%s: raised %s: %s" % (label, type(e).__name__, str(e)[:100]))
                continue
            if not check_state(label, rho, unit_trace=(cond != "impulsive_excitation")):
                continue
            if cond == "thermal_excited_state" and lim == "strong_coupling" and T > 0:
                p = numpy.real(numpy.diag(rho.data))[1:]
                e = numpy.real(numpy.diag(Hd))[1:]
                for a in range(len(p)):
                    for b in range(len(p)):
                        x = -(e[a] - e[b]) / (kB_intK * T)
                        if x < 500 and p[b] > 1e-250 and abs(p[a] / p[b] - numpy.exp(x)) > 1e-6 * numpy.exp(x):
                            bad.append("%s: populations %d/%d in the ratio %.6g, Boltzmann %.6g" % (label, a, b, p[a] / p[b], numpy.exp(x)))

# ---- same physical state whether requested inside or outside a basis context (states whose basis is fixed by the request) ---------
ta_ = qr.TimeAxis(0.0, 300, 1.0)


def aggregate_with_bath(energies, coupling):
    with qr.energy_units("1/cm"):
        mols = []
        for k, e in enumerate(energies):
            m = qr.Molecule([0.0, e])
            m.set_dipole(0, 1, [1.0, 0.2 * k, 0.0])
            m.set_transition_environment((0, 1), qr.CorrelationFunction(ta_, dict(ftype="OverdampedBrownian", reorg=30.0 + 10 * k,
                                                                                   cortime=80.0, T=300)))
            mols.append(m)
        agg_ = qr.Aggregate(mols)
        for k in range(len(mols) - 1):
            agg_.set_resonance_coupling(k, k + 1, coupling)
    agg_.build()
    return agg_


for energies, J in (([12000.0, 12200.0], 150.0), ([12000.0, 12300.0, 11900.0], 80.0)):
    agg = aggregate_with_bath(energies, J)
    Hc = agg.get_Hamiltonian()
    for T in (5.0, 300.0):
        for lim in ("weak_coupling", "strong_coupling"):
            label = "energies %s, J=%g, T=%g K, thermal_excited_state/%s" % (energies, J, T, lim)
            try:
                r_out = agg.get_DensityMatrix(condition_type="thermal_excited_state", relaxation_theory_limit=lim, temperature=T)
                d_out = numpy.array(r_out.data).copy()
                with qr.eigenbasis_of(Hc):
                    r_in = agg.get_DensityMatrix(condition_type="thermal_excited_state", relaxation_theory_limit=lim, temperature=T)
                d_in = numpy.array(r_in.data).copy()
            except Exception as e:      # noqa
                bad.append("%s: raised %s: %s" % (label, type(e).__name__, str(e)[:100]))
                continue
            if not numpy.allclose(d_out, d_in, atol=1e-9):
                where = "excitonic equilibrium" if lim == "weak_coupling" else "site equilibrium (strong coupling) requested inside a basis context"
                bad.append("%s: %s is a different physical state when requested inside eigenbasis_of(H) than outside "
                           "(max deviation %.3g)" % (label, where, abs(d_out - d_in).max()))
            if lim == "weak_coupling":
                Hd = numpy.array(Hc.data)
                if abs(Hd @ d_out - d_out @ Hd).max() > 1e-9 * abs(Hd).max():
                    bad.append("%s: the excitonic equilibrium requested from the site basis does not commute with the Hamiltonian" % label)

# ---- molecular version: OpenSystem.get_thermal_ReducedDensityMatrix (temperature taken from the environment) ---------------------
ta = qr.TimeAxis(0.0, 200, 1.0)
for energies, modes in (([0.0, 12000.0], 0), ([0.0, 300.0], 0), ([0.0, 150.0, 420.0], 0), ([0.0, 12000.0], 1)):
    for T in (0.5, 5.0, 25.0, 77.0, 300.0):
        label = "molecule %s with %d modes, T=%g K" % (energies, modes, T)
        try:
            with qr.energy_units("1/cm"):
                m = qr.Molecule(energies)
                cf = qr.CorrelationFunction(ta, dict(ftype="OverdampedBrownian", reorg=20, cortime=100, T=T))
                m.set_transition_environment((0, 1), cf)
                if modes:
                    md = qr.Mode(frequency=120.0)
                    m.add_Mode(md)
                    md.set_nmax(0, 3)
                    md.set_nmax(1, 3)
                    md.set_HR(1, 0.3)
            rho = m.get_thermal_ReducedDensityMatrix()
            Hd = numpy.array(m.get_Hamiltonian().data)
        except Exception as e:      # noqa
            bad.append("%s: raised %s: %s" % (label, type(e).__name__, str(e)[:100]))
            continue
        if not check_state(label, rho):
            continue
        w, S = numpy.linalg.eigh(Hd)
        p = numpy.real(numpy.diag(S.T @ numpy.array(rho.data) @ S))
        off = S.T @ numpy.array(rho.data) @ S - numpy.diag(p)
        if numpy.max(numpy.abs(off)) > 1e-10:
            bad.append("%s: not diagonal in the eigenbasis of the Hamiltonian" % label)
        for a in range(len(p)):
            for b in range(len(p)):
                x = -(w[a] - w[b]) / (kB_intK * T)
                if x < 500 and p[b] > 1e-250 and abs(p[a] / p[b] - numpy.exp(x)) > 1e-6 * numpy.exp(x) + 1e-200:
                    bad.append("%s: populations %d/%d in the ratio %.6g, Boltzmann %.6g" % (label, a, b, p[a] / p[b], numpy.exp(x)))

for b in bad[:12]:
    print("VIOLATED:", b)
print("C14 oracle: %d violations" % len(bad))
sys.exit(1 if bad else 0)
