"""Property-level native oracle for C13: axis round trips (t->w->t, w->t->w, both types, even and odd lengths), Fourier
transform against the direct Fourier sum, and transform followed by inverse transform."""
import sys
import numpy
import quantarhei as qr
from quantarhei import TimeAxis, FrequencyAxis, DFunction

bad = []
rng = numpy.random.default_rng(5)


def same_axis(a, b, what):
    ok = (a.length == b.length and a.atype == b.atype and numpy.allclose(a.data, b.data, rtol=1e-9, atol=1e-9 * max(1.0, abs(a.step)))
          and abs(a.step - b.step) <= 1e-9 * abs(a.step))
    if not ok:
        bad.append("%s: axis (%s, start=%g, N=%d, step=%g) came back as (start=%g, N=%d, step=%g)"
                   % (what, a.atype, a.start, a.length, a.step, b.start, b.length, b.step))


def direct_sum(t, y, w):
    return numpy.array([numpy.sum(y * numpy.exp(1j * wk * t)) for wk in w])


for atype in ("complete", "upper-half"):
    for N in range(2, 14):
        for start in (0.0, -3.5, 12.0):
            for step in (1.0, 0.37):
                t = TimeAxis(start, N, step, atype=atype)
                w = t.get_FrequencyAxis()
                same_axis(t, w.get_TimeAxis(), "t->w->t")
                same_axis(w, w.get_TimeAxis().get_FrequencyAxis(), "t->w->t->w")
                if atype == "complete" or N % 2 == 0:
                    with qr.energy_units("int"):
                        w0 = FrequencyAxis(start, N, step, atype=atype)
                    same_axis(w0, w0.get_TimeAxis().get_FrequencyAxis(), "w->t->w")
        # Fourier transform against the direct sum
        step = 0.5
        if atype == "complete":
            t = TimeAxis(-(N // 2) * step, N, step, atype="complete")        # centred at zero
            y = rng.random(N) + 1j * rng.random(N)
            f = DFunction(t, y)
            F = f.get_Fourier_transform()
            want = direct_sum(t.data, y, F.axis.data) * step
            if not numpy.allclose(F.data, want, atol=1e-9):
                bad.append("FT on a complete axis centred at zero, N=%d: differs from the direct Fourier sum (max dev %.3g)"
                           % (N, numpy.abs(F.data - want).max()))
            back = F.get_inverse_Fourier_transform()
            if not numpy.allclose(back.data, y, atol=1e-9) or not numpy.allclose(back.axis.data, t.data, atol=1e-9):
                bad.append("FT then inverse FT on a complete axis, N=%d: original not recovered (max dev %.3g)"
                           % (N, numpy.abs(back.data - y).max()))
            Fi = f.get_inverse_Fourier_transform()
            wanti = direct_sum(t.data, y, -Fi.axis.data) * step
            if not numpy.allclose(Fi.data, wanti, atol=1e-9):
                bad.append("inverse FT on a complete axis centred at zero, N=%d: differs from the direct sum with exp(-iwt) "
                           "(max dev %.3g)" % (N, numpy.abs(Fi.data - wanti).max()))
        else:
            t = TimeAxis(0.0, N, step)
            y = rng.random(N) + 1j * rng.random(N)
            y[0] = y[0].real
            f = DFunction(t, y)
            if N % 3 == 0:
                # the same function reached through its history: created with real values, complex values assigned later
                f = DFunction(t, numpy.real(y).copy())
                f.data = y.copy()
            F = f.get_Fourier_transform()
            # Hermitian extension f(-t) = conj f(t) on the grid -(N-1)..N-1
            te = numpy.concatenate([-t.data[:0:-1], t.data])
            ye = numpy.concatenate([numpy.conj(y[:0:-1]), y])
            want = direct_sum(te, ye, F.axis.data) * step
            if not numpy.allclose(F.data, want, atol=1e-9):
                bad.append("FT on an upper-half axis, N=%d: differs from the direct sum over the Hermitian extension "
                           "(max dev %.3g)" % (N, numpy.abs(F.data - want).max()))
            back = F.get_inverse_Fourier_transform()
            if not numpy.allclose(back.data, y, atol=1e-9) or not numpy.allclose(back.axis.data, t.data, atol=1e-9):
                bad.append("FT then inverse FT on an upper-half axis, N=%d: original not recovered (max dev %.3g)"
                           % (N, numpy.abs(back.data - y).max()))

for b in bad[:15]:
    print("VIOLATED:", b)
print("C13 oracle: %d violations" % len(bad))
sys.exit(1 if bad else 0)
