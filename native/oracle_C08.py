"""Property-level native oracle for C08: evolution superoperator of small aggregates with time-independent Redfield /
Lindblad generators: identity at time zero, U(t_i+t_j) = U(t_i)U(t_j) on the grid, trace and Hermiticity preservation at
every time, agreement with direct propagation of random states, incremental (jit) = all-at-once, and refinement of the
internal step within the truncation bound.  Replay of last resort and thorough-tier cross-check only."""
import sys
import numpy
import quantarhei as qr
from quantarhei.qm import EvolutionSuperOperator, RedfieldRelaxationTensor

bad = []
rng = numpy.random.default_rng(21)


def system(n):
    ta = qr.TimeAxis(0.0, 300, 1.0)
    en = [12000.0, 12180.0, 12310.0][:n]
    mols = []
    with qr.energy_units("1/cm"):
        for k in range(n):
            m = qr.Molecule([0.0, en[k]])
            cf = qr.CorrelationFunction(ta, dict(ftype="OverdampedBrownian", reorg=[30.0, 45.0, 20.0][k],
                                                 cortime=[60.0, 80.0, 50.0][k], T=300.0, matsubara=20))
            m.set_transition_environment((0, 1), cf)
            mols.append(m)
        agg = qr.Aggregate(mols)
        J = {(0, 1): 70.0, (1, 2): 35.0, (0, 2): 12.0}
        for (i, j), v in J.items():
            if j < n:
                agg.set_resonance_coupling(i, j, v)
    agg.build()
    return agg, agg.get_Hamiltonian(), agg.get_SystemBathInteraction()


def comp(A, B):
    return numpy.tensordot(A, B)


def rel(a, b):
    return abs(numpy.asarray(a) - numpy.asarray(b)).max() / max(1e-30, abs(numpy.asarray(b)).max())


for n in (2, 3):
    agg, ham, sbi = system(n)
    ham.set_rwa([0, 1]) if False else None
    RT = RedfieldRelaxationTensor(ham, sbi)
    RT.secularize()
    N = ham.dim
    label = "%d-mer" % n
    for dense in (1, 5):
        tgrid = qr.TimeAxis(0.0, 9, 10.0)
        eS = EvolutionSuperOperator(tgrid, ham, RT)
        eS.set_dense_dt(10 * dense)
        eS.calculate(show_progress=False)
        U = numpy.array(eS.data)
        I4 = numpy.einsum("ac,bd->abcd", numpy.eye(N), numpy.eye(N))
        if abs(U[0] - I4).max() > 1e-12:
            bad.append("%s dense=%d: U(0) is not the identity" % (label, dense))
        for i in range(1, 5):
            for j in range(1, 9 - i):
                if rel(comp(U[i], U[j]), U[i + j]) > 1e-8:
                    bad.append("%s dense=%d: U(t_%d)U(t_%d) != U(t_%d): %.2e" % (label, dense, i, j, i + j, rel(comp(U[i], U[j]), U[i + j])))
                    break
            else:
                continue
            break
        for k in range(9):
            tr = numpy.einsum("aacd->cd", U[k])
            if abs(tr - numpy.eye(N)).max() > 1e-8:
                bad.append("%s dense=%d: trace not preserved at time index %d (%.2e)" % (label, dense, k, abs(tr - numpy.eye(N)).max()))
                break
            he = abs(numpy.conj(U[k]) - numpy.transpose(U[k], (1, 0, 3, 2))).max()
            if he > 1e-8:
                bad.append("%s dense=%d: Hermiticity not preserved at time index %d (%.2e)" % (label, dense, k, he))
                break
        # agreement with direct propagation (same internal step)
        tfine = qr.TimeAxis(0.0, 81, 10.0 / (10 * dense))
        prop = qr.ReducedDensityMatrixPropagator(tfine, ham, RT)
        for trial in range(2):
            A = rng.standard_normal((N, N)) + 1j * rng.standard_normal((N, N))
            A = A @ A.conj().T
            A /= numpy.trace(A).real
            rho0 = qr.ReducedDensityMatrix(data=A.copy())
            if dense == 1:
                rt = prop.propagate(rho0)
                for k in (1, 4, 8):
                    want = rt.data[k * 10 * dense]
                    got = numpy.tensordot(U[k], A)
                    if rel(got, want) > 1e-7:
                        bad.append("%s: U(t_%d) applied to a state differs from direct propagation: %.2e" % (label, k, rel(got, want)))
                        break
        # incremental mode
        eJ = EvolutionSuperOperator(tgrid, ham, RT, mode="jit")
        eJ.set_dense_dt(10 * dense)
        for k in range(1, 9):
            eJ.calculate_next()
            if rel(eJ.data, U[k]) > 1e-9:
                bad.append("%s dense=%d: step-by-step value at time index %d differs from the all-at-once value: %.2e"
                           % (label, dense, k, rel(eJ.data, U[k])))
                break
    # refinement of the internal step changes the result only within the truncation bound
    tgrid = qr.TimeAxis(0.0, 5, 10.0)
    res = []
    for dn in (10, 20):
        eS = EvolutionSuperOperator(tgrid, ham, RT)
        eS.set_dense_dt(dn)
        eS.calculate(show_progress=False)
        res.append(numpy.array(eS.data))
    if rel(res[0], res[1]) > 1e-5:
        bad.append("%s: refining the internal step from 1 fs to 0.5 fs changes U by %.2e" % (label, rel(res[0], res[1])))

for b in bad[:12]:
    print("VIOLATED:", b)
print("C08 oracle: %d violations" % len(bad))
sys.exit(1 if bad else 0)
