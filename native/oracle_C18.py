"""Property-level native oracle for C18: export / import round trips of DataSaveable in every format, real and complex,
one- and two-dimensional data, with and without an axis; save / load of objects in and outside basis contexts."""
import sys
import os
import io
import itertools
import tempfile
import numpy
import quantarhei as qr
from quantarhei.core.datasaveable import DataSaveable

bad = []


class Holder(DataSaveable):
    def __init__(self, data):
        self.data = data


rng = numpy.random.default_rng(18)
tmp = tempfile.mkdtemp(prefix="qvc_c18_")
for ext, cplx, dim, ax in itertools.product((".dat", ".txt", ".npy", ".npz", ".mat"), (False, True), (1, 2), (False, True)):
    N, M = 5, 3
    shape = (N,) if dim == 1 else (N, M)
    d = rng.random(shape) + (1j * rng.random(shape) if cplx else 0)
    label = "%s, %s, %dD, %s" % (ext, "complex" if cplx else "real", dim, "with axis" if ax else "without axis")
    fn = os.path.join(tmp, "f" + ext)
    try:
        axis = qr.ValueAxis(0.5, N, 0.25) if ax else None
        Holder(d.copy()).save_data(fn, with_axis=axis)
        h2 = Holder(None)
        axis2 = qr.ValueAxis(0.0, N, 1.0) if ax else None
        sys.stdout = io.StringIO()
        try:
            h2.load_data(fn, with_axis=axis2)
        finally:
            sys.stdout = sys.__stdout__
    except Exception as e:      # noqa
        sys.stdout = sys.__stdout__
        bad.append("%s: %s: %s" % (label, type(e).__name__, str(e)[:80]))
        continue
    got = numpy.asarray(h2.data)
    if got.shape != d.shape:
        bad.append("%s: shape %s came back as %s" % (label, d.shape, got.shape))
    elif not numpy.allclose(got, d, rtol=1e-12, atol=1e-14):
        bad.append("%s: values differ (max dev %.3g)" % (label, numpy.abs(got - d).max()))
    if ax and not numpy.allclose(axis2.data, axis.data):
        bad.append("%s: axis values differ" % label)
    try:
        os.unlink(fn)
    except OSError:
        pass
try:
    os.rmdir(tmp)
except OSError:
    pass

# an absorption spectrum exported and imported inside the same units context
try:
    from quantarhei.spectroscopy.abs2 import AbsSpectrum
    tmpd = tempfile.mkdtemp(prefix="qvc_c18s_")
    for units in ("int", "1/cm", "eV"):
        with qr.energy_units("1/cm"):
            fa = qr.FrequencyAxis(11000.0, 20, 50.0)
        sp = AbsSpectrum(axis=fa, data=rng.random(20))
        fn = os.path.join(tmpd, "s.dat")
        with qr.energy_units(units):
            sp.save_data(fn)
            with qr.energy_units("1/cm"):
                fb = qr.FrequencyAxis(0.0, 20, 1.0)
            sp2 = AbsSpectrum(axis=fb, data=numpy.zeros(20))
            sys.stdout = io.StringIO()
            try:
                sp2.load_data(fn)
            finally:
                sys.stdout = sys.__stdout__
        with qr.energy_units("int"):
            if not numpy.allclose(sp2.axis.data, sp.axis.data, rtol=1e-10):
                bad.append("absorption spectrum exported and imported in units %s: frequency axis differs (ratio %.6g)"
                           % (units, sp2.axis.data[3] / sp.axis.data[3]))
        if not numpy.allclose(sp2.data, sp.data):
            bad.append("absorption spectrum exported and imported in units %s: intensities differ" % units)
        os.unlink(fn)
    os.rmdir(tmpd)
except Exception as e:      # noqa
    sys.stdout = sys.__stdout__
    print("spectrum part not run: %s: %s" % (type(e).__name__, e))

# save / load of an operator around a basis context (listed as an open finding in known_findings.json)
try:
    from quantarhei.qm import Operator
    from quantarhei.core.parcel import load_parcel
    with qr.energy_units("int"):
        H = qr.Hamiltonian(data=[[0.0, 0.1], [0.1, 1.0]])
    A = Operator(data=[[1.0, 2.0], [3.0, 4.0]])
    fn = os.path.join(tempfile.mkdtemp(prefix="qvc_c18p_"), "a.qrp")
    with qr.eigenbasis_of(H):
        _ = A.data
        A.save(fn)
    B = load_parcel(fn)
    try:
        if not numpy.allclose(B.data, A.data):
            bad.append("operator saved inside a basis context and loaded outside presents different data")
    except Exception as e:      # noqa
        bad.append("operator saved inside a basis context cannot be read after loading outside: %s" % e)
    os.unlink(fn)
except Exception as e:      # noqa
    print("parcel part not run: %s: %s" % (type(e).__name__, e))

for b in bad[:12]:
    print("VIOLATED:", b)
print("C18 oracle: %d violations" % len(bad))
sys.exit(1 if bad else 0)
